#!/bin/bash
# run every claimed check on the current tree and validate the evidence files (used before committing evidence)
cd "$(dirname "$0")"
tier=${1:-quick}
fail=0
for p in $(python3 -c "import json;print(' '.join(c['property_id'] for c in json.load(open('MANIFEST.json'))['checks']))"); do
  out=$(./check $p --tier $tier 2>&1 | grep -v "^  " | tail -1)
  echo "$out"
  case "$out" in *"exit 0") ;; *) fail=1;; esac
done
python3 -m harness.statustable > /dev/null
python3 -m harness.seedtable > /dev/null
python3-vt - <<'PY'
import json, jsonschema, glob
sch = json.load(open('/root/.vp/EVIDENCE.schema.json'))
bad = 0
for f in sorted(glob.glob('evidence/C*.json')):
    try:
        e = json.load(open(f)); jsonschema.validate(e, sch)
        c = e['coverage']
        assert c['discharged'] == c['obligations'] >= 1, 'discharged != obligations'
    except Exception as ex:
        bad += 1; print('EVIDENCE PROBLEM', f, str(ex)[:120])
print('evidence files ok' if not bad else '%d evidence problems' % bad)
PY
exit $fail
