#!/bin/bash
# confirm a seeded change independently:  confirm_seed.sh <seed-id> <dir with patch.diff and demo.py>
# fresh scratch worktree of /repo HEAD: demo on the unchanged tree (must exit 0), demo with the patch (must exit non-zero),
# pinned suite with the patch (must be 64 passed, only the 6 baseline failures).  Worktree removed afterwards.
id=$1; src=$2
wt=/tmp/wt/confirm_$id
git -C /repo worktree remove --force $wt >/dev/null 2>&1
git -C /repo worktree add --detach $wt HEAD >/dev/null 2>&1 || { echo "cannot create worktree"; exit 2; }
cd $wt
export PYTHONPATH=$wt OMP_NUM_THREADS=2 TQDM_DISABLE=1 PYTHONDONTWRITEBYTECODE=1
if grep -q "/tmp/wt/r" $src/demo.py; then echo "NOTE: demo mentions an absolute worktree path"; fi
cp $src/demo.py $wt/demo.py          # demos may look for test data next to themselves
timeout 600 /venv/bin/python $wt/demo.py > /tmp/seedconf_${id}_clean.out 2>&1; c=$?
git apply $src/patch.diff || { echo "patch does not apply"; git -C /repo worktree remove --force $wt; exit 2; }
files=$(git diff --name-only | tr '\n' ' ')
timeout 600 /venv/bin/python $wt/demo.py > /tmp/seedconf_${id}_mut.out 2>&1; m=$?
t=$(timeout 3000 /venv/bin/python -m pytest -q -p no:cacheprovider --timeout=900 test 2>&1 | tail -1)
nf=$(timeout 10 true; echo "$t")
cd /
git -C /repo worktree remove --force $wt
echo "$id demo_clean=$c demo_mutated=$m files=[$files] pytest: $t"
