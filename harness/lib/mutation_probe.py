"""Dynamic probe for C20: wraps every function and method defined under odak.* so that each call snapshots its arguments
(arrays, tensors, lists, dicts, nested) and the function's mutable defaults before the call and compares them afterwards."""
import copy
import functools
import inspect
import sys
import types

import numpy as np
import torch

MAX_ELEMS = 2_000_000


def snap(x, depth=0):
    if depth > 4:
        return ('opaque',)
    if isinstance(x, np.ndarray):
        if x.size > MAX_ELEMS or x.dtype == object:
            return ('opaque',)
        return ('nd', x.dtype.str, x.shape, x.copy())
    if isinstance(x, torch.Tensor):
        if x.numel() > MAX_ELEMS:
            return ('opaque',)
        try:
            return ('t', str(x.dtype), tuple(x.shape), x.detach().clone())
        except Exception:
            return ('opaque',)
    if isinstance(x, (list, tuple)):
        if len(x) > 2000:
            return ('opaque',)
        return ('seq', type(x).__name__, [snap(e, depth + 1) for e in x])
    if isinstance(x, dict):
        if len(x) > 2000:
            return ('opaque',)
        try:
            return ('dict', sorted((repr(k), snap(v, depth + 1)) for k, v in x.items()))
        except Exception:
            return ('opaque',)
    if isinstance(x, (int, float, complex, str, bytes, bool, type(None))):
        return ('v', x)
    return ('opaque',)


def same(a, b):
    if a[0] != b[0]:
        return False
    if a[0] == 'opaque':
        return True
    if a[0] == 'nd':
        return a[1] == b[1] and a[2] == b[2] and np.array_equal(a[3], b[3], equal_nan=a[3].dtype.kind in 'fc')
    if a[0] == 't':
        if a[1] != b[1] or a[2] != b[2]:
            return False
        x, y = a[3], b[3]
        if x.is_floating_point() or x.is_complex():
            return bool(torch.equal(torch.nan_to_num(torch.view_as_real(x) if x.is_complex() else x, nan=12345.678),
                                    torch.nan_to_num(torch.view_as_real(y) if y.is_complex() else y, nan=12345.678)))
        return bool(torch.equal(x, y))
    if a[0] == 'seq':
        return a[1] == b[1] and len(a[2]) == len(b[2]) and all(same(p, q) for p, q in zip(a[2], b[2]))
    if a[0] == 'dict':
        return len(a[1]) == len(b[1]) and all(p[0] == q[0] and same(p[1], q[1]) for p, q in zip(a[1], b[1]))
    if a[0] == 'v':
        x, y = a[1], b[1]
        return (x == y) or (isinstance(x, float) and isinstance(y, float) and x != x and y != y)
    return True


def close(a, b, rtol=2e-3):
    """like same() but values may differ by rounding (relative to the largest magnitude of the object): for comparisons between runs whose
    floating-point evaluation order may legitimately differ (another memory order, another thread count)"""
    if a[0] != b[0]:
        return False
    if a[0] == 'nd':
        if a[1] != b[1]:
            return False
        x, y = a[3], b[3]
        if x.dtype.kind in 'fc' and x.size:
            fx, fy = np.nan_to_num(x, nan=12345.678, posinf=1e300, neginf=-1e300), np.nan_to_num(y, nan=12345.678, posinf=1e300, neginf=-1e300)
            m = float(np.max(np.abs(fx)))
            return bool(np.max(np.abs(fx - fy)) <= rtol * max(m, 1e-30))
        return bool(np.array_equal(x, y))
    if a[0] == 't':
        if a[1] != b[1]:
            return False
        x, y = a[3], b[3]
        if (x.is_floating_point() or x.is_complex()) and x.numel():
            fx = torch.nan_to_num(torch.view_as_real(x) if x.is_complex() else x, nan=12345.678).double()
            fy = torch.nan_to_num(torch.view_as_real(y) if y.is_complex() else y, nan=12345.678).double()
            m = float(fx.abs().max())
            return bool((fx - fy).abs().max() <= rtol * max(m, 1e-30))
        return bool(torch.equal(x, y))
    if a[0] == 'seq':
        return a[1] == b[1] and len(a[2]) == len(b[2]) and all(close(p, q, rtol) for p, q in zip(a[2], b[2]))
    if a[0] == 'dict':
        return len(a[1]) == len(b[1]) and all(p[0] == q[0] and close(p[1], q[1], rtol) for p, q in zip(a[1], b[1]))
    if a[0] == 'v':
        x, y = a[1], b[1]
        if isinstance(x, float) and isinstance(y, float):
            return (x != x and y != y) or abs(x - y) <= rtol * max(abs(x), 1e-30)
        return x == y
    return True


def perturb_in_place(x, depth=0):
    """change the CONTENTS of every float array / tensor / list of floats reachable from x without replacing any object and, for tensors, without
    bumping the autograd version counter (`.data`): what a caller does who updates a buffer it owns.  returns the number of objects changed"""
    n = 0
    if depth > 3:
        return 0
    if isinstance(x, torch.Tensor):
        if x.numel() and (x.is_floating_point() or x.is_complex()) and not x.requires_grad:
            try:
                x.data.mul_(1.0009765625)          # 1 + 2^-10: exact in binary, keeps signs, zeros and unit-free structure
                n += 1
            except Exception:
                pass
    elif isinstance(x, np.ndarray):
        if x.size and x.dtype.kind in 'fc' and x.flags.writeable:
            x *= 1.0009765625
            n += 1
    elif isinstance(x, list):
        for i, e in enumerate(x):
            if isinstance(e, float):
                x[i] = e * 1.0009765625
                n += 1
            else:
                n += perturb_in_place(e, depth + 1)
    elif isinstance(x, tuple):
        for e in x:
            n += perturb_in_place(e, depth + 1)
    elif isinstance(x, dict):
        for e in x.values():
            n += perturb_in_place(e, depth + 1)
    return n


def restore_in_place(x, saved, depth=0):
    """put the saved contents back into the very same objects (undo of perturb_in_place)"""
    if depth > 3:
        return
    if isinstance(x, torch.Tensor) and isinstance(saved, torch.Tensor):
        if x.numel() and (x.is_floating_point() or x.is_complex()) and not x.requires_grad:
            try:
                x.data.copy_(saved)
            except Exception:
                pass
    elif isinstance(x, np.ndarray) and isinstance(saved, np.ndarray):
        if x.size and x.dtype.kind in 'fc' and x.flags.writeable:
            x[...] = saved
    elif isinstance(x, list) and isinstance(saved, list) and len(x) == len(saved):
        for i, e in enumerate(x):
            if isinstance(e, float):
                x[i] = saved[i]
            else:
                restore_in_place(e, saved[i], depth + 1)
    elif isinstance(x, tuple) and isinstance(saved, tuple):
        for e, sv in zip(x, saved):
            restore_in_place(e, sv, depth + 1)
    elif isinstance(x, dict) and isinstance(saved, dict):
        for k_ in x:
            if k_ in saved:
                restore_in_place(x[k_], saved[k_], depth + 1)


def fresh_copy(x, depth=0):
    """new objects with the same values"""
    if depth > 4:
        return x
    if isinstance(x, torch.Tensor):
        return x.detach().clone().requires_grad_(x.requires_grad) if (x.is_floating_point() or x.is_complex()) else x.detach().clone()
    if isinstance(x, np.ndarray):
        return x.copy()
    if isinstance(x, list):
        return [fresh_copy(e, depth + 1) for e in x]
    if isinstance(x, tuple):
        return tuple(fresh_copy(e, depth + 1) for e in x)
    if isinstance(x, dict):
        return {k: fresh_copy(v, depth + 1) for k, v in x.items()}
    return x


def relayout_copy(x, depth=0):
    """new objects with the same values but another memory order: dense tensors / arrays of rank >= 2 get their last two axes exchanged in memory
    (column-major instead of row-major); what `img.transpose(-1, -2)`, `rot90`, a Fortran-ordered NumPy array hand to a function"""
    if depth > 4:
        return x
    if isinstance(x, torch.Tensor):
        y = x.detach().clone()
        if y.dim() >= 2 and y.shape[-1] > 1 and y.shape[-2] > 1:
            y = y.transpose(-1, -2).contiguous().transpose(-1, -2)
        return y.requires_grad_(x.requires_grad) if (y.is_floating_point() or y.is_complex()) else y
    if isinstance(x, np.ndarray):
        return np.asfortranarray(x.copy()) if x.ndim >= 2 else x.copy()
    if isinstance(x, list):
        return [relayout_copy(e, depth + 1) for e in x]
    if isinstance(x, tuple):
        return tuple(relayout_copy(e, depth + 1) for e in x)
    if isinstance(x, dict):
        return {k: relayout_copy(v, depth + 1) for k, v in x.items()}
    return x


def close_values(a, b, rtol=2e-3):
    """close() on the VALUES only: number types may differ (a Python float vs a NumPy scalar, float32 vs float64 results)"""
    def norm(x):
        if x[0] == 't':
            t = x[3]
            t = t.to(torch.complex128) if t.is_complex() else (t.to(torch.float64) if (t.is_floating_point() or t.dtype in (torch.int8, torch.int16, torch.int32, torch.int64, torch.uint8, torch.bool)) else t)
            return ('t', '', x[2], t)
        if x[0] == 'nd':
            arr = x[3]
            if arr.dtype.kind in 'fiub':
                arr = arr.astype(np.float64)
            elif arr.dtype.kind == 'c':
                arr = arr.astype(np.complex128)
            return ('nd', '', x[2], arr)
        if x[0] == 'seq':
            return ('seq', 'seq', [norm(e) for e in x[2]])
        if x[0] == 'dict':
            return ('dict', [(k, norm(v)) for k, v in x[1]])
        if x[0] == 'v' and isinstance(x[1], (bool, int, float)) and not isinstance(x[1], bool):
            return ('v', float(x[1]))
        return x
    try:
        return close(norm(a), norm(b), rtol)
    except Exception:
        return True


def argument_type_variants(x):
    """other ways to hand over the SAME value that callers of a numerical library use without thinking: a tuple or a torch.Size / NumPy integer array
    for a list of ints, a tuple for a list of bools or floats, a NumPy scalar or a 0-d tensor for a Python float, a torch.nn.Parameter for a tensor.
    yields (description, value)"""
    if isinstance(x, bool) or x is None or isinstance(x, str):
        return
    if isinstance(x, list) and x and all(isinstance(e, bool) for e in x):
        yield 'a tuple instead of a list of bools', tuple(x)
        return
    if isinstance(x, list) and x and all(isinstance(e, int) and not isinstance(e, bool) for e in x):
        yield 'a tuple instead of a list of ints', tuple(x)
        if all(e >= 0 for e in x):
            yield 'a torch.Size instead of a list of ints', torch.Size(x)
        yield 'a list of NumPy integers instead of a list of ints', [np.int64(e) for e in x]
        return
    if isinstance(x, tuple) and x and all(isinstance(e, int) and not isinstance(e, bool) for e in x) and not isinstance(x, torch.Size):
        yield 'a list instead of a tuple of ints', list(x)
        return
    if isinstance(x, list) and x and all(isinstance(e, (int, float)) and not isinstance(e, bool) for e in x):
        yield 'a tuple instead of a list of numbers', tuple(x)
        return
    if isinstance(x, float):
        yield 'a NumPy float64 scalar instead of a Python float', np.float64(x)
        return
    if isinstance(x, torch.Tensor) and x.is_floating_point() and not x.requires_grad and x.numel() > 0 and x.is_leaf:
        yield 'PARAMETER', None
        return


def _any_requires_grad(r, depth=0):
    if isinstance(r, torch.Tensor):
        return bool(r.requires_grad)
    if isinstance(r, (list, tuple)) and depth < 3:
        return any(_any_requires_grad(e, depth + 1) for e in r)
    return False


# iterative optimisers amplify rounding differences (another memory order changes the FFT's summation order): no layout comparison for them
ITERATIVE = {'odak.learn.wave.classical:stochastic_gradient_descent', 'odak.learn.wave.classical:gerchberg_saxton',
             'odak.learn.wave.classical:point_wise', 'odak.learn.wave.optimizers:multi_color_hologram_optimizer.optimize',
             'odak.learn.wave.optimizers:multi_color_hologram_optimizer.gradient_descent',
             'odak.learn.raytracing.boundary:intersect_w_sphere', 'odak.wave.classical:gerchberg_saxton', 'odak.wave.classical:gerchberg_saxton_3d'}


def _seed():
    import random as _r
    torch.manual_seed(4321)
    np.random.seed(4321)
    _r.seed(4321)


class Probe:
    def __init__(self):
        self.identity = False            # values-not-identity probe (see wrap): switched on for the targeted calls only
        self.identity_calls = {}
        self.identity_dependent = {}     # qual -> description
        self.result_changed_later = {}   # qual -> description
        self.layout_dependent = {}
        self.result_owned_by_library = {}
        self.argument_type_dependent = {}
        self.setting_dependent = {}
        self.type_calls = set()
        self.calls = {}
        self.mutated = {}        # (qual, param) -> example description
        self.default_mutated = {}
        self.installed = []
        self.depth = 0

    def wrap(self, fn, qual, skip_first):
        try:
            sig = inspect.signature(fn)
        except (TypeError, ValueError):
            return fn
        probe = self

        @functools.wraps(fn)
        def wrapper(*args, **kwargs):
            probe.calls[qual] = probe.calls.get(qual, 0) + 1
            # constructors and setters are not re-run with modified arguments: the object must end up in the state its real arguments give it
            meth = qual.rsplit('.', 1)[-1].rsplit(':', 1)[-1]
            no_rerun = skip_first and (meth == '__init__' or meth.startswith(('init_', 'set_')) or meth == 'to')
            top_level_probe = probe.identity and not no_rerun and probe.depth == 0 and sum(1 for q, _ in probe.type_calls if q == qual) < 24
            if (probe.calls[qual] > 40 and not top_level_probe) or probe.depth > 6:       # enough observations of this callable / deep recursion
                return fn(*args, **kwargs)
            try:
                bound = sig.bind(*args, **kwargs)
            except TypeError:
                return fn(*args, **kwargs)
            names = list(bound.arguments.keys())
            if skip_first and names:
                names = names[1:]
            before = {n: snap(bound.arguments[n]) for n in names}
            d0 = snap(list(fn.__defaults__)) if fn.__defaults__ else None
            probe.depth += 1
            try:
                tkey0 = (qual, tuple(sorted((k_, repr(v_)[:40]) if isinstance(v_, (bool, int, str, list, tuple)) and len(repr(v_)) < 200 else (k_, '')
                                            for k_, v_ in bound.arguments.items() if k_ != 'self')))
                if probe.identity and not no_rerun and probe.depth == 1 and (probe.identity_calls.get(qual, 0) < 2 or
                                                                             (tkey0 not in probe.type_calls and probe.identity_calls.get(qual, 0) < 24)):
                    # the first two calls of a callable and every call with another combination of option values (up to 24) get the full probe
                    probe.identity_calls[qual] = probe.identity_calls.get(qual, 0) + 1
                    probe.type_calls.add((qual, tuple(sorted((k_, repr(v_)[:40]) if isinstance(v_, (bool, int, str, list, tuple)) and len(repr(v_)) < 200 else (k_, '')
                                                             for k_, v_ in bound.arguments.items() if k_ != 'self'))))
                    return probe.identity_probe(fn, qual, args, kwargs)
                tkey = (qual, tuple(sorted((k_, repr(v_)[:40]) if isinstance(v_, (bool, int, str, list, tuple)) and len(repr(v_)) < 200 else (k_, '')
                                           for k_, v_ in bound.arguments.items() if k_ != 'self')))
                if probe.identity and not no_rerun and probe.depth == 1 and tkey not in probe.type_calls and sum(1 for q, _ in probe.type_calls if q == qual) < 24:
                    # a call of an already probed function that passes ANOTHER set of arguments: only the argument-type variants (vii)
                    probe.type_calls.add(tkey)
                    import random as _rnd
                    r1 = fn(*args, **kwargs)          # with the caller's random state, exactly as an unprobed call
                    rng_after = (torch.get_rng_state(), np.random.get_state(), _rnd.getstate())
                    try:
                        _seed()
                        r_a = snap(fn(*fresh_copy(args), **fresh_copy(kwargs)))
                        _seed()
                        r_b = snap(fn(*fresh_copy(args), **fresh_copy(kwargs)))
                        if same(r_a, r_b):
                            probe._argument_type_probe(fn, qual, args, kwargs, r_a)
                    except Exception:
                        pass
                    finally:
                        torch.set_rng_state(rng_after[0]); np.random.set_state(rng_after[1]); _rnd.setstate(rng_after[2])
                    return r1
                return fn(*args, **kwargs)
            finally:
                probe.depth -= 1
                for n in names:
                    try:
                        after = snap(bound.arguments[n])
                        if not same(before[n], after):
                            probe.mutated.setdefault((qual, n), 'argument %r changed during a call' % n)
                    except Exception:
                        pass
                if d0 is not None:
                    try:
                        if not same(d0, snap(list(fn.__defaults__))):
                            probe.default_mutated.setdefault(qual, 'default arguments changed')
                    except Exception:
                        pass
        wrapper.__odak_probe__ = True
        return wrapper

    def identity_probe(self, fn, qual, args, kwargs):
        """the result of a call is a function of the VALUES of its arguments: after the caller has changed the contents of the very same argument
        objects (in place, `.data` for tensors, so no version counter moves), a call with those objects must return what a call with fresh objects of
        equal values returns; and a value returned earlier must not be changed by a later call.  Random functions are seeded identically."""
        _seed()
        r1 = fn(*args, **kwargs)
        saved_a, saved_k = fresh_copy(args), fresh_copy(kwargs)
        keep = r1
        try:
            if perturb_in_place(args) + perturb_in_place(kwargs) == 0:
                self._returned_object_probe(fn, qual, args, kwargs, keep, None, None)
                return r1
            keep_snap = snap(keep)          # taken AFTER the update of the arguments: a result that is a view of an argument has followed it already
            f_args, f_kwargs = fresh_copy(args), fresh_copy(kwargs)
            _seed()
            r_same = snap(fn(*args, **kwargs))
            _seed()
            r_fresh = snap(fn(*f_args, **f_kwargs))
            if not same(r_same, r_fresh):
                _seed()
                r_fresh2 = snap(fn(*fresh_copy(f_args), **fresh_copy(f_kwargs)))
                if same(r_fresh, r_fresh2):          # deterministic, so the difference is the identity / history of the argument objects
                    self.identity_dependent.setdefault(qual, 'after the contents of the argument objects were updated in place, the call returns something '
                                                             'else than for fresh objects holding the same values')
            if not same(keep_snap, snap(keep)):
                self.result_changed_later.setdefault(qual, 'the value returned by an earlier call was changed by a later call')
            # (c) memory order: the same values in column-major order
            try:
                _seed()
                r_layout = snap(fn(*relayout_copy(args), **relayout_copy(kwargs)))
                if qual not in ITERATIVE and not close(r_same, r_layout) and same(r_same, r_fresh):
                    self.layout_dependent.setdefault(qual, 'the call returns something else for arguments holding the same values in another memory order '
                                                           '(last two axes exchanged in memory)')
            except Exception:
                pass
            # (d) what a call returns belongs to the caller: after the caller has scaled the returned object in place, the same call returns the same
            # values as before (unless the result is a view of an argument, which then changed too)
            self._returned_object_probe(fn, qual, args, kwargs, keep, r_same, r_fresh)
            if same(r_same, r_fresh):
                self._argument_type_probe(fn, qual, args, kwargs, r_same)
                self._settings_probe(fn, qual, args, kwargs, r_same)
        except Exception:
            pass
        finally:
            restore_in_place(args, saved_a)          # the caller's objects get their contents back
            restore_in_place(kwargs, saved_k)
        return r1

    def _argument_type_probe(self, fn, qual, args, kwargs, r_base):
        """(vii) the same VALUES handed over in another ordinary type (tuple / torch.Size / NumPy scalars for lists and floats, torch.nn.Parameter for
        a tensor): when the call accepts them it returns the same values; with a Parameter the result is connected to it through autograd exactly when
        it is connected to a plain leaf tensor that requires grad"""
        if qual in ITERATIVE:
            return
        slots = [('arg', i) for i in range(len(args))] + [('kw', k) for k in kwargs]
        for kind, key in slots:
            x = args[key] if kind == 'arg' else kwargs[key]
            for what, v in argument_type_variants(x):
                def call_with(val):
                    a2, k2 = list(fresh_copy(args)), dict(fresh_copy(kwargs))
                    if kind == 'arg':
                        a2[key] = val
                    else:
                        k2[key] = val
                    _seed()
                    return fn(*a2, **k2)
                try:
                    if what == 'PARAMETER':
                        leaf = x.detach().clone().requires_grad_(True)
                        r_leaf = call_with(leaf)
                        par = torch.nn.Parameter(x.detach().clone())
                        r_par = call_with(par)
                        if _any_requires_grad(r_leaf) and not _any_requires_grad(r_par):
                            self.argument_type_dependent.setdefault(qual, 'the result is connected through autograd to a plain tensor that requires grad but NOT to a '
                                                                          'torch.nn.Parameter holding the same values (argument %s)' % (key,))
                        elif not close_values(snap(r_leaf), snap(r_par)):
                            self.argument_type_dependent.setdefault(qual, 'the call returns other values for a torch.nn.Parameter than for a tensor holding the same '
                                                                          'values (argument %s)' % (key,))
                        continue
                    r_var = call_with(v)
                except Exception:
                    continue          # the call does not accept this type: nothing to compare
                if not close_values(r_base, snap(r_var)):
                    self.argument_type_dependent.setdefault(qual, 'the call accepts %s for argument %s but returns something else than for the original type '
                                                                  'holding the same values' % (what, key))

    def _settings_probe(self, fn, qual, args, kwargs, r_base):
        """(viii) what a call returns for explicitly typed arguments does not depend on a global setting of torch that a user may have changed
        (default dtype float64, grad mode off, CPU autocast) - up to the precision the setting itself changes.  Calls that raise under a setting are
        configurations the library rejects (not judged); functions that draw random numbers are skipped (the streams differ between dtypes)."""
        if qual in ITERATIVE:
            return
        from . import settings as ST
        st0 = torch.get_rng_state()
        nst0 = np.random.get_state()[1].copy()
        try:
            fn(*fresh_copy(args), **fresh_copy(kwargs))
        except Exception:
            return
        if not torch.equal(st0, torch.get_rng_state()) or not np.array_equal(nst0, np.random.get_state()[1]):
            return
        def _nonfinite(x):
            if x[0] == 't':
                t = x[3]
                return bool((t.is_floating_point() or t.is_complex()) and t.numel() and not torch.isfinite(torch.view_as_real(t) if t.is_complex() else t).all())
            if x[0] == 'nd':
                return bool(x[3].dtype.kind in 'fc' and x[3].size and not np.isfinite(x[3]).all())
            if x[0] == 'seq':
                return any(_nonfinite(e) for e in x[2])
            if x[0] == 'dict':
                return any(_nonfinite(v) for _, v in x[1])
            return False
        if _nonfinite(r_base):
            return          # overflow / division by zero in the result: where float32 gives inf, float64 gives a finite number - not a dependence on the setting
        # only the grad mode here: it never changes a value.  The default dtype changes the precision of constants built inside a function (results near a
        # branch cut - a phase at +-pi - or near an overflow then differ legitimately) and CPU autocast changes every matrix product: both are judged per
        # property on well-conditioned outputs (lib/settings.py differential in C11, C13, C15-C18)
        for sname in ['torch.set_grad_enabled(False)']:
            try:
                with ST.SETTINGS[sname]():
                    _seed()
                    r = snap(fn(*fresh_copy(args), **fresh_copy(kwargs)))
            except Exception:
                continue
            tol = 2e-2 if 'autocast' in sname else 2e-3
            if not close_values(r_base, r, rtol=tol):
                self.setting_dependent.setdefault(qual, 'with %s in force the call returns other values than under the default settings for the same '
                                                        'explicitly typed arguments' % sname)

    def _returned_object_probe(self, fn, qual, args, kwargs, keep, r_same, r_fresh):
        """(d) what a call returns belongs to the caller: after the caller has scaled the returned object in place, the same call returns the same
        values as before (unless the result is a view of an argument, which then changed too)"""
        if qual in ITERATIVE:
            return
        if r_same is None:
            _seed()
            r_same = snap(fn(*args, **kwargs))
            _seed()
            r_fresh = snap(fn(*args, **kwargs))
        if not same(r_same, r_fresh):
            return          # not deterministic
        arg_snap = (snap(args), snap(kwargs))
        keep_saved = fresh_copy(keep)
        try:
            if perturb_in_place(keep) and same(arg_snap[0], snap(args)) and same(arg_snap[1], snap(kwargs)):
                _seed()
                r_again = snap(fn(*args, **kwargs))
                if not same(r_again, r_same):
                    self.result_owned_by_library.setdefault(qual, 'after the caller changed the object a call returned, the same call returns different '
                                                                  'values: the library handed out (and keeps using) its own storage')
        finally:
            restore_in_place(keep, keep_saved)          # the caller receives what the call returned

    def install(self):
        import odak  # noqa
        mods = {name: m for name, m in list(sys.modules.items()) if name.startswith('odak') and isinstance(m, types.ModuleType)}
        replace = {}
        for mname, m in mods.items():
            fname = getattr(m, '__file__', None) or ''
            rel = mname if (not fname.endswith('__init__.py') or mname.endswith('.__init__')) else mname + '.__init__'
            for name, obj in list(vars(m).items()):
                if isinstance(obj, types.FunctionType) and obj.__module__ == mname and not getattr(obj, '__odak_probe__', False):
                    replace[id(obj)] = (obj, self.wrap(obj, '%s:%s' % (rel, name), False))
                elif isinstance(obj, type) and obj.__module__ == mname:
                    for aname, aobj in list(vars(obj).items()):
                        if isinstance(aobj, types.FunctionType) and not getattr(aobj, '__odak_probe__', False):
                            w = self.wrap(aobj, '%s:%s.%s' % (rel, obj.__name__, aname), True)
                            try:
                                setattr(obj, aname, w)
                                self.installed.append((obj, aname, aobj))
                            except (AttributeError, TypeError):
                                pass
        for mname, m in mods.items():
            for name, obj in list(vars(m).items()):
                if id(obj) in replace and replace[id(obj)][0] is obj:
                    setattr(m, name, replace[id(obj)][1])
                    self.installed.append((m, name, obj))

    def uninstall(self):
        for owner, name, orig in reversed(self.installed):
            try:
                setattr(owner, name, orig)
            except Exception:
                pass
        self.installed = []
