"""Run cases against the implementation in a worker process under a per-case wall-clock limit."""
import json
import os
import select
import subprocess
import sys
import time


class CallTimeout(Exception):
    pass


class time_limit:
    """in-process limit for one call into the implementation (pure Python loops are interruptible by a signal):
        with time_limit(20): f(x)      raises CallTimeout in the main thread after 20 s"""

    def __init__(self, seconds):
        self.seconds = seconds

    def _raise(self, signum, frame):
        raise CallTimeout('call did not return within %g s' % self.seconds)

    def __enter__(self):
        import signal
        self.old = signal.signal(signal.SIGALRM, self._raise)
        signal.setitimer(signal.ITIMER_REAL, self.seconds)
        return self

    def __exit__(self, *exc):
        import signal
        signal.setitimer(signal.ITIMER_REAL, 0)
        signal.signal(signal.SIGALRM, self.old)
        return False


class Watchdog:
    def __init__(self, limit_s=20.0):
        self.limit = limit_s
        self.p = None

    def _start(self):
        env = dict(os.environ)
        self.p = subprocess.Popen([sys.executable, '-m', 'harness.lib.wd_worker'], stdin=subprocess.PIPE,
                                  stdout=subprocess.PIPE, stderr=subprocess.DEVNULL, text=True, env=env, bufsize=1)

    def run(self, case, limit=None):
        """returns ('ok', result) | ('hang', None) | ('died', None)"""
        if self.p is None or self.p.poll() is not None:
            self._start()
            first = True
        else:
            first = False
        self.p.stdin.write(json.dumps(case) + '\n')
        self.p.stdin.flush()
        lim = (limit or self.limit) + (25.0 if first else 0.0)   # first call pays for importing torch
        t0 = time.time()
        while time.time() - t0 < lim:
            r, _, _ = select.select([self.p.stdout], [], [], 0.25)
            if r:
                line = self.p.stdout.readline()
                if not line:
                    self.close()
                    return 'died', None
                return 'ok', json.loads(line)
            if self.p.poll() is not None:
                self.close()
                return 'died', None
        self.close()
        return 'hang', None

    def close(self):
        if self.p is not None and self.p.poll() is None:
            try:        # let the worker save its statement-coverage data (ignored when it does not answer)
                self.p.stdin.write(json.dumps({'kind': '__quit__'}) + '\n')
                self.p.stdin.flush()
                r, _, _ = select.select([self.p.stdout], [], [], 5.0)
                if r:
                    self.p.stdout.readline()
                    self.p.wait(timeout=5)
            except Exception:
                pass
        if self.p is not None:
            try:
                self.p.kill()
                self.p.wait(timeout=5)
            except Exception:
                pass
            self.p = None
