"""Shared plumbing: model driver client, seeded PRNG, evidence, findings, violation reporting."""
import json
import os
import random
import struct
import subprocess
import sys
import time

VERIF = os.path.dirname(os.path.dirname(os.path.dirname(os.path.abspath(__file__))))
REPO = os.environ.get('ODAK_REPO', '/repo')
LEAN = os.path.join(VERIF, 'lean')
DRV = os.path.join(LEAN, '.lake', 'build', 'bin', 'odakdrv')


def f2b(x):
    """float -> IEEE-754 double bit pattern (decimal int)"""
    return struct.unpack('<Q', struct.pack('<d', float(x)))[0]


def b2f(b):
    return struct.unpack('<d', struct.pack('<Q', int(b)))[0]


class Model:
    """batch client of the compiled Lean model driver"""

    def __init__(self):
        self.calls = 0

    def ask(self, lines):
        if not lines:
            return []
        p = subprocess.run([DRV], input='\n'.join(lines) + '\n', capture_output=True, text=True, timeout=1800)
        if p.returncode != 0:
            raise RuntimeError('odakdrv failed: ' + p.stderr[-2000:])
        out = p.stdout.split('\n')
        if out and out[-1] == '':
            out.pop()
        if len(out) != len(lines):
            raise RuntimeError('odakdrv returned %d lines for %d ops' % (len(out), len(lines)))
        self.calls += len(lines)
        return out

    @staticmethod
    def ints(line):
        return [int(t) for t in line.split()]

    @staticmethod
    def floats(line):
        return [b2f(t) for t in line.split()]


class Ctx:
    """state of one check run"""

    def __init__(self, pid, tier, seed):
        self.pid, self.tier, self.seed = pid, tier, seed
        self.rng = random.Random(seed)
        self.t0 = time.time()
        self.model = Model()
        self.evaluations = 0
        self.nontrivial = set()
        self.samples = []
        self.dist = {}
        self.violations = []     # dict(kind, what, replay(dict), cls(dict))
        self.alarms = []         # broken proof / correspondence / translator without a concrete input yet
        self.notes = []
        self.traces = 0
        self.exhaustive = False
        self.rule = ''
        self.extra = {}

    @property
    def quick(self):
        return self.tier == 'quick'

    def n(self, quick, thorough):
        return quick if self.quick else thorough

    def count(self, key, k=1):
        self.dist[key] = self.dist.get(key, 0) + k

    def case(self, key, nontrivial=True, sample=None):
        """register one evaluated case; `key` identifies distinct cases"""
        self.evaluations += 1
        if nontrivial:
            self.nontrivial.add(key if isinstance(key, (str, int, tuple)) else repr(key))
        if sample is not None and len(self.samples) < 6:
            self.samples.append(sample)

    def violation(self, what, replay, cls=None, kind='monitor'):
        self.violations.append({'kind': kind, 'what': what, 'replay': replay, 'cls': cls or {}})

    def alarm(self, kind, what):
        self.alarms.append({'kind': kind, 'what': what})

    def note(self, s):
        self.notes.append(s)
        print('note: ' + s)


def load_findings():
    with open(os.path.join(VERIF, 'known_findings.json')) as f:
        return json.load(f)


def match_finding(pid, cls, findings):
    """a violation is suppressed only if its class dict satisfies every key of a `known` entry's input_class"""
    for e in findings:
        if e.get('property') != pid or e.get('kind') != 'known':
            continue
        ic = e.get('input_class', {})
        if ic and all(str(cls.get(k)) == str(v) for k, v in ic.items()):
            return e
    return None


def close(a, b, tol, scale=1.0):
    import math
    if isinstance(a, complex) or isinstance(b, complex):
        a, b = complex(a), complex(b)
        return close(a.real, b.real, tol, scale) and close(a.imag, b.imag, tol, scale)
    if math.isnan(a) or math.isnan(b):
        return math.isnan(a) and math.isnan(b)
    if math.isinf(a) or math.isinf(b):
        return a == b
    return abs(a - b) <= tol * max(1.0, scale)
