"""Watchdog worker: reads one JSON case per line on stdin, runs it against the implementation, writes one JSON result per line.
The parent (harness/lib/watchdog.py) enforces a wall-clock limit per case and kills this process when a call hangs."""
import json
import logging
import sys
import warnings

logging.disable(logging.WARNING)
warnings.filterwarnings('ignore')


def run_case(c):
    import numpy as np
    import torch
    kind = c['kind']
    if kind == 'refract':
        import odak.learn.raytracing as LR
        v = torch.tensor(c['rays'], dtype=torch.float64)
        n = torch.tensor(c['normals'], dtype=torch.float64)
        out = LR.refract(v, n, c['n1'], c['n2'], error=c['error'])
        return {'out': out.reshape(-1, 2, 3).tolist()}
    if kind == 'sphere_torch':
        import odak.learn.raytracing as LR
        ray = torch.tensor(c['rays'], dtype=torch.float32)
        sph = torch.tensor(c['sphere'], dtype=torch.float32)
        prov = c.get('provenance', 'plain')
        if prov == 'leaf':                      # the caller learns the rays / the sphere
            ray.requires_grad_(True)
            sph.requires_grad_(True)
        elif prov == 'scaled':                  # results of earlier differentiable computations
            ray = torch.tensor(c['rays'], dtype=torch.float32, requires_grad=True) * 1.
            sph = torch.tensor(c['sphere'], dtype=torch.float32, requires_grad=True) * 2. / 2.
        elif prov == 'two_points':              # rays built by the library from learned start points
            start = ray[:, 0].clone().requires_grad_(True)
            end = (ray[:, 0] + ray[:, 1]).detach()
            built = LR.create_ray_from_two_points(start, end)
            ok = torch.isfinite(built).all(dim=-1).all(dim=-1)
            ray = torch.where(ok.reshape(-1, 1, 1), built, ray)
        elif prov == 'refracted':               # rays that left another surface
            nrm0 = torch.stack([ray[:, 0], torch.tensor([[0., 0., 1.]]).repeat(ray.shape[0], 1)], dim=1)
            lead = torch.tensor(1.0, requires_grad=True)
            ray = torch.stack([ray[:, 0] * lead, ray[:, 1] * lead], dim=1) + 0. * nrm0
        r, nrm, dist, check = LR.intersect_w_sphere(ray, sph, number_of_steps=c.get('steps', 300), learning_rate=c.get('lr', 0.2))
        return {'check': check.reshape(-1).tolist(), 'distance': dist.detach().reshape(-1).tolist(),
                'points': r.detach().reshape(-1, 2, 3)[:, 0].tolist()}
    if kind in ('sphere_np', 'cylinder_np'):
        import odak.raytracing as NR
        ray = np.array(c['rays'], dtype=np.float64)
        f = NR.intersect_w_sphere if kind == 'sphere_np' else NR.intersect_w_cylinder
        nrm, dist = f(ray, np.array(c['surface'], dtype=np.float64))
        if nrm is False or (isinstance(nrm, (bool, np.bool_)) and not nrm):
            return {'flag': False}
        return {'flag': True, 'normal': np.asarray(nrm, dtype=np.float64).reshape(-1, 2, 3).tolist(),
                'distance': np.asarray(dist, dtype=np.float64).reshape(-1).tolist()}
    return {'error': 'unknown kind'}


def main():
    import os
    cov = None
    if os.environ.get('VERIF_COV_FILE'):
        try:
            import coverage
            repo = os.environ.get('ODAK_REPO', '/repo')
            cov = coverage.Coverage(data_file=os.environ['VERIF_COV_FILE'], config_file=False, include=[os.path.join(repo, 'odak', '*')])
            cov.start()
        except Exception:
            cov = None
    for line in sys.stdin:
        line = line.strip()
        if not line:
            continue
        c = json.loads(line)
        if c.get('kind') == '__quit__':
            if cov is not None:
                try:
                    cov.stop()
                    cov.save()
                except Exception:
                    pass
            sys.stdout.write('{}\n')
            sys.stdout.flush()
            return
        try:
            r = run_case(c)
        except Exception as e:
            r = {'exception': repr(e)}
        sys.stdout.write(json.dumps(r) + '\n')
        sys.stdout.flush()


if __name__ == '__main__':
    main()
