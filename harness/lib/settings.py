"""Global settings of torch / NumPy / Python that a user of the library may legitimately have changed before calling it, as context managers, and a
differential helper: what a call returns for explicitly typed arguments must not depend on such a setting (up to the precision the setting itself
changes).  A call that RAISES under a setting is a configuration the library rejects - not judged (several functions of the unchanged tree reject float32
arguments when torch's default dtype is float64, because they build float64 constants); a call that returns something else is reported."""
import contextlib
import warnings
import numpy as np
import torch


@contextlib.contextmanager
def default_dtype_float64():
    old = torch.get_default_dtype()
    torch.set_default_dtype(torch.float64)
    try:
        yield
    finally:
        torch.set_default_dtype(old)


@contextlib.contextmanager
def grad_disabled_globally():
    old = torch.is_grad_enabled()
    torch.set_grad_enabled(False)
    try:
        yield
    finally:
        torch.set_grad_enabled(old)


@contextlib.contextmanager
def autocast_cpu():
    with torch.autocast(device_type='cpu'):
        yield


@contextlib.contextmanager
def numpy_errors_raise():
    with np.errstate(all='raise'):
        yield


@contextlib.contextmanager
def warnings_are_errors():
    with warnings.catch_warnings():
        warnings.simplefilter('error')
        yield


SETTINGS = {
    "torch.set_default_dtype(torch.float64)": default_dtype_float64,
    "torch.set_grad_enabled(False)": grad_disabled_globally,
    "torch.autocast('cpu')": autocast_cpu,
    "np.seterr(all='raise')": numpy_errors_raise,
    "warnings.simplefilter('error')": warnings_are_errors,
}


def to_numpy(r, depth=0):
    """values of a result as float64 / complex128 arrays (lists / tuples element-wise)"""
    if isinstance(r, torch.Tensor):
        t = r.detach()
        if t.dtype == torch.bfloat16 or t.dtype == torch.float16:
            t = t.float()
        a = t.cpu().numpy()
        return a.astype(np.complex128) if np.iscomplexobj(a) else a.astype(np.float64)
    if isinstance(r, np.ndarray):
        return r.astype(np.complex128) if np.iscomplexobj(r) else (r.astype(np.float64) if r.dtype.kind in 'fiub' else r)
    if isinstance(r, (list, tuple)) and depth < 3:
        return [to_numpy(e, depth + 1) for e in r]
    if isinstance(r, (int, float, complex, np.number)) and not isinstance(r, bool):
        return np.asarray(r, dtype=np.complex128 if isinstance(r, complex) else np.float64)
    return r


def values_differ(a, b, rtol, atol):
    """first difference between two to_numpy() results, or None"""
    if isinstance(a, list) or isinstance(b, list):
        if not (isinstance(a, list) and isinstance(b, list)) or len(a) != len(b):
            return 'structure differs'
        for i, (x, y) in enumerate(zip(a, b)):
            d = values_differ(x, y, rtol, atol)
            if d:
                return 'item %d: %s' % (i, d)
        return None
    if isinstance(a, np.ndarray) and isinstance(b, np.ndarray):
        if a.shape != b.shape:
            return 'shape %s vs %s' % (a.shape, b.shape)
        if a.dtype.kind not in 'fc' or b.dtype.kind not in 'fc':
            return None if np.array_equal(a, b) else 'values differ'
        na, nb = np.isnan(a), np.isnan(b)
        if not np.array_equal(na, nb):
            return 'NaN at %d places vs %d places' % (int(na.sum()), int(nb.sum()))
        fa, fb = np.nan_to_num(a, nan=0.0, posinf=1e300, neginf=-1e300), np.nan_to_num(b, nan=0.0, posinf=1e300, neginf=-1e300)
        scale = float(np.max(np.abs(fa))) if fa.size else 0.0
        dmax = float(np.max(np.abs(fa - fb))) if fa.size else 0.0
        if dmax > atol + rtol * scale:
            return 'max difference %.3g (scale %.3g)' % (dmax, scale)
        return None
    return None


def differential(ctx, name, call, rtol=2e-3, atol=1e-6, which=None, cls=None, rec=None, must_return=False):
    """call() under default settings and under each setting of `which` (default: dtype float64, grad disabled); reports value differences.
    must_return: the entry is one that the unchanged library serves under these settings (checked when the entry was added), so an exception is reported too"""
    try:
        base = to_numpy(call())
    except Exception:
        return
    for sname in (which or list(SETTINGS)[:2]):
        ctx.count('global_setting/' + sname)
        ctx.case(('global_setting', name, sname), True)
        try:
            with SETTINGS[sname]():
                got = to_numpy(call())
        except Exception as e:
            ctx.count('global_setting/rejected under ' + sname)
            if must_return:
                ctx.violation('%s: with %s in force the call raises %r for explicitly typed arguments it serves under the default settings'
                              % (name, sname, e), dict(rec or {}, entry=name, setting=sname), dict(cls or {}, what='global_setting_raises', setting=sname, entry=name))
            continue
        d = values_differ(base, got, rtol, atol)
        if d:
            ctx.violation('%s: with %s in force the call returns something else than under the default settings for the same explicitly typed arguments (%s)'
                          % (name, sname, d), dict(rec or {}, entry=name, setting=sname), dict(cls or {}, what='global_setting', setting=sname, entry=name))
