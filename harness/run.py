"""Entry point of every check:  python -m harness.run C08 --tier quick [--replay file]

Steps (DESIGN.md section 1.4): translate -> lake build (model driver, property theorems) -> axiom audit
-> corpus replay + correspondence + conclusion monitors (harness/props/Cxx.py) -> findings matching
-> evidence + exit code.
"""
import argparse
import fcntl
import importlib
import json
import os
import re
import subprocess
import sys
import time
import traceback
import shutil

from .lib import core
from .lib.core import VERIF, LEAN, REPO

FORBIDDEN = re.compile(r'\b(sorry|admit|native_decide|bv_decide|implemented_by|unsafe)\b|^axiom |maxHeartbeats 0', re.M)
STD_AXIOMS = {'propext', 'Classical.choice', 'Quot.sound'}


def sh(cmd, cwd=None, timeout=3600):
    p = subprocess.run(cmd, cwd=cwd, capture_output=True, text=True, timeout=timeout)
    return p.returncode, p.stdout + p.stderr


def strip_comments(src):
    src = re.sub(r'/-.*?-/', '', src, flags=re.S)
    return re.sub(r'--.*', '', src)


def translate(ctx):
    """regenerate Generated/*.lean from /repo.  A part the translators cannot extract keeps its present (committed / last accepted)
    model; that is recorded as a note, not an alarm: the tie of that part to the source is then this run's correspondence check."""
    from .translate import generate_all
    errors = generate_all.run()
    for e in errors:
        ctx.note('translator could not regenerate %s -> the present model of that part is kept and tied to the source by the '
                 'correspondence check of this run' % e)
    ctx.extra['translator_errors'] = errors
    return errors


def lake_build(target):
    return sh(['lake', 'build', target], cwd=LEAN)


def theorem_names(path):
    with open(path) as f:
        src = strip_comments(f.read())
    return re.findall(r'^theorem\s+([A-Za-z0-9_.\']+)', src, flags=re.M)


def transitive_local_imports(mod, seen=None):
    seen = seen if seen is not None else set()
    if mod in seen:
        return seen
    path = os.path.join(LEAN, mod.replace('.', '/') + '.lean')
    if not os.path.exists(path):
        return seen
    seen.add(mod)
    with open(path) as f:
        for m in re.findall(r'^import\s+(Odak[A-Za-z0-9_.]*)', f.read(), flags=re.M):
            transitive_local_imports(m, seen)
    return seen


def audit(ctx, pid):
    """build the property's theorem file, list theorems, check axioms and forbidden tokens.
    returns dict(obligations, discharged, axioms, theorems, build_ok)"""
    res = {'obligations': 0, 'discharged': 0, 'axioms': {}, 'theorems': [], 'build_ok': False, 'refutations': []}
    mod = 'OdakProofs.Props.' + pid
    path = os.path.join(LEAN, 'OdakProofs', 'Props', pid + '.lean')
    if not os.path.exists(path):
        ctx.alarm('proof', 'no theorem file for ' + pid)
        return res
    names = theorem_names(path)
    res['theorems'] = names
    res['obligations'] = len(names)
    rc, out = lake_build(mod)
    if rc != 0:
        errs = [l for l in out.split('\n') if 'error' in l][:6]
        ctx.alarm('proof', 'lake build %s failed: %s' % (mod, ' | '.join(errs)))
        return res
    res['build_ok'] = True
    # forbidden tokens in the property file and every local module it imports
    for m in sorted(transitive_local_imports(mod)):
        with open(os.path.join(LEAN, m.replace('.', '/') + '.lean')) as f:
            hit = FORBIDDEN.search(strip_comments(f.read()))
        if hit:
            ctx.alarm('proof', 'forbidden token %r in %s' % (hit.group(0), m))
    # axioms
    find_mod = 'OdakProofs.Findings.' + pid
    find_path = os.path.join(LEAN, 'OdakProofs', 'Findings', pid + '.lean')
    imports = ['import ' + mod]
    fnames = []
    if os.path.exists(find_path):
        rc, out = lake_build(find_mod)
        if rc == 0:
            imports.append('import ' + find_mod)
            fnames = theorem_names(find_path)
            res['refutations'] = fnames
        else:
            ctx.note('refutation file %s no longer builds (expected after a repair of the finding)' % find_mod)
    tmp = os.path.join(LEAN, '.lake', 'audit_%s.lean' % pid)
    with open(tmp, 'w') as f:
        f.write('\n'.join(imports) + '\n')
        for nm in names + fnames:
            f.write('#print axioms Odak.%s\n' % nm)
    rc, out = sh(['lake', 'env', 'lean', tmp], cwd=LEAN)
    cur = None
    axioms = {}
    for m in re.finditer(r"'Odak\.([^']+)' (does not depend on any axioms|depends on axioms: \[([^\]]*)\])", out):
        axioms[m.group(1)] = [] if m.group(3) is None else [a.strip() for a in m.group(3).replace('\n', ' ').split(',')]
    res['axioms'] = axioms
    for nm in names:
        ax = axioms.get(nm)
        if ax is None:
            ctx.alarm('proof', 'axiom audit did not report theorem ' + nm)
        elif not set(ax) <= STD_AXIOMS:
            ctx.alarm('proof', 'theorem %s depends on non-standard axioms %s' % (nm, ax))
        else:
            res['discharged'] += 1
    return res


def leanchecker(ctx, pid):
    rc, out = sh(['lake', 'env', 'leanchecker', 'OdakProofs.Props.' + pid], cwd=LEAN, timeout=3000)
    if rc != 0:
        ctx.alarm('proof', 'leanchecker rejected OdakProofs.Props.%s: %s' % (pid, out[-400:]))
    return rc == 0


def anchored_files(pid):
    try:
        with open(os.path.join(VERIF, 'properties.jsonl')) as f:
            for line in f:
                pr = json.loads(line)
                if pr.get('id') == pid:
                    return [x for x in pr.get('anchors', {}).get('files', []) if '*' not in x]
    except (OSError, ValueError):
        pass
    return []


class ImplCoverage:
    """which statements of the anchored source files did the harness actually execute (in-process calls only)?  Reported in the
    evidence so that 'what the correspondence covered' is measured on the implementation side too, function by function."""

    def __init__(self, pid):
        self.files = anchored_files(pid)
        self.cov = None
        if os.environ.get('VERIF_COV', '1') == '0' or not self.files:
            return
        try:
            import coverage
            self.cov = coverage.Coverage(data_file=None, config_file=False, include=[os.path.join(REPO, 'odak', '*')])
            self.cov.start()
            # calls made in the watchdog worker process are traced there and merged in finish()
            self.worker_file = os.path.join(LEAN, '.lake', 'cov_worker_%s_%d' % (pid, os.getpid()))
            os.environ['VERIF_COV_FILE'] = self.worker_file
        except Exception:
            self.cov = None

    def finish(self):
        if self.cov is None:
            return None
        import ast as _ast
        import warnings as _w
        try:
            with _w.catch_warnings():
                _w.simplefilter('ignore')
                self.cov.stop()
                os.environ.pop('VERIF_COV_FILE', None)
                wf = getattr(self, 'worker_file', None)
                if wf and os.path.exists(wf):
                    try:
                        self.cov.combine(data_paths=[wf], strict=False, keep=False)
                    except Exception:
                        pass
                    if os.path.exists(wf):
                        os.remove(wf)
            out = {}
            for rel in self.files:
                path = os.path.join(REPO, rel)
                if not os.path.exists(path):
                    continue
                try:
                    with _w.catch_warnings():
                        _w.simplefilter('ignore')
                        _, stmts, _, missing, _ = self.cov.analysis2(path)
                except Exception:
                    continue
                stmts, missing = set(stmts), set(missing)
                with open(path) as f:
                    tree = _ast.parse(f.read())
                fn_hit, fn_miss = [], []

                def visit(node, prefix):
                    for ch in _ast.iter_child_nodes(node):
                        if isinstance(ch, (_ast.FunctionDef, _ast.AsyncFunctionDef)):
                            body = set(range(ch.body[0].lineno, ch.end_lineno + 1)) & stmts
                            (fn_hit if body - missing else fn_miss).append(prefix + ch.name)
                            visit(ch, prefix + ch.name + '.')
                        elif isinstance(ch, _ast.ClassDef):
                            visit(ch, prefix + ch.name + '.')
                visit(tree, '')
                out[rel] = {'statements': len(stmts), 'executed': len(stmts - missing),
                            'functions_exercised': len(fn_hit), 'functions_total': len(fn_hit) + len(fn_miss),
                            'functions_not_exercised': sorted(fn_miss)[:60]}
            return out
        except Exception as e:
            return {'error': repr(e)}


def main():
    ap = argparse.ArgumentParser()
    ap.add_argument('pid')
    ap.add_argument('--tier', default=os.environ.get('VERIF_TIER', 'quick'))
    ap.add_argument('--replay', default=None)
    a = ap.parse_args()
    tier = a.tier if a.tier in ('quick', 'thorough') else 'quick'
    seed = int(os.environ.get('VERIF_SEED', '0') or 0)
    pid = a.pid
    # whole-check wall-clock limit (a change to the implementation may make a call that the harness makes in-process never return): exit 2, which is
    # neither "held" nor a violation.  VERIF_LIMIT_S overrides.
    limit = float(os.environ.get('VERIF_LIMIT_S', '') or (2400 if tier == 'quick' else 14400))

    def out_of_time():
        sys.stdout.write('TIMEOUT property=%s: the %s check did not finish within %d s (no verdict)\n' % (pid, tier, limit))
        sys.stdout.flush()
        os._exit(2)
    import threading
    tm = threading.Timer(limit, out_of_time)
    tm.daemon = True
    tm.start()
    ctx = core.Ctx(pid, tier, seed)
    os.makedirs(os.path.join(VERIF, 'evidence'), exist_ok=True)
    os.makedirs(os.path.join(VERIF, 'replays'), exist_ok=True)
    os.makedirs(os.path.join(LEAN, '.lake'), exist_ok=True)
    sys.path.insert(0, REPO)
    mod = importlib.import_module('harness.props.' + pid)

    if a.replay:
        with open(a.replay) as f:
            rep = json.load(f)
        ok = mod.replay(ctx, rep)
        print('replay %s: %s' % (a.replay, 'property holds on this input' if ok else 'property FAILS on this input'))
        return 0 if ok else 1

    from .translate import generate_all
    prev_dir = os.path.join(LEAN, '.lake', 'accepted_generated')

    def build_and_audit(c):
        rc, out = lake_build('odakdrv')
        ok = rc == 0
        if not ok:
            c.alarm('model', 'model driver no longer builds against the regenerated files: ' +
                    ' | '.join([l for l in out.split('\n') if 'error' in l][:4]))
        au = audit(c, pid)
        if tier == 'thorough' and au['build_ok']:
            au['leanchecker'] = leanchecker(c, pid)
        c.drv_ok = ok
        return au

    def run_harness(c):
        ic = ImplCoverage(pid)
        try:
            setting = os.environ.get('VERIF_SETTINGS')          # experiment: the whole harness under a global setting a user may have chosen
            if setting == 'float64':
                import torch
                torch.set_default_dtype(torch.float64)
                mod.run(c)
            elif setting == 'autocast':
                import torch
                with torch.autocast(device_type='cpu'):
                    mod.run(c)
            elif setting == 'nograd':
                import torch
                torch.set_grad_enabled(False)
                mod.run(c)
            else:
                mod.run(c)
        except Exception:
            tb = traceback.format_exc()
            c.alarm('harness', 'harness error: ' + tb[-1500:])
        finally:
            res = ic.finish()
            if res is not None:
                c.extra['implementation_statement_coverage_of_anchored_files'] = res

    def unknown_violations(c):
        findings = core.load_findings()
        return [v for v in c.violations if core.match_finding(pid, v['cls'], findings) is None]

    lock = open(os.path.join(LEAN, '.lake', 'check.lock'), 'w')
    fcntl.flock(lock, fcntl.LOCK_EX)
    try:
        # a run that was killed between "regenerate" and "accept" left the accepted model aside: put it back first
        if os.path.isdir(prev_dir):
            snap0 = {}
            for n in os.listdir(prev_dir):
                with open(os.path.join(prev_dir, n)) as f:
                    snap0[n] = f.read()
            generate_all.restore(snap0)
            shutil.rmtree(prev_dir)
        accepted = generate_all.snapshot()
        translate(ctx)
        regenerated = generate_all.snapshot()
        changed = sorted(n for n in set(accepted) | set(regenerated) if accepted.get(n) != regenerated.get(n))
        if changed:
            os.makedirs(prev_dir)
            for n, t in accepted.items():
                with open(os.path.join(prev_dir, n), 'w') as f:
                    f.write(t)
        aud = build_and_audit(ctx)
    finally:
        fcntl.flock(lock, fcntl.LOCK_UN)
    ctx.extra['model_tie'] = 'regenerated from the source by the translators on this run' + \
        (' (changed against the accepted model: %s)' % ', '.join(changed) if changed else ' (identical to the accepted model)')
    run_harness(ctx)

    if changed:
        if not ctx.alarms and not unknown_violations(ctx):
            shutil.rmtree(prev_dir, ignore_errors=True)          # the regenerated model is the accepted model from now on
        elif unknown_violations(ctx):
            fcntl.flock(lock, fcntl.LOCK_EX)                    # a concrete failing input: report it; the accepted model stays
            try:
                generate_all.restore(accepted)
                shutil.rmtree(prev_dir, ignore_errors=True)
            finally:
                fcntl.flock(lock, fcntl.LOCK_UN)
        else:
            # The regenerated model broke a proof or disagrees with the implementation, and no failing input was found.  That can be
            # the translator (a rewrite it mis-reads), not the code: decide the property with the ACCEPTED model instead, whose
            # theorems are known to build, tied to the current source by the correspondence check alone.
            first = ctx
            ctx = core.Ctx(pid, tier, seed)
            fcntl.flock(lock, fcntl.LOCK_EX)
            try:
                generate_all.restore(accepted)
                shutil.rmtree(prev_dir, ignore_errors=True)
                aud = build_and_audit(ctx)
            finally:
                fcntl.flock(lock, fcntl.LOCK_UN)
            ctx.extra['translator_errors'] = first.extra.get('translator_errors', [])
            ctx.extra['model_tie'] = ('accepted (committed) model + correspondence check: the model regenerated from the current source '
                                      '(%s changed) did not pass [%s]' % (', '.join(changed), ' | '.join(x['what'][:200] for x in first.alarms[:4])))
            ctx.note('regenerated model rejected (%d obligations broken, no failing input found); property decided with the accepted model '
                     'tied by correspondence' % len(first.alarms))
            ctx.notes += first.notes
            run_harness(ctx)
            if ctx.alarms and not unknown_violations(ctx):
                ctx.alarms = first.alarms + ctx.alarms             # nothing validates: report everything that is broken

    return finish(ctx, aud, mod)


def finish(ctx, aud, mod):
    pid = ctx.pid
    findings = core.load_findings()
    unknown, known_hit = [], {}
    for v in ctx.violations:
        e = core.match_finding(pid, v['cls'], findings)
        if e is not None:
            known_hit.setdefault(e['id'], (e, v))
        else:
            unknown.append(v)
    # an alarm (broken proof / correspondence / translator) with no concrete failing input
    status = 0
    lines = []
    for fid, (e, v) in sorted(known_hit.items()):
        lines.append('KNOWN-FINDING: property=%s %s [%s]' % (pid, e['what'], fid))
    # known entries whose witness no longer reproduces are only noted (the defect may have been repaired)
    for e in findings:
        if e.get('property') == pid and e.get('kind') == 'known' and e['id'] not in known_hit:
            ctx.note('listed finding %s was not reproduced by this run' % e['id'])
    if unknown:
        status = 1
        seen = set()
        for i, v in enumerate(unknown):
            key = json.dumps(v['cls'], sort_keys=True, default=str) if v['cls'] else v['what']
            if key in seen:
                continue
            seen.add(key)
            if len(seen) > 5:
                break
            path = os.path.join(VERIF, 'replays', '%s_%s_%d.json' % (pid, ctx.tier, len(seen)))
            with open(path, 'w') as f:
                json.dump({'property': pid, 'what': v['what'], 'kind': v['kind'], 'class': v['cls'],
                           'replay': v['replay'], 'seed': ctx.seed,
                           'broken_obligations': [x['what'] for x in ctx.alarms]}, f, indent=1, default=str)
            lines.append('VIOLATION property=%s replay=%s' % (pid, path))
            print('violation detail: ' + v['what'])
    elif ctx.alarms:
        status = 1
        path = os.path.join(VERIF, 'replays', '%s_%s_unproved.json' % (pid, ctx.tier))
        with open(path, 'w') as f:
            json.dump({'property': pid, 'no_failing_input_found': True,
                       'broken_obligations': ctx.alarms,
                       'searched': ctx.rule, 'evaluations': ctx.evaluations, 'seed': ctx.seed}, f, indent=1)
        for x in ctx.alarms:
            print('alarm: [%s] %s' % (x['kind'], x['what']))
        lines.append('VIOLATION property=%s replay=%s no-failing-input-found' % (pid, path))
    if ctx.alarms and unknown:
        for x in ctx.alarms:
            print('alarm: [%s] %s' % (x['kind'], x['what']))

    wall = time.time() - ctx.t0
    cov = {
        'obligations': max(aud['obligations'], 0),
        'discharged': aud['discharged'],
        'checker_cmd': 'cd /verif/lean && lake build OdakProofs.Props.%s && lake env lean .lake/audit_%s.lean  (#print axioms)%s'
                       % (pid, pid, '; lake env leanchecker OdakProofs.Props.%s' % pid if ctx.tier == 'thorough' else ''),
        'trusted_base': getattr(mod, 'TRUSTED', []) + [
            'Lean 4.33 kernel; axioms used per theorem: ' + json.dumps(aud['axioms'], sort_keys=True),
            'exact-real abstraction: theorems are about the model at alpha = R; floats are executed and searched, not verified',
            'translator (harness/translate) and correspondence/monitor harness (harness/props/%s.py)' % pid],
        'theorems': aud['theorems'],
        'refutation_theorems': aud.get('refutations', []),
        'evaluations': ctx.evaluations,
        'distinct_nontrivial': len(ctx.nontrivial),
        'rule': ctx.rule,
        'samples': ctx.samples[:6] if ctx.samples else ['(no correspondence cases ran)'],
        'input_distribution': ctx.dist,
        'traces_validated_against_impl': ctx.traces,
        'exhaustive': ctx.exhaustive,
        'alarms': ctx.alarms,
        'known_findings_reproduced': sorted(known_hit.keys()),
        'notes': ctx.notes,
    }
    if 'leanchecker' in aud:
        cov['leanchecker_ok'] = aud['leanchecker']
    cov.update(ctx.extra)
    ev = {'property_id': pid, 'tier': ctx.tier, 'seed': ctx.seed, 'level': 'proof', 'coverage': cov,
          'assumptions': getattr(mod, 'ASSUMPTIONS', []), 'wall_s': round(wall, 2), 'violations': len(unknown)}
    with open(os.path.join(VERIF, 'evidence', pid + '.json'), 'w') as f:
        json.dump(ev, f, indent=1, default=str)
    for l in lines:
        print(l)
    print('%s %s: %d theorems (%d discharged), %d cases (%d distinct non-trivial), %.1fs, exit %d'
          % (pid, ctx.tier, aud['obligations'], aud['discharged'], ctx.evaluations, len(ctx.nontrivial), wall, status))
    return status


if __name__ == '__main__':
    sys.exit(main())
