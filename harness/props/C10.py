"""C10 – ray / plane / triangle intersection.  Correspondence of get_triangle_normal, intersect_w_surface,
intersect_w_triangle(_batch) (torch) and the NumPy twins with the Lean model; monitors evaluate the geometric
conclusions on the implementation's own outputs.
Also: intersect_w_circle of both APIs on tilted circles built by define_circle (and on exactly axis-aligned hand-built
ones), planar_mesh.mirror (hit points on the mesh triangles, law of reflection, misses not returned), and
intersect_w_triangle_batch with several triangles against the single ray-triangle pairs."""
import logging
import math
import warnings
import numpy as np
import torch
from ..lib.core import f2b, b2f

logging.disable(logging.WARNING)
warnings.filterwarnings('ignore')

TRUSTED = ['torch.linalg.cross / np.cross / mm / bmm are the vector and matrix products',
           'batched calls are compared pair by pair with the single-pair model (batching is not modelled)',
           'per-pair formulas of both APIs are regenerated from the source (translate/geomcore.py, geometry.py -> Generated/GeometryGen.lean; layout operations '
           'such as [:, 0], unsqueeze, repeat are treated as broadcasting only) and proved equal to the model (Lemmas/GenGeometry.lean)']
ASSUMPTIONS = ['torch geometry is float32: tolerance 5e-4 x coordinate scale; inside/outside compared away from edges (margin 1e-3)']


def fl(xs):
    return ' '.join(str(f2b(float(x))) for x in xs)


def triangles(rng):
    """orientation classes"""
    cls = rng.choice(['random', 'random', 'axis', 'sumzero', 'negsum', 'small', 'big', 'tilted'])
    if cls == 'axis':
        z = rng.uniform(-3, 3)
        t = [[-1, -1, z], [1, -1, z], [0, 1.5, z]]
        k = rng.randrange(3)
        t = [p[k:] + p[:k] for p in t]
    elif cls == 'sumzero':
        s = rng.uniform(0.5, 3)
        t = [[0, 0, 0], [s, s, 0], [0, 0, s]]
    elif cls == 'negsum':
        t = [[0, 0, 0], [0, 0, 1.0], [1.0, 1.0, 0.3]]
    elif cls == 'small':
        t = [[rng.uniform(-1, 1) * 1e-2 for _ in range(3)] for _ in range(3)]
    elif cls == 'big':
        t = [[rng.uniform(-1, 1) * 50 for _ in range(3)] for _ in range(3)]
    else:
        t = [[rng.uniform(-3, 3) for _ in range(3)] for _ in range(3)]
    t = np.array(t, dtype=np.float64)
    if cls in ('sumzero', 'negsum') and rng.random() < 0.5:
        t = t + np.array([rng.uniform(-2, 2) for _ in range(3)])
    return cls, t


def rays_for(rng, tri, k):
    """rays aimed at points inside / outside the triangle's plane, grazing, parallel, pointing away"""
    p0, p1, p2 = tri
    n = np.cross(p0 - p1, p2 - p1)
    n = n / np.linalg.norm(n)
    out = []
    for _ in range(k):
        kind = rng.choice(['inside', 'inside', 'outside', 'outside', 'behind', 'parallel', 'grazing'])
        if kind == 'inside':
            s, t = rng.uniform(0.05, 0.9), rng.uniform(0.05, 0.9)
            if s + t > 0.95:
                s, t = 0.45 * s, 0.45 * t
        else:
            s, t = rng.uniform(-1.5, 2.5), rng.uniform(-1.5, 2.5)
            if kind == 'outside' and (s > -0.05 and t > -0.05 and s + t < 1.05):
                s = -0.3 - abs(s)
        target = p0 + s * (p2 - p0) + t * (p1 - p0)
        scale = max(1e-3, float(np.max(np.abs(tri))))
        o = target + n * rng.choice([-1, 1]) * rng.uniform(0.5, 3) * scale + np.array([rng.uniform(-1, 1) for _ in range(3)]) * scale
        d = target - o
        if kind == 'behind':
            d = -d
        if kind == 'parallel':
            e = p1 - p0
            d = e / np.linalg.norm(e)
        if kind == 'grazing':
            e = (p1 - p0) / np.linalg.norm(p1 - p0)
            d = e + 1e-3 * n * rng.choice([-1, 1])
        d = d / np.linalg.norm(d)
        out.append((kind, o, d, s, t))
    return out


def run(ctx):
    import odak.learn.raytracing as LR
    import odak.raytracing as NR
    rng = ctx.rng
    ctx.rule = ('triangles from orientation classes (random, axis-aligned, normal-component-sum zero, negative sum, 1e-2 and 50x '
                'scale) x rays (inside, outside, behind the origin, parallel, grazing), batch sizes 1-5, both APIs; non-trivial = '
                'non-parallel ray; distinct by (class, ray kind, coordinates)')
    exact_parallel_cases(ctx)
    ctx.rule += ('; circles: tilt classes (none, one/two/three axes, multiples of 90 deg, exactly axis-aligned) x radii x rays aimed at '
                 'rho = 0, inside, rim +-2 %, outside, far, behind the origin, exactly parallel, ray shapes [2x3], [1x2x3], [mx2x3], '
                 'float32/float64; planar_mesh.mirror: 2..4 nodes per side, flat / offset / rough heights, tilts, rays that hit, miss '
                 'the rectangle, run parallel, point away; batch: 1-3 triangles x 1-3 rays')
    __import__('harness.props.gengeom', fromlist=['x']).check_generated_geometry(ctx, 'C10')   # regenerated definitions vs /repo
    __import__('harness.props.gengeombatch', fromlist=['x']).check_generated_batches(ctx)      # regenerated BATCHED definitions vs /repo
    NT = ctx.n(60, 600)
    lines, cases = [], []
    for _ in range(NT):
        cls, tri = triangles(rng)
        rs = rays_for(rng, tri, rng.choice([1, 2, 3, 5]))
        cases.append((cls, tri, rs))
        lines.append('tri_normal %s' % fl(tri.reshape(-1)))
        for (kind, o, d, s, t) in rs:
            lines.append('intersect 1 %s %s %s' % (fl(o), fl(d), fl(tri.reshape(-1))))
            lines.append('intersect 0 %s %s %s' % (fl(o), fl(d), fl(tri.reshape(-1))))
    outs = iter(ctx.model.ask(lines)) if ctx.drv_ok else None

    def nxt():
        return [b2f(x) for x in next(outs).split()] if outs is not None else None

    def corr(tag, got, want, tol, rec):
        if want is None:
            return
        got = np.asarray(got, dtype=np.float64).reshape(-1)
        want = np.asarray(want, dtype=np.float64)
        fin = np.isfinite(want)
        if got.shape != want.shape or not np.array_equal(np.isfinite(got), fin) or \
                not np.all(np.abs(got[fin] - want[fin]) <= tol):
            ctx.alarm('correspondence', '%s: implementation %s vs model %s (%s)' % (tag, got.tolist(), want.tolist(), rec))

    for cls, tri, rs in cases:
        scale = max(1e-3, float(np.max(np.abs(tri))))
        tt = torch.tensor(tri, dtype=torch.float32)
        rec0 = {'class': cls, 'triangle': tri.tolist()}
        # ---- triangle normal
        nt = LR.get_triangle_normal(tt).numpy().astype(np.float64)
        nn = NR.get_triangle_normal(tri.copy())
        m = nxt()
        corr('torch get_triangle_normal', nt, m, 5e-4 * max(1, scale), rec0)
        corr('numpy get_triangle_normal', nn, m, 1e-9 * max(1, scale), rec0)
        ctx.count('triangle/' + cls)
        e1, e2 = tri[0] - tri[1], tri[2] - tri[1]
        for api, nv, tol in (('torch', nt[1], 2e-3), ('numpy', nn[1], 1e-9)):
            ok = np.all(np.isfinite(nv)) and np.linalg.norm(nv) > 1e-6 and \
                abs(np.dot(nv, e1)) <= tol * np.linalg.norm(nv) * np.linalg.norm(e1) and \
                abs(np.dot(nv, e2)) <= tol * np.linalg.norm(nv) * np.linalg.norm(e2)
            if not ok:
                ctx.violation('%s get_triangle_normal is not a finite non-zero vector perpendicular to the triangle: %s for %s'
                              % (api, nv.tolist(), tri.tolist()), dict(rec0, api=api),
                              {'api': api, 'fn': 'get_triangle_normal', 'what': 'normal', 'class': cls})
        # ---- intersections: batched torch call, then per pair
        rays_t = torch.tensor(np.array([[o, d] for (_, o, d, _, _) in rs]), dtype=torch.float32)
        try:
            normal_b, dist_b, _, _, check_b = LR.intersect_w_triangle(rays_t, tt)
            normal_bb, dist_bb, _, _, check_bb = LR.intersect_w_triangle_batch(rays_t, tt.unsqueeze(0))
        except Exception as e:
            ctx.violation('torch intersect_w_triangle raised %r' % e, rec0, {'api': 'torch', 'fn': 'intersect_w_triangle', 'what': 'raises'})
            for _ in rs:
                nxt(); nxt()
            continue
        normal_b = normal_b.numpy().astype(np.float64).reshape(-1, 2, 3)
        dist_b = dist_b.numpy().astype(np.float64).reshape(-1)
        check_b = check_b.numpy().reshape(-1)
        normal_bb = normal_bb.numpy().astype(np.float64).reshape(-1, 2, 3)
        check_bb = check_bb.numpy().reshape(-1)
        for i, (kind, o, d, s, t) in enumerate(rs):
            rec = dict(rec0, ray=[o.tolist(), d.tolist()], kind=kind)
            ctx.case((cls, kind, tuple(np.round(o, 6))), kind != 'parallel', rec)
            ctx.count('ray/' + kind)
            mt, mn = nxt(), nxt()
            # single-pair torch call
            n1, d1, _, _, c1 = LR.intersect_w_triangle(rays_t[i], tt)
            n1 = n1.numpy().astype(np.float64).reshape(2, 3)
            dabs = abs(float(d1.reshape(-1)[0])) if np.isfinite(float(d1.reshape(-1)[0])) else 0.0
            # float32: error of o + t d grows with |t| and with the conditioning 1/(n.d) of grazing rays
            tol = 5e-4 * max(1, scale, dabs) * (100 if kind == 'grazing' else 1)
            inside_margin = min(s, t, 1 - s - t)
            edge = abs(inside_margin) < 2e-3 or kind in ('parallel', 'grazing')
            if kind != 'parallel':
                if mt is not None:
                    corr('torch intersect_w_triangle', np.concatenate([n1[0], n1[1], [float(d1.reshape(-1)[0])]]), mt[:7], tol, rec)
                    if not edge and bool(c1.reshape(-1)[0]) != (mt[7] == 1.0):
                        ctx.alarm('correspondence', 'torch hit flag %s vs model %s for %s' % (bool(c1.reshape(-1)[0]), mt[7], rec))
                # batch == per pair
                if not (np.allclose(normal_b[i], n1, atol=tol, equal_nan=True) and np.allclose(normal_bb[i], n1, atol=tol, equal_nan=True)
                        and bool(check_b[i]) == bool(c1.reshape(-1)[0]) == bool(check_bb[i])):
                    ctx.violation('batched intersection differs from the single ray-triangle pair', rec,
                                  {'api': 'torch', 'fn': 'intersect_w_triangle_batch', 'what': 'batch_vs_pair'})
                hit, nv, dist = n1[0], n1[1], float(d1.reshape(-1)[0])
                if np.all(np.isfinite(hit)):
                    if np.linalg.norm(hit - (o + dist * d)) > tol * 4:
                        ctx.violation('torch hit point is not on the ray at the reported distance', rec,
                                      {'api': 'torch', 'fn': 'intersect_w_surface', 'what': 'hit_on_ray', 'kind': kind})
                    if abs(np.dot(nv, hit - tri[0])) > tol * 4 * max(1e-12, np.linalg.norm(nv)) * (1 + abs(dist)):
                        ctx.violation('torch hit point is not on the triangle plane', rec,
                                      {'api': 'torch', 'fn': 'intersect_w_surface', 'what': 'hit_on_plane', 'kind': kind})
                    if not edge and kind != 'behind' and bool(c1.reshape(-1)[0]) != (inside_margin > 0):
                        ctx.violation('torch hit flag %s but the point is %s the triangle (s=%.3f t=%.3f)'
                                      % (bool(c1.reshape(-1)[0]), 'inside' if inside_margin > 0 else 'outside', s, t), rec,
                                      {'api': 'torch', 'fn': 'is_it_on_triangle', 'what': 'flag', 'kind': kind})
                elif kind != 'grazing':
                    ctx.violation('torch intersection of a non-parallel ray is not finite', rec,
                                  {'api': 'torch', 'fn': 'intersect_w_surface', 'what': 'finite', 'kind': kind, 'class': cls})
            else:
                # parallel rays must be flagged (non-finite coordinates), not given coordinates.  A direction built orthogonal to a GENERIC
                # normal is parallel only up to float32 rounding (|n.d| ~ 1e-7), so a far-away hit (> 1e3 x the scene scale) is a correct
                # answer for the ray that was actually passed; exactly parallel rays are the subject of exact_parallel_cases()
                if np.all(np.isfinite(n1[0])) and np.linalg.norm(n1[0]) < 1e3 * scale:
                    ctx.violation('torch gives finite coordinates %s to a ray parallel to the plane' % n1[0].tolist(), rec,
                                  {'api': 'torch', 'fn': 'intersect_w_surface', 'what': 'parallel', 'kind': kind})
            # ---- NumPy
            try:
                nn1, nd1 = NR.intersect_w_surface(np.array([o, d]), tri.copy())
            except Exception as e:
                ctx.violation('numpy intersect_w_surface raised %r' % e, rec, {'api': 'numpy', 'fn': 'intersect_w_surface', 'what': 'raises'})
                continue
            nn1 = np.asarray(nn1, dtype=np.float64).reshape(2, 3)
            nd = float(np.asarray(nd1).reshape(-1)[0])
            if kind != 'parallel':
                ntol = 1e-8 * max(1, scale, abs(nd) if np.isfinite(nd) else 1) * (1e3 if kind == 'grazing' else 1)
                if mn is not None:
                    corr('numpy intersect_w_surface', np.concatenate([nn1[0], nn1[1], [nd]]), mn[:7], ntol, rec)
                hit, nv = nn1[0], nn1[1]
                if np.linalg.norm(nv) < 1e-9 or abs(np.dot(nv, e1)) > 1e-7 * np.linalg.norm(e1) or abs(np.dot(nv, e2)) > 1e-7 * np.linalg.norm(e2):
                    ctx.violation('numpy intersect_w_surface returns normal %s (not a non-zero vector perpendicular to the plane)' % nv.tolist(),
                                  rec, {'api': 'numpy', 'fn': 'intersect_w_surface', 'what': 'normal'})
                if np.linalg.norm(hit - (o + nd * d)) > ntol * 10 * (1 + abs(nd)):
                    tneg = float(np.dot(np.cross(tri[0] - tri[1], tri[2] - tri[1]), tri.mean(0) - o) /
                                 np.dot(np.cross(tri[0] - tri[1], tri[2] - tri[1]), d)) < 0
                    ctx.violation('numpy hit point is not on the ray at the reported distance %g (hit %s)' % (nd, hit.tolist()), rec,
                                  {'api': 'numpy', 'fn': 'intersect_w_surface', 'what': 'hit_on_ray', 'negative_parameter': tneg})
                if abs(np.dot(np.cross(e1, e2), hit - tri[0])) > ntol * 10 * np.linalg.norm(np.cross(e1, e2)) * (1 + abs(nd)):
                    ctx.violation('numpy hit point is not on the triangle plane', rec,
                                  {'api': 'numpy', 'fn': 'intersect_w_surface', 'what': 'hit_on_plane'})
                if not edge:
                    r = NR.intersect_w_triangle(np.array([o, d]), tri.copy())
                    flag = not (isinstance(r[0], int) and r[0] == 0)
                    if flag != (inside_margin > 0):
                        ctx.violation('numpy intersect_w_triangle flag %s but point is %s' % (flag, 'inside' if inside_margin > 0 else 'outside'),
                                      rec, {'api': 'numpy', 'fn': 'intersect_w_triangle', 'what': 'flag'})
    circle_cases(ctx)
    mirror_cases(ctx)
    batch_cases(ctx)


# ======================================================================================================================
#  intersect_w_circle (both APIs), define_circle
# ======================================================================================================================

BASE_PLANE = np.array([[10., 10., 0.], [0., 10., 0.], [0., 0., 0.]])      # define_plane: three points of the un-tilted plane


def rot_xyz(angles):
    """documented convention of rotate_point(s), mode 'XYZ': rotate about x, then y, then z (degrees)"""
    ax, ay, az = [math.radians(a) for a in angles]
    rx = np.array([[1, 0, 0], [0, math.cos(ax), -math.sin(ax)], [0, math.sin(ax), math.cos(ax)]])
    ry = np.array([[math.cos(ay), 0, math.sin(ay)], [0, 1, 0], [-math.sin(ay), 0, math.cos(ay)]])
    rz = np.array([[math.cos(az), -math.sin(az), 0], [math.sin(az), math.cos(az), 0], [0, 0, 1]])
    return rz @ ry @ rx


TILT_CLASSES = ['zero', 'x', 'y', 'z', 'xy', 'yz', 'xyz', 'right', 'axis0', 'axis1', 'axis2']
RAY_KINDS = ['centre', 'inside', 'inside', 'rim_in', 'rim_out', 'outside', 'far', 'behind', 'behind_outside', 'parallel']


def circle_tilt(rng, cls):
    a = lambda: rng.choice([-1, 1]) * rng.uniform(5, 80)
    if cls == 'x':
        return [a(), 0., 0.]
    if cls == 'y':
        return [0., a(), 0.]
    if cls == 'z':
        return [0., 0., a()]
    if cls == 'xy':
        return [a(), a(), 0.]
    if cls == 'yz':
        return [0., a(), a()]
    if cls == 'xyz':
        return [a(), a(), a()]
    if cls == 'right':
        return [rng.choice([0., 90., 180., -90., 270.]) for _ in range(3)]
    return [0., 0., 0.]


def circle_rays(rng, plane, centre, radius, kinds, exact_plane):
    """rays aimed at the point of the circle's plane at rho * radius from the centre"""
    n = np.cross(plane[0] - plane[1], plane[2] - plane[1])
    n = n / np.linalg.norm(n)
    u = (plane[1] - plane[2]) / np.linalg.norm(plane[1] - plane[2])
    v = np.cross(n, u)
    out = []
    for kind in kinds:
        rho = {'centre': 0.0, 'inside': rng.uniform(0.05, 0.9), 'rim_in': 0.98, 'rim_out': 1.02, 'outside': rng.uniform(1.2, 3.0),
               'far': rng.uniform(5, 40), 'behind': rng.uniform(0.0, 0.9), 'behind_outside': rng.uniform(1.2, 3.0),
               'parallel': 0.5}[kind]
        phi = rng.uniform(0, 2 * math.pi)
        target = centre + rho * radius * (math.cos(phi) * u + math.sin(phi) * v)
        h = rng.uniform(0.5, 4) * max(1.0, radius)
        o = target + rng.choice([-1, 1]) * h * n + (rng.uniform(-1, 1) * u + rng.uniform(-1, 1) * v) * h
        d = (target - o) / np.linalg.norm(target - o)
        if kind.startswith('behind'):
            d = -d
        if kind == 'parallel':
            if exact_plane:       # n is a coordinate axis: in-plane directions are exactly perpendicular to it in floating point
                d = rng.choice([u, v, 0.6 * u + 0.8 * v, -u])
            else:
                kind, rho = 'inside', 0.5
        out.append((kind, o, d))
    return out


def circle_eval(api, plane, centre, radius, rays, kinds, batched):
    """calls intersect_w_circle of `api` ('torch32', 'torch64', 'numpy') and evaluates the conclusions of C10 on what it returns.
    returns (failures, hits[m,3], normals[m,3], distances[m]); failure = (what, text, ray index, extra class entries)"""
    import odak.learn.raytracing as LR
    import odak.raytracing as NR
    rays = np.asarray(rays, dtype=np.float64).reshape(-1, 2, 3)
    m = rays.shape[0]
    arg = rays if batched else rays[0]
    if api == 'numpy':
        nrm, dist = NR.intersect_w_circle(arg.copy(), [plane.copy(), centre.copy(), float(radius)])
        nrm, dist = np.asarray(nrm, dtype=np.float64), np.asarray(dist, dtype=np.float64)
        tol0 = 1e-9
    else:
        dt = torch.float32 if api == 'torch32' else torch.float64
        nrm, dist = LR.intersect_w_circle(torch.tensor(arg, dtype=dt), [torch.tensor(plane, dtype=dt), torch.tensor(centre, dtype=dt),
                                                                         torch.tensor([radius], dtype=dt)])
        nrm, dist = nrm.detach().numpy().astype(np.float64), dist.detach().numpy().astype(np.float64)
        tol0 = 5e-4 if api == 'torch32' else 1e-9
    fails = []
    want_shape = (m, 2, 3) if batched else (2, 3)
    if nrm.shape != want_shape or dist.size != m:
        fails.append(('shape', 'returns shapes %s / %s for %s ray(s) of shape %s' % (nrm.shape, dist.shape, m, arg.shape), 0, {}))
        return fails, None, None, None
    nrm, dist = nrm.reshape(m, 2, 3), dist.reshape(m)
    n = np.cross(plane[0] - plane[1], plane[2] - plane[1])
    n = n / np.linalg.norm(n)
    scale = max(1.0, float(np.max(np.abs(plane))), float(np.max(np.abs(centre))), radius)
    for i in range(m):
        o, d = rays[i]
        kind = kinds[i]
        hit, nv, dd = nrm[i, 0], nrm[i, 1], dist[i]
        nd = float(np.dot(n, d))
        if kind == 'parallel':
            if np.all(np.isfinite(hit)) or (np.isfinite(dd) and dd != 0):
                fails.append(('parallel', 'gives a ray parallel to the circle plane the point %s and distance %r instead of flagging it'
                              % (hit.tolist(), dd), i, {}))
            continue
        t = float(np.dot(n, centre - o) / nd)
        p = o + t * d
        rho = float(np.linalg.norm(p - centre) / radius)
        tol = tol0 * max(scale, abs(t), float(np.max(np.abs(o))))
        if not (np.all(np.isfinite(hit)) and np.all(np.isfinite(nv)) and np.isfinite(dd)):
            fails.append(('finite', 'non-finite result %s / %s / %r for a ray that crosses the plane' % (hit.tolist(), nv.tolist(), dd), i, {}))
            continue
        if np.linalg.norm(nv) < 1e-6 or np.linalg.norm(np.cross(nv, n)) > max(tol0 * 4, 1e-12) * np.linalg.norm(nv):
            fails.append(('normal', 'normal %s is not a non-zero vector perpendicular to the circle plane (plane normal %s)'
                          % (nv.tolist(), n.tolist()), i, {}))
        if abs(np.dot(n, hit - centre)) > 4 * tol:
            fails.append(('hit_on_plane', 'hit point %s is %.3g off the circle plane' % (hit.tolist(), abs(np.dot(n, hit - centre))), i, {}))
        if np.linalg.norm(np.cross(hit - o, d)) > 4 * tol:
            fails.append(('hit_on_line', 'hit point %s is not on the line of the ray' % hit.tolist(), i, {}))
        if abs(rho - 1) < 5e-3:
            continue
        if rho > 1:
            if dd != 0:
                fails.append(('flag', 'point at %.3f radii from the centre (outside) but distance %r is not zero' % (rho, dd), i, {'side': 'outside'}))
        else:
            if dd == 0:
                fails.append(('flag', 'point at %.3f radii from the centre (inside) but distance is zero' % rho, i, {'side': 'inside'}))
            elif np.linalg.norm(hit - (o + dd * d)) > 4 * tol:
                fails.append(('hit_on_ray', 'hit point %s is not origin + distance * direction for the reported distance %r (ray parameter %r)'
                              % (hit.tolist(), dd, t), i, {'negative_parameter': t < 0}))
    return fails, nrm[:, 0], nrm[:, 1], dist


def circle_cases(ctx):
    import odak.learn.raytracing as LR
    import odak.raytracing as NR
    rng = ctx.rng
    todo = []        # (tag, model line, implementation values, tol, rec)
    N = ctx.n(44, 400)
    for k in range(N):
        tcls = TILT_CLASSES[k % len(TILT_CLASSES)]
        centre = np.array([rng.uniform(-3, 3), rng.uniform(3.5, 6), rng.uniform(-9, -6.5)]) if k % 5 else np.zeros(3)
        radius = [0.05, 0.7, 2.5, 9.0, 25.0][(k // len(TILT_CLASSES) + k) % 5]
        angles = circle_tilt(rng, tcls)
        exact = tcls in ('zero', 'axis0', 'axis1', 'axis2')
        rec0 = {'tilt_class': tcls, 'angles': angles, 'centre': centre.tolist(), 'radius': radius}
        planes = {}
        if tcls.startswith('axis'):
            # hand-built packed form [points, centre, radius] whose plane is a coordinate plane through the centre
            sh = int(tcls[-1])
            pl = np.roll(BASE_PLANE, sh, axis=1) + centre
            c32 = centre.astype(np.float32).astype(np.float64)
            planes = {'torch32': (np.roll(BASE_PLANE, sh, axis=1) + c32, c32), 'torch64': (pl, centre), 'numpy': (pl, centre)}
        else:
            want = BASE_PLANE @ rot_xyz(angles).T + centre
            ct = LR.define_circle(torch.tensor(centre, dtype=torch.float32), radius, torch.tensor(angles, dtype=torch.float32))
            cn = NR.define_circle(centre.copy(), radius, list(angles))
            for api, c, tol in (('torch', ct, 5e-4), ('numpy', cn, 1e-9)):
                pts = np.asarray(c[0].numpy() if api == 'torch' else c[0], dtype=np.float64)
                cc = np.asarray(c[1].numpy() if api == 'torch' else c[1], dtype=np.float64).reshape(-1)
                rr = float(np.asarray(c[2].numpy() if api == 'torch' else c[2]).reshape(-1)[0])
                ctx.count('define_circle/%s/%s' % (api, tcls))
                if pts.shape != (3, 3) or not np.all(np.abs(pts - want) <= tol * 30) or not np.allclose(cc, centre, atol=tol * 10) \
                        or abs(rr - radius) > tol * max(1, radius):
                    ctx.violation('%s define_circle(centre, radius, angles): plane points %s / centre %s / radius %r are not the plane '
                                  'through the centre tilted by the angles (expected points %s)' % (api, pts.tolist(), cc.tolist(), rr, want.tolist()),
                                  dict(rec0, api=api), {'api': api, 'fn': 'define_circle', 'what': 'plane', 'tilt': tcls})
                planes['torch32' if api == 'torch' else 'numpy'] = (pts, cc)
            planes['torch64'] = (want, centre)
        m = 1 + k % 3
        batched = not (m == 1 and k % 2 == 0)
        kinds = [RAY_KINDS[(k + 3 * j) % len(RAY_KINDS)] for j in range(m)]
        if exact and (k // len(TILT_CLASSES)) % 2 == 0:
            kinds[-1] = 'parallel'
        base = circle_rays(rng, planes['numpy'][0], planes['numpy'][1], radius, kinds, exact)
        kinds = [b[0] for b in base]
        for api in ('torch32', 'torch64', 'numpy'):
            plane, cc = planes[api]
            rays = np.array([[o, d] for (_, o, d) in base])
            if api == 'torch32':
                rays = rays.astype(np.float32).astype(np.float64)
            rec = dict(rec0, circle={'api': api, 'plane': plane.tolist(), 'centre': cc.tolist(), 'radius': radius},
                       rays=rays.tolist(), kinds=kinds, batched=batched)
            try:
                fails, hits, nvs, dists = circle_eval(api, plane, cc, radius, rays, kinds, batched)
            except Exception as e:
                if api == 'torch64' and 'dtype' in str(e):
                    # get_triangle_normal builds its result in float32 whatever the input is: float64 rays are a rejected input class
                    ctx.count('circle/torch64 rejected (dtype error)')
                    continue
                ctx.violation('%s intersect_w_circle raised %r' % (api, e), rec, {'api': api, 'fn': 'intersect_w_circle', 'what': 'raises'})
                continue
            for j, kd in enumerate(kinds):
                ctx.case(('circle', api, tcls, kd, radius, tuple(np.round(rays[j, 0], 6))), kd != 'parallel', rec if j == 0 else None)
                ctx.count('circle/%s/%s' % (api, kd))
            ctx.count('circle/shape/' + ('[%dx2x3]' % m if batched else '[2x3]'))
            tapi = 'numpy' if api == 'numpy' else 'torch'
            for what, text, i, extra in fails:
                cls = dict({'api': tapi, 'fn': 'intersect_w_circle', 'what': what, 'kind': kinds[i], 'dtype': api}, **extra)
                if tapi == 'numpy' and what == 'hit_on_ray' and extra.get('negative_parameter'):
                    # intersect_w_circle passes on the distance of NumPy intersect_w_surface, which is |t| (listed finding F06)
                    cls = {'api': 'numpy', 'fn': 'intersect_w_surface', 'what': 'hit_on_ray', 'negative_parameter': True, 'via': 'intersect_w_circle'}
                ctx.violation('%s intersect_w_circle: %s' % (api, text), dict(rec, ray_index=i), cls)
            if hits is None:
                continue
            # batched call == one ray at a time
            if m > 1:
                for j in range(m):
                    f1, h1, n1, d1 = circle_eval(api, plane, cc, radius, rays[j:j + 1], kinds[j:j + 1], False)
                    if h1 is None or not (np.allclose(h1[0], hits[j], atol=1e-6, equal_nan=True) and np.allclose(n1[0], nvs[j], atol=1e-6, equal_nan=True)
                                          and np.allclose(d1[0], dists[j], atol=1e-6 * max(1, abs(dists[j]) if np.isfinite(dists[j]) else 1), equal_nan=True)):
                        ctx.violation('%s intersect_w_circle: ray %d of a batch gives %s / %r, alone it gives %s / %r'
                                      % (api, j, hits[j].tolist(), dists[j], None if h1 is None else h1[0].tolist(), None if d1 is None else d1[0]),
                                      dict(rec, ray_index=j), {'api': tapi, 'fn': 'intersect_w_circle', 'what': 'batch_vs_single', 'dtype': api})
            # model: regenerated intersectCircleT (torch); regenerated NumPy intersectSurfaceN + the documented distance rule
            for j, kd in enumerate(kinds):
                if kd == 'parallel':
                    continue
                got = np.concatenate([hits[j], nvs[j], [dists[j]]])
                t = abs(dists[j]) if np.isfinite(dists[j]) else 1.0
                sc = max(1.0, float(np.max(np.abs(plane))), t, float(np.max(np.abs(rays[j, 0]))))
                if tapi == 'torch':
                    todo.append(('%s intersect_w_circle' % api, 'gg_circle %s %s %s %d' % (fl(rays[j].reshape(-1)), fl(plane.reshape(-1)), fl(cc), f2b(radius)),
                                 got, (5e-4 if api == 'torch32' else 1e-9) * sc, dict(rec, ray_index=j), None))
                else:
                    todo.append(('numpy intersect_w_circle', 'gg_surface 0 %s %s' % (fl(rays[j].reshape(-1)), fl(plane.reshape(-1))),
                                 got, 1e-9 * sc, dict(rec, ray_index=j), (cc, radius)))
    if ctx.drv_ok and todo:
        outs = ctx.model.ask([t[1] for t in todo])
        bad = 0
        for (tag, line, got, tol, rec, circ), out in zip(todo, outs):
            want = np.array([b2f(x) for x in out.split()], dtype=np.float64)
            if circ is not None and want.shape == (7,):
                rho = np.linalg.norm(want[:3] - circ[0]) / circ[1]
                if abs(rho - 1) < 5e-3:
                    continue
                if rho > 1:
                    want[6] = 0.0
            ok = want.shape == got.shape and np.array_equal(np.isfinite(want), np.isfinite(got)) and \
                bool(np.all(np.abs(want - got)[np.isfinite(want)] <= tol))
            if not ok:
                bad += 1
                if bad <= 5:
                    ctx.alarm('correspondence', '%s: implementation %s vs regenerated definition %s (%s)' % (tag, got.tolist(), want.tolist(), rec))


# ======================================================================================================================
#  planar_mesh.mirror
# ======================================================================================================================

def line_triangle(o, d, tri):
    """float64 reference: parameter t of the line o + t d in the triangle's plane and barycentric coordinates of that point"""
    e1, e2 = tri[1] - tri[0], tri[2] - tri[0]
    n = np.cross(e1, e2)
    nn = np.linalg.norm(n)
    if nn < 1e-12:
        return None
    n = n / nn
    nd = float(np.dot(n, d))
    if abs(nd) < 1e-12:
        return None
    t = float(np.dot(n, tri[0] - o) / nd)
    p = o + t * d
    w = p - tri[0]
    d11, d12, d22 = np.dot(e1, e1), np.dot(e1, e2), np.dot(e2, e2)
    den = d11 * d22 - d12 * d12
    a = (d22 * np.dot(w, e1) - d12 * np.dot(w, e2)) / den
    b = (d11 * np.dot(w, e2) - d12 * np.dot(w, e1)) / den
    return t, p, n, min(a, b, 1 - a - b)


def mirror_eval(size, nodes, angles, offset, heights, rays, kinds, single):
    """builds the mesh, bounces the rays and evaluates the conclusions; returns (failures, info)"""
    from odak.learn.raytracing.mesh import planar_mesh
    n0, n1 = nodes
    hs = None if heights is None else torch.tensor(np.asarray(heights, dtype=np.float64).reshape(n0, n1, 1), dtype=torch.float32)
    mesh = planar_mesh(size=torch.tensor(size, dtype=torch.float32), number_of_meshes=torch.tensor([n0, n1]),
                       angles=torch.tensor(angles, dtype=torch.float32), offset=torch.tensor(offset, dtype=torch.float32), heights=hs)
    rays = np.asarray(rays, dtype=np.float64).reshape(-1, 2, 3)
    arg = torch.tensor(rays[0] if single else rays, dtype=torch.float32)
    out_rays, out_normals = mesh.mirror(arg)
    tris = mesh.get_triangles().detach().numpy().astype(np.float64)
    out_rays, out_normals = out_rays.detach().numpy().astype(np.float64), out_normals.detach().numpy().astype(np.float64)
    fails = []
    R = rot_xyz(angles)
    H = np.zeros((n0, n1)) if heights is None else np.asarray(heights, dtype=np.float64).reshape(n0, n1)
    X, Y = np.linspace(-size[0] / 2, size[0] / 2, n0), np.linspace(-size[1] / 2, size[1] / 2, n1)
    node = np.array([[R @ np.array([X[i], Y[j], H[i, j]]) + np.asarray(offset) for j in range(n1)] for i in range(n0)]).reshape(-1, 3)
    scale = max(1.0, float(np.max(np.abs(node))), float(np.max(np.abs(rays[:, 0]))))
    tol = 5e-4 * scale
    # the triangles of the mesh: vertices are mesh nodes (position, height, tilt, offset), together they cover the rectangle once
    real = [tr for tr in tris if np.linalg.norm(np.cross(tr[1] - tr[0], tr[2] - tr[0])) > 1e-9]
    area = 0.0
    for tr in real:
        for vtx in tr:
            if np.min(np.linalg.norm(node - vtx, axis=1)) > tol:
                fails.append(('mesh_nodes', 'triangle vertex %s is not a node of the mesh (sizes, heights, tilt, offset)' % vtx.tolist(), None))
                break
        loc = (tr - np.asarray(offset)) @ R            # back to the un-tilted frame: x, y, height
        ea, eb = loc[1, :2] - loc[0, :2], loc[2, :2] - loc[0, :2]
        area += 0.5 * abs(ea[0] * eb[1] - ea[1] * eb[0])
    if abs(area - size[0] * size[1]) > 1e-3 * size[0] * size[1] or len(real) != 2 * (n0 - 1) * (n1 - 1):
        fails.append(('mesh_cover', '%d triangles of total footprint %.6g for a %gx%g mesh with %dx%d nodes' % (len(real), area, size[0], size[1], n0, n1), None))
    else:
        # every point of the rectangle lies under exactly one triangle (four probe points per square, off both diagonals)
        foot = [((tr - np.asarray(offset)) @ R)[:, :2] for tr in real]
        for i in range(n0 - 1):
            for j in range(n1 - 1):
                for fa, fb in ((0.3, 0.2), (0.8, 0.7), (0.2, 0.7), (0.7, 0.2)):
                    q = np.array([X[i] + fa * (X[i + 1] - X[i]), Y[j] + fb * (Y[j + 1] - Y[j])])
                    cover = 0
                    for f in foot:
                        e1, e2, w = f[1] - f[0], f[2] - f[0], q - f[0]
                        den = e1[0] * e2[1] - e1[1] * e2[0]
                        a, b = (w[0] * e2[1] - w[1] * e2[0]) / den, (e1[0] * w[1] - e1[1] * w[0]) / den
                        cover += a > 0 and b > 0 and a + b < 1
                    if cover != 1 and not any(x[0] == 'mesh_cover' for x in fails):
                        fails.append(('mesh_cover', 'the point (%.4g, %.4g) of the mesh rectangle lies under %d triangles' % (q[0], q[1], cover), None))
    # expected bounces (float64), ray by ray
    expected, ambiguous = [], False
    for i, (o, d) in enumerate(rays):
        for tr in real:
            r = line_triangle(o, d, tr)
            if r is None:
                continue
            t, p, n, margin = r
            if abs(margin) < 2e-3:
                ambiguous = True
            if margin > 0:
                expected.append({'ray': i, 'hit': p, 'n': n, 'dir': d - 2 * np.dot(d, n) * n, 't': t, 'used': False})
    if out_rays.shape[1:] != (2, 3) or out_normals.shape != out_rays.shape:
        fails.append(('shape', 'mirror returns shapes %s / %s' % (out_rays.shape, out_normals.shape), None))
        return fails, {'returned': 0, 'expected': len(expected)}
    for k in range(out_rays.shape[0]):
        start, rdir, npos, ndir = out_rays[k, 0], out_rays[k, 1], out_normals[k, 0], out_normals[k, 1]
        if not np.all(np.isfinite(out_rays[k])) or not np.all(np.isfinite(out_normals[k])):
            fails.append(('finite', 'returned ray %d is not finite: %s' % (k, out_rays[k].tolist()), None))
            continue
        best = None
        for e in expected:
            dist = np.linalg.norm(e['hit'] - start)
            if not e['used'] and dist <= tol * max(1, abs(e['t']) / scale) * 4 and (best is None or dist < best[0]) and \
                    np.linalg.norm(np.cross(e['n'], ndir)) < 2e-3:
                best = (dist, e)
        if best is None:
            fails.append(('not_a_hit', 'returned ray %d starts at %s, which is not where any given ray meets a triangle of the mesh' % (k, start.tolist()), None))
            continue
        e = best[1]
        e['used'] = True
        d = rays[e['ray'], 1]
        if abs(np.linalg.norm(ndir) - 1) > 2e-3 or np.linalg.norm(npos - start) > tol:
            fails.append(('normal', 'returned normal %s / %s is not the unit normal at the hit point %s' % (npos.tolist(), ndir.tolist(), start.tolist()), e['ray']))
        if np.linalg.norm(rdir - e['dir']) > 2e-3 or abs(np.linalg.norm(rdir) - 1) > 2e-3 or abs(np.dot(rdir, e['n']) + np.dot(d, e['n'])) > 2e-3:
            fails.append(('reflection_law', 'ray %d with direction %s meets a triangle with normal %s and leaves with %s (mirror image %s)'
                          % (e['ray'], d.tolist(), e['n'].tolist(), rdir.tolist(), e['dir'].tolist()), e['ray']))
    if not ambiguous:
        for e in expected:
            if not e['used'] and not kinds[e['ray']].startswith('behind'):
                fails.append(('hit_not_returned', 'ray %d meets a triangle at %s (inside it) but no reflected ray is returned for it' % (e['ray'], e['hit'].tolist()), e['ray']))
    return fails, {'returned': int(out_rays.shape[0]), 'expected': len(expected), 'ambiguous': ambiguous,
                   'behind_returned': sum(1 for e in expected if e['used'] and e['t'] < 0)}


def mirror_cases(ctx):
    rng = ctx.rng
    HEIGHTS = ['flat', 'flat', 'offset', 'rough', 'rough', 'one_node']
    TILTS = ['zero', 'x', 'y', 'xyz', 'z']
    for k in range(ctx.n(20, 120)):
        n0, n1 = 2 + k % 3, 2 + (k // 3) % 3
        size = [rng.uniform(1, 4), rng.uniform(1, 4)]
        tcls, hcls = TILTS[k % len(TILTS)], HEIGHTS[k % len(HEIGHTS)]
        angles = [a * 0.5 for a in circle_tilt(rng, tcls)]
        offset = [rng.uniform(-2, 2), rng.uniform(3, 5), rng.uniform(6, 9)]
        s = min(size)
        if hcls == 'flat':
            heights = None if k % 2 else np.zeros((n0, n1))
        elif hcls == 'offset':
            heights = np.full((n0, n1), rng.uniform(-0.5, 0.5) * s)
        elif hcls == 'rough':
            heights = np.array([[rng.uniform(-0.12, 0.12) * s for _ in range(n1)] for _ in range(n0)])
        else:
            heights = np.zeros((n0, n1)); heights[rng.randrange(n0), rng.randrange(n1)] = 0.2 * s
        R = rot_xyz(angles)
        H = np.zeros((n0, n1)) if heights is None else heights
        X, Y = np.linspace(-size[0] / 2, size[0] / 2, n0), np.linspace(-size[1] / 2, size[1] / 2, n1)
        m = 1 + k % 3 if k % 4 else 5
        single = m == 1 and k % 2 == 0
        rays, kinds = [], []
        for j in range(m):
            kind = ['hit', 'hit', 'miss_outside', 'hit', 'parallel', 'behind', 'hit_steep'][(k + j) % 7]
            if j == 1 and tcls == 'zero' and hcls in ('flat', 'offset'):
                kind = 'parallel'
            if kind == 'miss_outside':
                lx, ly = rng.choice([-1, 1]) * rng.uniform(0.65, 1.5) * size[0], rng.uniform(-0.4, 0.4) * size[1]
                if rng.random() < 0.5:
                    lx, ly = rng.uniform(-0.4, 0.4) * size[0], rng.choice([-1, 1]) * rng.uniform(0.65, 1.5) * size[1]
                lz = 0.0
            else:
                i0, j0 = rng.randrange(n0 - 1), rng.randrange(n1 - 1)
                a, b = rng.uniform(0.1, 0.8), rng.uniform(0.1, 0.8)
                if a + b > 0.9:
                    a, b = 0.45 * a, 0.45 * b
                A = np.array([X[i0 + 1], Y[j0], H[i0 + 1, j0]]); C = np.array([X[i0], Y[j0 + 1], H[i0, j0 + 1]])
                B = np.array([X[i0 + 1], Y[j0 + 1], H[i0 + 1, j0 + 1]]) if rng.random() < 0.5 else np.array([X[i0], Y[j0], H[i0, j0]])
                lx, ly, lz = A + a * (B - A) + b * (C - A)
            spread = 1.2 if kind == 'hit_steep' else 0.45
            lo = np.array([lx + rng.uniform(-1, 1) * spread * s, ly + rng.uniform(-1, 1) * spread * s, lz + rng.choice([-1, 1]) * rng.uniform(1.0, 3.0) * s])
            ld = np.array([lx, ly, lz]) - lo
            if kind == 'parallel':
                ld = np.array([rng.uniform(-1, 1), rng.uniform(-1, 1), 0.0]) + 1e-9
                if tcls != 'zero' or hcls not in ('flat', 'offset'):
                    kind = 'miss_outside'
                    lo = np.array([lx, ly, 3.0 * s]); ld = np.array([1.0, 0.3, 0.0])      # passes over the mesh
                else:
                    ld[2] = 0.0
            ld = ld / np.linalg.norm(ld)
            if kind == 'behind':
                ld = -ld
            rays.append([R @ lo + np.array(offset), R @ ld])
            kinds.append(kind)
        rays = np.array(rays).astype(np.float32).astype(np.float64)
        rec = {'mesh': {'size': size, 'nodes': [n0, n1], 'angles': angles, 'offset': offset, 'heights': None if heights is None else heights.tolist()},
               'rays': rays.tolist(), 'kinds': kinds, 'single': single, 'tilt_class': tcls, 'height_class': hcls}
        for j, kd in enumerate(kinds):
            ctx.case(('mirror', tcls, hcls, n0, n1, kd, tuple(np.round(rays[j, 0], 6))), kd != 'parallel', rec if j == 0 else None)
            ctx.count('mirror/ray/' + kd)
        ctx.count('mirror/heights/' + hcls)
        ctx.count('mirror/shape/' + ('[2x3]' if single else '[%dx2x3]' % m))
        try:
            fails, info = mirror_eval(size, [n0, n1], angles, offset, heights, rays, kinds, single)
        except Exception as e:
            ctx.violation('planar_mesh.mirror raised %r' % e, rec, {'api': 'torch', 'fn': 'planar_mesh.mirror', 'what': 'raises'})
            continue
        ctx.count('mirror/returned_rays', info['returned'])
        ctx.count('mirror/behind_the_origin_returned_as_hits', info.get('behind_returned', 0))
        for what, text, i in fails:
            ctx.violation('planar_mesh.mirror: ' + text, dict(rec, ray_index=i),
                          {'api': 'torch', 'fn': 'planar_mesh.mirror', 'what': what, 'heights': hcls, 'tilt': tcls,
                           'kind': None if i is None else kinds[i]})


# ======================================================================================================================
#  intersect_w_triangle_batch with several triangles  ==  every (ray, triangle) pair on its own
# ======================================================================================================================

def batch_cases(ctx):
    import odak.learn.raytracing as LR
    rng = ctx.rng
    for k in range(ctx.n(18, 150)):
        m, n = 1 + k % 3, 1 + (k // 3) % 3
        tl = [triangles(rng) for _ in range(m)]
        rl = []
        for j in range(n):
            rl += rays_for(rng, tl[j % m][1], 1)
        tris = torch.tensor(np.array([t for _, t in tl]), dtype=torch.float32)
        rays = torch.tensor(np.array([[o, d] for (_, o, d, _, _) in rl]), dtype=torch.float32)
        rec = {'triangles': tris.tolist(), 'rays': rays.tolist(), 'kinds': [r[0] for r in rl]}
        ctx.case(('batch', m, n, tuple(np.round(rl[0][1], 6))), True, rec)
        ctx.count('batch/%d triangles x %d rays' % (m, n))
        try:
            nb, db, rb, nrb, cb = LR.intersect_w_triangle_batch(rays, tris)
            sb, sd = LR.intersect_w_surface_batch(rays, tris)
        except Exception as e:
            ctx.violation('torch intersect_w_triangle_batch raised %r' % e, rec, {'api': 'torch', 'fn': 'intersect_w_triangle_batch', 'what': 'raises'})
            continue
        ok = tuple(nb.shape) == (m, n, 2, 3) and tuple(cb.shape) == (m, n) and tuple(sb.shape) == (m, n, 2, 3) and tuple(sd.shape) == (m, n)
        exp_r, exp_n, exp_d = [], [], []
        if ok:
            for a in range(m):
                for b in range(n):
                    n1, d1, _, _, c1 = LR.intersect_w_triangle(rays[b], tris[a])
                    scale = max(1.0, float(tris[a].abs().max()), float(rays[b, 0].abs().max()),
                                abs(float(d1.reshape(-1)[0])) if bool(torch.isfinite(d1).all()) else 1.0)
                    grazing = 100 if rl[b][0] == 'grazing' else 1
                    # a ray built parallel to a generic triangle is parallel only up to rounding: its far-away point is noise
                    same = rl[b][0] == 'parallel' or torch.allclose(nb[a, b], n1.reshape(2, 3), atol=5e-4 * scale * grazing, equal_nan=True) and \
                        torch.allclose(sb[a, b], n1.reshape(2, 3), atol=5e-4 * scale * grazing, equal_nan=True) and \
                        torch.allclose(sd[a, b], d1.reshape(()), atol=5e-4 * scale * grazing, equal_nan=True)
                    edge = rl[b][0] in ('grazing', 'parallel')
                    if not edge:
                        r = line_triangle(rays[b, 0].numpy().astype(np.float64), rays[b, 1].numpy().astype(np.float64), tris[a].numpy().astype(np.float64))
                        edge = r is None or abs(r[3]) < 2e-3
                    if not same or (not edge and bool(cb[a, b]) != bool(c1.reshape(-1)[0])):
                        ok = False
                        ctx.violation('triangle %d, ray %d of a %dx%d batch: %s / flag %s, as a single pair %s / flag %s'
                                      % (a, b, m, n, nb[a, b].tolist(), bool(cb[a, b]), n1.tolist(), bool(c1.reshape(-1)[0])), dict(rec, pair=[a, b]),
                                      {'api': 'torch', 'fn': 'intersect_w_triangle_batch', 'what': 'batch_vs_pair', 'multi': True})
                    if bool(cb[a, b]):
                        exp_r.append(rays[b]); exp_n.append(nb[a, b]); exp_d.append(sd[a, b])
            # the grouped lists hold exactly the flagged pairs, triangle by triangle, ray order kept
            got_r = torch.cat([g.reshape(-1, 2, 3) for g in rb]) if len(rb) else torch.zeros((0, 2, 3))
            got_n = torch.cat([g.reshape(-1, 2, 3) for g in nrb]) if len(nrb) else torch.zeros((0, 2, 3))
            got_d = torch.cat([g.reshape(-1) for g in db]) if len(db) else torch.zeros((0,))
            if got_r.shape[0] != len(exp_r) or got_n.shape[0] != len(exp_r) or got_d.shape[0] != len(exp_r) or \
                    (len(exp_r) and not (torch.equal(got_r, torch.stack(exp_r)) and torch.equal(got_n, torch.stack(exp_n))
                                         and torch.equal(got_d, torch.stack(exp_d)))):
                ctx.violation('intersect_w_triangle_batch: the lists of intersecting rays / normals / distances (%d / %d / %d entries) are not '
                              'the %d flagged pairs in order' % (got_r.shape[0], got_n.shape[0], got_d.shape[0], len(exp_r)), rec,
                              {'api': 'torch', 'fn': 'intersect_w_triangle_batch', 'what': 'grouped_lists', 'multi': True})
        else:
            ctx.violation('intersect_w_triangle_batch / intersect_w_surface_batch shapes %s %s %s %s for %d triangles x %d rays'
                          % (tuple(nb.shape), tuple(cb.shape), tuple(sb.shape), tuple(sd.shape), m, n), rec,
                          {'api': 'torch', 'fn': 'intersect_w_triangle_batch', 'what': 'shape', 'multi': True})


def exact_parallel_cases(ctx):
    """rays EXACTLY parallel to an axis-aligned triangle's plane (n.d == 0 in floating point), offset from it and lying in it:
    they must be flagged (non-finite point, no hit flag) by every entry point of both APIs"""
    import odak.learn.raytracing as LR
    import odak.raytracing as NR
    for axis in range(3):
        for zc in (0.0, 2.0, -3.5):
            tri = np.zeros((3, 3))
            u, v = (axis + 1) % 3, (axis + 2) % 3
            tri[:, axis] = zc
            tri[0, u], tri[0, v] = -1.0, -1.0
            tri[1, u], tri[1, v] = 2.0, -1.0
            tri[2, u], tri[2, v] = -1.0, 2.0
            for off in (1.0, -0.5, 0.0):
                o = np.zeros(3); o[axis] = zc + off; o[u], o[v] = -0.2, -0.3       # inside the triangle's shadow
                for dd in ((1.0, 0.0), (0.0, 1.0), (0.6, 0.8)):
                    d = np.zeros(3); d[u], d[v] = dd
                    rec = {'class': 'exact_parallel', 'triangle': tri.tolist(), 'ray': [o.tolist(), d.tolist()], 'offset': off}
                    ctx.case(('exact_parallel', axis, zc, off, dd), True)
                    ctx.count('ray/exact_parallel' + ('_in_plane' if off == 0 else ''))
                    rt = torch.tensor(np.array([o, d]), dtype=torch.float32)
                    tt = torch.tensor(tri, dtype=torch.float32)
                    for name, call in (('intersect_w_triangle', lambda: LR.intersect_w_triangle(rt, tt)),
                                       ('intersect_w_triangle_batch', lambda: LR.intersect_w_triangle_batch(rt.unsqueeze(0), tt.unsqueeze(0)))):
                        nrm, dist, _, _, chk = call()
                        pt = nrm.reshape(-1, 2, 3)[0, 0].numpy()
                        if np.all(np.isfinite(pt)) or bool(chk.reshape(-1)[0]):
                            ctx.violation('torch %s gives a ray parallel to the plane the coordinates %s (hit flag %s) instead of flagging it'
                                          % (name, pt.tolist(), bool(chk.reshape(-1)[0])), rec,
                                          {'api': 'torch', 'fn': name, 'what': 'parallel', 'in_plane': off == 0})
                    nn, nd = NR.intersect_w_surface(np.array([o, d]), tri.copy())
                    pt = np.asarray(nn, dtype=np.float64).reshape(2, 3)[0]
                    if np.all(np.isfinite(pt)):
                        ctx.violation('numpy intersect_w_surface gives a ray parallel to the plane the coordinates %s' % pt.tolist(), rec,
                                      {'api': 'numpy', 'fn': 'intersect_w_surface', 'what': 'parallel', 'in_plane': off == 0})


def replay(ctx, rep):
    import odak.learn.raytracing as LR
    r = rep['replay']
    if 'circle' in r:
        c = r['circle']
        fails, hits, nvs, dists = circle_eval(c['api'], np.array(c['plane']), np.array(c['centre']), c['radius'], np.array(r['rays']),
                                              r['kinds'], r.get('batched', True))
        print('hit points', None if hits is None else hits.tolist(), 'distances', None if dists is None else dists.tolist())
        for f in fails:
            print('fails:', f[1])
        return not fails
    if 'mesh' in r:
        m = r['mesh']
        fails, info = mirror_eval(m['size'], m['nodes'], m['angles'], m['offset'], m['heights'], np.array(r['rays']), r['kinds'], r.get('single', False))
        print(info)
        for f in fails:
            print('fails:', f[1])
        return not fails
    if 'triangles' in r:
        nb, db, rb, nrb, cb = LR.intersect_w_triangle_batch(torch.tensor(r['rays'], dtype=torch.float32), torch.tensor(r['triangles'], dtype=torch.float32))
        print('batch hit points', nb[:, :, 0].tolist(), 'flags', cb.tolist())
        ok = True
        for a in range(nb.shape[0]):
            for b in range(nb.shape[1]):
                n1, d1, _, _, c1 = LR.intersect_w_triangle(torch.tensor(r['rays'][b], dtype=torch.float32), torch.tensor(r['triangles'][a], dtype=torch.float32))
                ok = ok and torch.allclose(nb[a, b], n1.reshape(2, 3), atol=1e-2, equal_nan=True)
        return bool(ok)
    tri = torch.tensor(r['triangle'], dtype=torch.float32)
    n = LR.get_triangle_normal(tri)
    print('normal', n.tolist())
    if 'ray' not in r:
        return bool(torch.isfinite(n).all())
    normal, dist, _, _, check = LR.intersect_w_triangle(torch.tensor(r['ray'], dtype=torch.float32), tri)
    print('hit', normal.tolist(), 'distance', dist.tolist(), 'flag', check.tolist())
    return bool(torch.isfinite(n).all())
