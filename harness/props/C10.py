"""C10 – ray / plane / triangle intersection.  Correspondence of get_triangle_normal, intersect_w_surface,
intersect_w_triangle(_batch) (torch) and the NumPy twins with the Lean model; monitors evaluate the geometric
conclusions on the implementation's own outputs."""
import logging
import math
import warnings
import numpy as np
import torch
from ..lib.core import f2b, b2f

logging.disable(logging.WARNING)
warnings.filterwarnings('ignore')

TRUSTED = ['torch.linalg.cross / np.cross / mm / bmm are the vector and matrix products',
           'batched calls are compared pair by pair with the single-pair model (batching is not modelled)',
           'per-pair formulas of both APIs are regenerated from the source (translate/geomcore.py, geometry.py -> Generated/GeometryGen.lean; layout operations '
           'such as [:, 0], unsqueeze, repeat are treated as broadcasting only) and proved equal to the model (Lemmas/GenGeometry.lean)']
ASSUMPTIONS = ['torch geometry is float32: tolerance 5e-4 x coordinate scale; inside/outside compared away from edges (margin 1e-3)']


def fl(xs):
    return ' '.join(str(f2b(float(x))) for x in xs)


def triangles(rng):
    """orientation classes"""
    cls = rng.choice(['random', 'random', 'axis', 'sumzero', 'negsum', 'small', 'big', 'tilted'])
    if cls == 'axis':
        z = rng.uniform(-3, 3)
        t = [[-1, -1, z], [1, -1, z], [0, 1.5, z]]
        k = rng.randrange(3)
        t = [p[k:] + p[:k] for p in t]
    elif cls == 'sumzero':
        s = rng.uniform(0.5, 3)
        t = [[0, 0, 0], [s, s, 0], [0, 0, s]]
    elif cls == 'negsum':
        t = [[0, 0, 0], [0, 0, 1.0], [1.0, 1.0, 0.3]]
    elif cls == 'small':
        t = [[rng.uniform(-1, 1) * 1e-2 for _ in range(3)] for _ in range(3)]
    elif cls == 'big':
        t = [[rng.uniform(-1, 1) * 50 for _ in range(3)] for _ in range(3)]
    else:
        t = [[rng.uniform(-3, 3) for _ in range(3)] for _ in range(3)]
    t = np.array(t, dtype=np.float64)
    if cls in ('sumzero', 'negsum') and rng.random() < 0.5:
        t = t + np.array([rng.uniform(-2, 2) for _ in range(3)])
    return cls, t


def rays_for(rng, tri, k):
    """rays aimed at points inside / outside the triangle's plane, grazing, parallel, pointing away"""
    p0, p1, p2 = tri
    n = np.cross(p0 - p1, p2 - p1)
    n = n / np.linalg.norm(n)
    out = []
    for _ in range(k):
        kind = rng.choice(['inside', 'inside', 'outside', 'outside', 'behind', 'parallel', 'grazing'])
        if kind == 'inside':
            s, t = rng.uniform(0.05, 0.9), rng.uniform(0.05, 0.9)
            if s + t > 0.95:
                s, t = 0.45 * s, 0.45 * t
        else:
            s, t = rng.uniform(-1.5, 2.5), rng.uniform(-1.5, 2.5)
            if kind == 'outside' and (s > -0.05 and t > -0.05 and s + t < 1.05):
                s = -0.3 - abs(s)
        target = p0 + s * (p2 - p0) + t * (p1 - p0)
        scale = max(1e-3, float(np.max(np.abs(tri))))
        o = target + n * rng.choice([-1, 1]) * rng.uniform(0.5, 3) * scale + np.array([rng.uniform(-1, 1) for _ in range(3)]) * scale
        d = target - o
        if kind == 'behind':
            d = -d
        if kind == 'parallel':
            e = p1 - p0
            d = e / np.linalg.norm(e)
        if kind == 'grazing':
            e = (p1 - p0) / np.linalg.norm(p1 - p0)
            d = e + 1e-3 * n * rng.choice([-1, 1])
        d = d / np.linalg.norm(d)
        out.append((kind, o, d, s, t))
    return out


def run(ctx):
    import odak.learn.raytracing as LR
    import odak.raytracing as NR
    rng = ctx.rng
    ctx.rule = ('triangles from orientation classes (random, axis-aligned, normal-component-sum zero, negative sum, 1e-2 and 50x '
                'scale) x rays (inside, outside, behind the origin, parallel, grazing), batch sizes 1-5, both APIs; non-trivial = '
                'non-parallel ray; distinct by (class, ray kind, coordinates)')
    exact_parallel_cases(ctx)
    __import__('harness.props.gengeom', fromlist=['x']).check_generated_geometry(ctx, 'C10')   # regenerated definitions vs /repo
    NT = ctx.n(60, 600)
    lines, cases = [], []
    for _ in range(NT):
        cls, tri = triangles(rng)
        rs = rays_for(rng, tri, rng.choice([1, 2, 3, 5]))
        cases.append((cls, tri, rs))
        lines.append('tri_normal %s' % fl(tri.reshape(-1)))
        for (kind, o, d, s, t) in rs:
            lines.append('intersect 1 %s %s %s' % (fl(o), fl(d), fl(tri.reshape(-1))))
            lines.append('intersect 0 %s %s %s' % (fl(o), fl(d), fl(tri.reshape(-1))))
    outs = iter(ctx.model.ask(lines)) if ctx.drv_ok else None

    def nxt():
        return [b2f(x) for x in next(outs).split()] if outs is not None else None

    def corr(tag, got, want, tol, rec):
        if want is None:
            return
        got = np.asarray(got, dtype=np.float64).reshape(-1)
        want = np.asarray(want, dtype=np.float64)
        fin = np.isfinite(want)
        if got.shape != want.shape or not np.array_equal(np.isfinite(got), fin) or \
                not np.all(np.abs(got[fin] - want[fin]) <= tol):
            ctx.alarm('correspondence', '%s: implementation %s vs model %s (%s)' % (tag, got.tolist(), want.tolist(), rec))

    for cls, tri, rs in cases:
        scale = max(1e-3, float(np.max(np.abs(tri))))
        tt = torch.tensor(tri, dtype=torch.float32)
        rec0 = {'class': cls, 'triangle': tri.tolist()}
        # ---- triangle normal
        nt = LR.get_triangle_normal(tt).numpy().astype(np.float64)
        nn = NR.get_triangle_normal(tri.copy())
        m = nxt()
        corr('torch get_triangle_normal', nt, m, 5e-4 * max(1, scale), rec0)
        corr('numpy get_triangle_normal', nn, m, 1e-9 * max(1, scale), rec0)
        ctx.count('triangle/' + cls)
        e1, e2 = tri[0] - tri[1], tri[2] - tri[1]
        for api, nv, tol in (('torch', nt[1], 2e-3), ('numpy', nn[1], 1e-9)):
            ok = np.all(np.isfinite(nv)) and np.linalg.norm(nv) > 1e-6 and \
                abs(np.dot(nv, e1)) <= tol * np.linalg.norm(nv) * np.linalg.norm(e1) and \
                abs(np.dot(nv, e2)) <= tol * np.linalg.norm(nv) * np.linalg.norm(e2)
            if not ok:
                ctx.violation('%s get_triangle_normal is not a finite non-zero vector perpendicular to the triangle: %s for %s'
                              % (api, nv.tolist(), tri.tolist()), dict(rec0, api=api),
                              {'api': api, 'fn': 'get_triangle_normal', 'what': 'normal', 'class': cls})
        # ---- intersections: batched torch call, then per pair
        rays_t = torch.tensor(np.array([[o, d] for (_, o, d, _, _) in rs]), dtype=torch.float32)
        try:
            normal_b, dist_b, _, _, check_b = LR.intersect_w_triangle(rays_t, tt)
            normal_bb, dist_bb, _, _, check_bb = LR.intersect_w_triangle_batch(rays_t, tt.unsqueeze(0))
        except Exception as e:
            ctx.violation('torch intersect_w_triangle raised %r' % e, rec0, {'api': 'torch', 'fn': 'intersect_w_triangle', 'what': 'raises'})
            for _ in rs:
                nxt(); nxt()
            continue
        normal_b = normal_b.numpy().astype(np.float64).reshape(-1, 2, 3)
        dist_b = dist_b.numpy().astype(np.float64).reshape(-1)
        check_b = check_b.numpy().reshape(-1)
        normal_bb = normal_bb.numpy().astype(np.float64).reshape(-1, 2, 3)
        check_bb = check_bb.numpy().reshape(-1)
        for i, (kind, o, d, s, t) in enumerate(rs):
            rec = dict(rec0, ray=[o.tolist(), d.tolist()], kind=kind)
            ctx.case((cls, kind, tuple(np.round(o, 6))), kind != 'parallel', rec)
            ctx.count('ray/' + kind)
            mt, mn = nxt(), nxt()
            # single-pair torch call
            n1, d1, _, _, c1 = LR.intersect_w_triangle(rays_t[i], tt)
            n1 = n1.numpy().astype(np.float64).reshape(2, 3)
            dabs = abs(float(d1.reshape(-1)[0])) if np.isfinite(float(d1.reshape(-1)[0])) else 0.0
            # float32: error of o + t d grows with |t| and with the conditioning 1/(n.d) of grazing rays
            tol = 5e-4 * max(1, scale, dabs) * (100 if kind == 'grazing' else 1)
            inside_margin = min(s, t, 1 - s - t)
            edge = abs(inside_margin) < 2e-3 or kind in ('parallel', 'grazing')
            if kind != 'parallel':
                if mt is not None:
                    corr('torch intersect_w_triangle', np.concatenate([n1[0], n1[1], [float(d1.reshape(-1)[0])]]), mt[:7], tol, rec)
                    if not edge and bool(c1.reshape(-1)[0]) != (mt[7] == 1.0):
                        ctx.alarm('correspondence', 'torch hit flag %s vs model %s for %s' % (bool(c1.reshape(-1)[0]), mt[7], rec))
                # batch == per pair
                if not (np.allclose(normal_b[i], n1, atol=tol, equal_nan=True) and np.allclose(normal_bb[i], n1, atol=tol, equal_nan=True)
                        and bool(check_b[i]) == bool(c1.reshape(-1)[0]) == bool(check_bb[i])):
                    ctx.violation('batched intersection differs from the single ray-triangle pair', rec,
                                  {'api': 'torch', 'fn': 'intersect_w_triangle_batch', 'what': 'batch_vs_pair'})
                hit, nv, dist = n1[0], n1[1], float(d1.reshape(-1)[0])
                if np.all(np.isfinite(hit)):
                    if np.linalg.norm(hit - (o + dist * d)) > tol * 4:
                        ctx.violation('torch hit point is not on the ray at the reported distance', rec,
                                      {'api': 'torch', 'fn': 'intersect_w_surface', 'what': 'hit_on_ray', 'kind': kind})
                    if abs(np.dot(nv, hit - tri[0])) > tol * 4 * max(1e-12, np.linalg.norm(nv)) * (1 + abs(dist)):
                        ctx.violation('torch hit point is not on the triangle plane', rec,
                                      {'api': 'torch', 'fn': 'intersect_w_surface', 'what': 'hit_on_plane', 'kind': kind})
                    if not edge and kind != 'behind' and bool(c1.reshape(-1)[0]) != (inside_margin > 0):
                        ctx.violation('torch hit flag %s but the point is %s the triangle (s=%.3f t=%.3f)'
                                      % (bool(c1.reshape(-1)[0]), 'inside' if inside_margin > 0 else 'outside', s, t), rec,
                                      {'api': 'torch', 'fn': 'is_it_on_triangle', 'what': 'flag', 'kind': kind})
                elif kind != 'grazing':
                    ctx.violation('torch intersection of a non-parallel ray is not finite', rec,
                                  {'api': 'torch', 'fn': 'intersect_w_surface', 'what': 'finite', 'kind': kind, 'class': cls})
            else:
                # parallel rays must be flagged (non-finite coordinates), not given coordinates.  A direction built orthogonal to a GENERIC
                # normal is parallel only up to float32 rounding (|n.d| ~ 1e-7), so a far-away hit (> 1e3 x the scene scale) is a correct
                # answer for the ray that was actually passed; exactly parallel rays are the subject of exact_parallel_cases()
                if np.all(np.isfinite(n1[0])) and np.linalg.norm(n1[0]) < 1e3 * scale:
                    ctx.violation('torch gives finite coordinates %s to a ray parallel to the plane' % n1[0].tolist(), rec,
                                  {'api': 'torch', 'fn': 'intersect_w_surface', 'what': 'parallel', 'kind': kind})
            # ---- NumPy
            try:
                nn1, nd1 = NR.intersect_w_surface(np.array([o, d]), tri.copy())
            except Exception as e:
                ctx.violation('numpy intersect_w_surface raised %r' % e, rec, {'api': 'numpy', 'fn': 'intersect_w_surface', 'what': 'raises'})
                continue
            nn1 = np.asarray(nn1, dtype=np.float64).reshape(2, 3)
            nd = float(np.asarray(nd1).reshape(-1)[0])
            if kind != 'parallel':
                ntol = 1e-8 * max(1, scale, abs(nd) if np.isfinite(nd) else 1) * (1e3 if kind == 'grazing' else 1)
                if mn is not None:
                    corr('numpy intersect_w_surface', np.concatenate([nn1[0], nn1[1], [nd]]), mn[:7], ntol, rec)
                hit, nv = nn1[0], nn1[1]
                if np.linalg.norm(nv) < 1e-9 or abs(np.dot(nv, e1)) > 1e-7 * np.linalg.norm(e1) or abs(np.dot(nv, e2)) > 1e-7 * np.linalg.norm(e2):
                    ctx.violation('numpy intersect_w_surface returns normal %s (not a non-zero vector perpendicular to the plane)' % nv.tolist(),
                                  rec, {'api': 'numpy', 'fn': 'intersect_w_surface', 'what': 'normal'})
                if np.linalg.norm(hit - (o + nd * d)) > ntol * 10 * (1 + abs(nd)):
                    tneg = float(np.dot(np.cross(tri[0] - tri[1], tri[2] - tri[1]), tri.mean(0) - o) /
                                 np.dot(np.cross(tri[0] - tri[1], tri[2] - tri[1]), d)) < 0
                    ctx.violation('numpy hit point is not on the ray at the reported distance %g (hit %s)' % (nd, hit.tolist()), rec,
                                  {'api': 'numpy', 'fn': 'intersect_w_surface', 'what': 'hit_on_ray', 'negative_parameter': tneg})
                if abs(np.dot(np.cross(e1, e2), hit - tri[0])) > ntol * 10 * np.linalg.norm(np.cross(e1, e2)) * (1 + abs(nd)):
                    ctx.violation('numpy hit point is not on the triangle plane', rec,
                                  {'api': 'numpy', 'fn': 'intersect_w_surface', 'what': 'hit_on_plane'})
                if not edge:
                    r = NR.intersect_w_triangle(np.array([o, d]), tri.copy())
                    flag = not (isinstance(r[0], int) and r[0] == 0)
                    if flag != (inside_margin > 0):
                        ctx.violation('numpy intersect_w_triangle flag %s but point is %s' % (flag, 'inside' if inside_margin > 0 else 'outside'),
                                      rec, {'api': 'numpy', 'fn': 'intersect_w_triangle', 'what': 'flag'})


def exact_parallel_cases(ctx):
    """rays EXACTLY parallel to an axis-aligned triangle's plane (n.d == 0 in floating point), offset from it and lying in it:
    they must be flagged (non-finite point, no hit flag) by every entry point of both APIs"""
    import odak.learn.raytracing as LR
    import odak.raytracing as NR
    for axis in range(3):
        for zc in (0.0, 2.0, -3.5):
            tri = np.zeros((3, 3))
            u, v = (axis + 1) % 3, (axis + 2) % 3
            tri[:, axis] = zc
            tri[0, u], tri[0, v] = -1.0, -1.0
            tri[1, u], tri[1, v] = 2.0, -1.0
            tri[2, u], tri[2, v] = -1.0, 2.0
            for off in (1.0, -0.5, 0.0):
                o = np.zeros(3); o[axis] = zc + off; o[u], o[v] = -0.2, -0.3       # inside the triangle's shadow
                for dd in ((1.0, 0.0), (0.0, 1.0), (0.6, 0.8)):
                    d = np.zeros(3); d[u], d[v] = dd
                    rec = {'class': 'exact_parallel', 'triangle': tri.tolist(), 'ray': [o.tolist(), d.tolist()], 'offset': off}
                    ctx.case(('exact_parallel', axis, zc, off, dd), True)
                    ctx.count('ray/exact_parallel' + ('_in_plane' if off == 0 else ''))
                    rt = torch.tensor(np.array([o, d]), dtype=torch.float32)
                    tt = torch.tensor(tri, dtype=torch.float32)
                    for name, call in (('intersect_w_triangle', lambda: LR.intersect_w_triangle(rt, tt)),
                                       ('intersect_w_triangle_batch', lambda: LR.intersect_w_triangle_batch(rt.unsqueeze(0), tt.unsqueeze(0)))):
                        nrm, dist, _, _, chk = call()
                        pt = nrm.reshape(-1, 2, 3)[0, 0].numpy()
                        if np.all(np.isfinite(pt)) or bool(chk.reshape(-1)[0]):
                            ctx.violation('torch %s gives a ray parallel to the plane the coordinates %s (hit flag %s) instead of flagging it'
                                          % (name, pt.tolist(), bool(chk.reshape(-1)[0])), rec,
                                          {'api': 'torch', 'fn': name, 'what': 'parallel', 'in_plane': off == 0})
                    nn, nd = NR.intersect_w_surface(np.array([o, d]), tri.copy())
                    pt = np.asarray(nn, dtype=np.float64).reshape(2, 3)[0]
                    if np.all(np.isfinite(pt)):
                        ctx.violation('numpy intersect_w_surface gives a ray parallel to the plane the coordinates %s' % pt.tolist(), rec,
                                      {'api': 'numpy', 'fn': 'intersect_w_surface', 'what': 'parallel', 'in_plane': off == 0})


def replay(ctx, rep):
    import odak.learn.raytracing as LR
    r = rep['replay']
    tri = torch.tensor(r['triangle'], dtype=torch.float32)
    n = LR.get_triangle_normal(tri)
    print('normal', n.tolist())
    if 'ray' not in r:
        return bool(torch.isfinite(n).all())
    normal, dist, _, _, check = LR.intersect_w_triangle(torch.tensor(r['ray'], dtype=torch.float32), tri)
    print('hit', normal.tolist(), 'distance', dist.tolist(), 'flag', check.tolist())
    return bool(torch.isfinite(n).all())
