"""Executable tie of lean/OdakModel/Generated/ColourTensors.lean (the output of harness/translate/colourtensors.py): every
regenerated tensor-level colour conversion is evaluated at Float by the driver (lean/OdakModel/Exec/OpsGenColour.lean, op `ct`) on
WHOLE IMAGES - batches of 1-3, non-square sizes, a single [3 x m x n] image, channel-first and channel-last Lab inputs (including
the ambiguous width-3 case), random and boundary colours - and compared, shape and every element, with the real function of /repo.
This validates at the same time the hand-written tensor semantics of lean/OdakModel/TensorPrelude.lean (reshape, permute, matmul,
broadcasting, max / gather ...) against torch.
A disagreement is a broken correspondence (translator or tensor semantics), reported as an alarm, never as a violation."""
import logging
import math
import warnings
import numpy as np
import torch
from ..lib.core import f2b, b2f

logging.disable(logging.WARNING)
warnings.filterwarnings('ignore')

FN = {'rgb_2_ycrcb': 0, 'ycrcb_2_rgb': 1, 'rgb_to_linear_rgb': 2, 'linear_rgb_to_rgb': 3, 'linear_rgb_to_xyz': 4,
      'xyz_to_linear_rgb': 5, 'rgb_to_hsv': 6, 'hsv_to_rgb': 7, 'srgb_to_lab': 8, 'lab_to_srgb': 9, 'second_to_third_stage': 10,
      'primaries_to_lms': 11, 'lms_to_primaries': 12}
BOUNDARY = [(0, 0, 0), (1, 1, 1), (1, 0, 0), (0, 1, 0), (0, 0, 1), (1, 1, 0), (0, 1, 1), (1, 0, 1), (0.5, 0.5, 0.5),
            (0.04045, 0.04045, 0.04045), (0.04046, 0.0031308, 0.0031309), (1, 0.5, 0.5), (0.5, 1, 0.5), (0.5, 0.5, 1),
            (0.3, 0.3, 0.7), (0.7, 0.3, 0.3), (0.2, 0.6, 0.6), (1e-4, 2e-4, 3e-4)]


def line(fn, extra, arr):
    a = np.asarray(arr, dtype=np.float64)
    toks = [str(FN[fn]), str(len(extra))] + [str(f2b(float(x))) for x in extra] + [str(a.ndim)] + [str(int(s)) for s in a.shape]
    toks += [str(f2b(float(x))) for x in a.reshape(-1)]
    return 'ct ' + ' '.join(toks)


def parse(out):
    toks = out.split()
    r = int(toks[0])
    shape = [int(t) for t in toks[1:1 + r]]
    data = np.array([b2f(t) for t in toks[1 + r:]], dtype=np.float64)
    if data.size != (int(np.prod(shape)) if shape else 1):
        raise ValueError('element count')
    return shape, data.reshape(shape)


def colour_image(rng, shape, channel_axis, kind):
    """float32 image of the given shape whose pixels are random colours mixed with the boundary colours"""
    n_pix = int(np.prod(shape)) // 3
    cols = []
    for _ in range(n_pix):
        if rng.random() < 0.35:
            cols.append(rng.choice(BOUNDARY))
        else:
            c = [rng.random() for _ in range(3)]
            if rng.random() < 0.2:
                c[rng.randrange(3)] = c[rng.randrange(3)]      # ties between channels
            cols.append(tuple(c))
    a = np.array(cols, dtype=np.float64)
    if kind == 'hsv':
        a[:, 0] = a[:, 0] * 2 * math.pi * 0.999
        for k in range(0, n_pix, 5):                            # exact sextant boundaries
            a[k, 0] = (k % 6) * math.pi / 3
    elif kind == 'lab':
        a = a * np.array([100.0, 160.0, 160.0]) - np.array([0.0, 80.0, 80.0])
    elif kind == 'ycrcb':
        pass
    rest = [s for i, s in enumerate(shape) if i != channel_axis]
    a = a.reshape(rest + [3])
    a = np.moveaxis(a, -1, channel_axis)
    return torch.from_numpy(np.ascontiguousarray(a.astype(np.float32)))


def compare(fn, got_shape, got, want, tol):
    """None if equal within tolerance, else a description"""
    w = want.detach().cpu().numpy().astype(np.float64)
    if list(w.shape) != list(got_shape):
        return 'shape: implementation %s vs regenerated definition %s' % (list(w.shape), list(got_shape))
    if fn == 'rgb_to_hsv':          # hue is an angle: compare modulo 2 pi, weighted by the saturation
        ax = w.ndim - 3
        wh, ws, wv = np.moveaxis(w, ax, 0)
        gh, gs, gv = np.moveaxis(got, ax, 0)
        dh = np.abs((gh - wh + math.pi) % (2 * math.pi) - math.pi) * np.maximum(ws, 0.0)
        d = max(float(np.max(dh)), float(np.max(np.abs(gs - ws))), float(np.max(np.abs(gv - wv))))
    else:
        fin = np.isfinite(w)
        if not np.array_equal(fin, np.isfinite(got)):
            return 'finiteness differs'
        d = float(np.max(np.abs(got[fin] - w[fin]))) if fin.any() else 0.0
    return None if d <= tol else 'values differ by %g (tolerance %g)' % (d, tol)


def check_generated_colour(ctx):
    import odak.learn.perception.color_conversion as CC
    rng = ctx.rng
    items = []            # (tag, fn, driver line, implementation result, tolerance, record)

    def add(fn, f, x, tol, layout, extra=()):
        try:
            want = f(x)
        except Exception as e:
            ctx.note('generated-colour tie: %s rejects a %s input %s: %r' % (fn, layout, list(x.shape), e))
            ctx.count('generated/rejected')
            return
        items.append(('%s %s' % (fn, layout), fn, line(fn, extra, x.numpy()), want, tol, {'fn': fn, 'layout': layout, 'shape': list(x.shape)}))
        ctx.case(('gen-colour', fn, layout, tuple(x.shape)), True)
        ctx.count('generated/%s %s' % (fn, layout))

    sizes = [(2, 3), (4, 5), (1, 4), (3, 1), (5, 2)]
    nchw = [('rgb_2_ycrcb', CC.rgb_2_ycrcb, 'rgb', 2e-5), ('ycrcb_2_rgb', CC.ycrcb_2_rgb, 'ycrcb', 2e-5),
            ('rgb_to_linear_rgb', CC.rgb_to_linear_rgb, 'rgb', 2e-6), ('linear_rgb_to_rgb', CC.linear_rgb_to_rgb, 'rgb', 2e-5),
            ('linear_rgb_to_xyz', CC.linear_rgb_to_xyz, 'rgb', 2e-5), ('xyz_to_linear_rgb', CC.xyz_to_linear_rgb, 'rgb', 2e-5),
            ('rgb_to_hsv', CC.rgb_to_hsv, 'rgb', 1e-4), ('hsv_to_rgb', CC.hsv_to_rgb, 'hsv', 2e-5)]
    reps = ctx.n(1, 4)
    for _ in range(reps):
        for fn, f, kind, tol in nchw:
            for k in (1, 2, 3):
                m, n = rng.choice(sizes)
                add(fn, f, colour_image(rng, [k, 3, m, n], 1, kind), tol, 'batch of %d' % k)
            m, n = rng.choice(sizes)
            add(fn, f, colour_image(rng, [3, m, n], 0, kind), tol, 'single image')
        # Lab pair: channel-first, channel-last, and the width-3 channel-first image the source reads as channel-last
        for fn, f, kind, tol in (('srgb_to_lab', CC.srgb_to_lab, 'rgb', 2e-3), ('lab_to_srgb', CC.lab_to_srgb, 'lab', 2e-4)):
            for (m, n) in (rng.choice(sizes), (4, 5), (3, 1)):
                add(fn, f, colour_image(rng, [3, m, n], 0, kind), tol, 'channel-first')
                add(fn, f, colour_image(rng, [m, n, 3], 2, kind), tol, 'channel-last')
            add(fn, f, colour_image(rng, [3, 4, 3], 0, kind), tol, 'channel-first 3 wide')
        # display_color_hvs
        prim = torch.eye(3).repeat_interleave(101, dim=1)[:, :301] * 0.5 + \
            torch.rand(3, 301, generator=torch.Generator().manual_seed(ctx.seed + 17)) * 0.5
        hvs = CC.display_color_hvs(read_spectrum='tensor', primaries_spectrum=prim)
        L = hvs.lms_tensor.detach().numpy().astype(np.float64).reshape(-1)
        P = hvs.lms_tensor.pinverse().detach().numpy().astype(np.float64).reshape(-1)
        scale = float(np.max(np.abs(L)))
        for k in (1, 2, 3):
            m, n = rng.choice(sizes)
            x = colour_image(rng, [k, 3, m, n], 1, 'rgb')
            add('second_to_third_stage', hvs.second_to_third_stage, x, 2e-5, 'batch of %d' % k)
            add('primaries_to_lms', hvs.primaries_to_lms, x, 2e-5 * max(1.0, scale), 'batch of %d' % k, extra=L)
            add('lms_to_primaries', hvs.lms_to_primaries, x * scale, 2e-4 * max(1.0, float(np.max(np.abs(P))) * scale),
                'batch of %d' % k, extra=P)
    if not (ctx.drv_ok and items):
        return
    outs = ctx.model.ask([it[2] for it in items])
    bad = 0
    for (tag, fn, _, want, tol, rec), out in zip(items, outs):
        try:
            shape, got = parse(out)
            msg = compare(fn, shape, got, want, tol)
        except (ValueError, IndexError) as e:
            msg = 'driver answer unreadable (%s): %s' % (e, out[:80])
        if msg is not None:
            bad += 1
            if bad <= 5:
                ctx.alarm('correspondence', 'regenerated tensor-level %s: %s (%s)' % (tag, msg, rec))
    ctx.extra.setdefault('generated_definitions_checked', sorted(set(it[0] for it in items)))
