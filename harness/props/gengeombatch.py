"""Executable tie of lean/OdakModel/Generated/GeometryBatch.lean (the output of harness/translate/geombatch.py): the regenerated
BATCHED definitions are evaluated at Float by the driver (lean/OdakModel/Exec/OpsGenGeomBatch.lean) and compared, element by element and
list by list, with the real batched functions of /repo: batches of 1-4 rays x 1-4 triangles; rays that hit, miss, point away, graze, are
parallel up to rounding and EXACTLY parallel (axis-aligned triangles), mixed in one batch.

Values are compared with the float32 tolerance of C10.py; hit flags and the lists that depend on them only where the float64 reference
(C10.line_triangle) puts the hit point away from the triangle's edges (or where the ray is exactly parallel: no hit in any arithmetic).
A disagreement is a broken correspondence (translator or model), reported as an alarm, never as a violation."""
import logging
import warnings
import numpy as np
import torch
from ..lib.core import f2b, b2f

logging.disable(logging.WARNING)
warnings.filterwarnings('ignore')


def fl(xs):
    return ' '.join(str(f2b(float(x))) for x in np.asarray(xs, dtype=np.float64).reshape(-1))


def t32(x):
    return torch.tensor(np.asarray(x), dtype=torch.float32)


def as64(t):
    return np.asarray(t.detach().numpy() if isinstance(t, torch.Tensor) else t, dtype=np.float64)


def axis_triangles(rng, k):
    """triangles in planes orthogonal to one coordinate axis: in-plane directions are exactly parallel to all of them"""
    axis = rng.randrange(3)
    u, v = (axis + 1) % 3, (axis + 2) % 3
    out = []
    for _ in range(k):
        tri = np.zeros((3, 3))
        tri[:, axis] = rng.choice([0.0, 2.0, -3.5, 1.25])
        c = (rng.choice([0.0, 0.5, -1.0]), rng.choice([0.0, 0.25, 1.0]))
        tri[0, u], tri[0, v] = c[0] - 1.0, c[1] - 1.0
        tri[1, u], tri[1, v] = c[0] + 2.0, c[1] - 1.0
        tri[2, u], tri[2, v] = c[0] - 1.0, c[1] + 2.0
        out.append(tri)
    return axis, out


def make_case(rng, m, k, mode):
    """-> tris [k,3,3], rays [m,2,3] (float32-representable), kinds"""
    from . import C10
    rays, kinds = [], []
    if mode == 'exact':
        axis, tl = axis_triangles(rng, k)
        u, v = (axis + 1) % 3, (axis + 2) % 3
        for i in range(m):
            tri = tl[rng.randrange(k)]
            o = np.zeros(3)
            if rng.random() < 0.5:          # exactly parallel to every triangle of the batch (off the planes or inside one)
                o[axis] = tri[0, axis] + rng.choice([1.0, -0.5, 0.0])
                o[u], o[v] = -0.25, -0.5
                d = np.zeros(3)
                d[u], d[v] = rng.choice([(1.0, 0.0), (0.0, 1.0), (0.6, 0.8)])
                kinds.append('exact_parallel')
            else:                           # straight through, along the axis
                o[axis] = tri[0, axis] + rng.choice([1.5, -2.0])
                o[u], o[v] = tri[0, u] + rng.choice([0.5, 0.75, -2.0, 5.0]), tri[0, v] + rng.choice([0.5, 1.0, -1.0])
                d = np.zeros(3)
                d[axis] = 1.0 if rng.random() < 0.5 else -1.0
                kinds.append('through')
            rays.append([o, d])
    else:
        tl = [C10.triangles(rng)[1] for _ in range(k)]
        for i in range(m):
            tri = tl[rng.randrange(k)]
            while True:
                kind, o, d, s, t = C10.rays_for(rng, tri, 1)[0]
                if mode == 'mixed' or kind in ('inside', 'outside', 'behind'):
                    break
            rays.append([o, d])
            kinds.append(kind)
    tris = np.array(tl, dtype=np.float32).astype(np.float64)
    rays = np.array(rays, dtype=np.float32).astype(np.float64)
    return tris, rays, kinds


def pair_info(rays, tris, kinds):
    """per (j, i): ('exact', None) exactly parallel / ('safe', margin, t) flag decided away from the edges / ('unsafe',)"""
    from . import C10
    k, m = tris.shape[0], rays.shape[0]
    info = [[None] * m for _ in range(k)]
    for j in range(k):
        n = np.cross(tris[j, 0] - tris[j, 1], tris[j, 2] - tris[j, 1])
        nn = np.linalg.norm(n)
        for i in range(m):
            o, d = rays[i]
            if nn > 0 and float(np.dot(n, d)) == 0.0 and float(np.dot(n.astype(np.float32), d.astype(np.float32))) == 0.0 and \
                    sum(1 for c in n if c != 0) == 1:
                info[j][i] = ('exact',)
                continue
            r = C10.line_triangle(o, d, tris[j])
            scale = max(1.0, float(np.max(np.abs(tris[j]))), float(np.max(np.abs(o))))
            if r is None or abs(float(np.dot(r[2], d))) < 2e-2 or abs(r[3]) < 5e-3 or abs(r[0]) > 50 * scale or nn < 1e-6 * scale ** 2 \
                    or kinds[i] in ('parallel', 'grazing'):
                info[j][i] = ('unsafe', r)
            else:
                info[j][i] = ('safe', r[3], r[0])
    return info


class Tie:
    def __init__(self, ctx):
        self.ctx, self.items = ctx, []

    def add(self, tag, line, check, rec):
        """check(tokens of the driver's answer) -> None or a text describing the disagreement"""
        self.items.append((tag, line, check, rec))
        self.ctx.case(('genbatch', tag, line[:80]), True)
        self.ctx.count('generated-batch/' + tag)

    def run(self):
        ctx = self.ctx
        if not ctx.drv_ok or not self.items:
            return
        outs = ctx.model.ask([it[1] for it in self.items])
        bad = 0
        for (tag, line, check, rec), out in zip(self.items, outs):
            try:
                msg = check(out.split())
            except (ValueError, IndexError) as e:
                msg = 'unreadable answer %r (%r)' % (out[:80], e)
            if msg:
                bad += 1
                if bad <= 6:
                    ctx.alarm('correspondence', 'generated batch %s: %s (%s)' % (tag, msg, rec))


def floats(toks):
    return np.array([b2f(t) for t in toks], dtype=np.float64)


def near(got, want, tol):
    got, want = np.asarray(got, dtype=np.float64).reshape(-1), np.asarray(want, dtype=np.float64).reshape(-1)
    if got.shape != want.shape:
        return False
    fin = np.isfinite(want)
    return np.array_equal(np.isfinite(got), fin) and bool(np.all(np.abs(got[fin] - want[fin]) <= tol))


def groups(toks):
    """`G c1 .. cG numbers...` -> (sizes, numbers, rest of the tokens) for `width` numbers per row unknown here"""
    g = int(toks[0])
    sizes = [int(x) for x in toks[1:1 + g]]
    return sizes, toks[1 + g:]


def one_case(ctx, tie, LR, NR, c, mode):
    rng = ctx.rng
    m, k = 1 + c % 4, 1 + (c // 4) % 4
    tris, rays, kinds = make_case(rng, m, k, mode)
    info = pair_info(rays, tris, kinds)
    rt, tt = t32(rays), t32(tris)
    rec = {'m': m, 'k': k, 'mode': mode, 'kinds': kinds, 'rays': rays.tolist(), 'triangles': tris.tolist()}
    head = '%d %d %s %s' % (m, k, fl(rays), fl(tris))
    ctx.count('generated-batch/%d rays x %d triangles' % (m, k))
    for kd in kinds:
        ctx.count('generated-batch/ray ' + kd)
    scale = max(1.0, float(np.max(np.abs(tris))), float(np.max(np.abs(rays[:, 0]))))

    def ptol(j, i, t=None):
        inf = info[j][i]
        tt_ = abs(inf[2]) if inf[0] == 'safe' else 1.0
        return 5e-4 * max(scale, tt_) * (1 if inf[0] in ('safe', 'exact') else 1e9)      # unsafe pairs: finiteness only where safe

    # ---- get_triangle_normal, center_of_triangle on the batch of triangles
    nrm = as64(LR.get_triangle_normal(tt)).reshape(k, 2, 3)
    cen = as64(LR.center_of_triangle(tt)).reshape(k, 3)
    want = np.concatenate([np.concatenate([nrm[j].reshape(-1), cen[j]]) for j in range(k)])
    degenerate = [np.linalg.norm(np.cross(tris[j, 0] - tris[j, 1], tris[j, 2] - tris[j, 1])) < 1e-5 * scale ** 2 for j in range(k)]
    if not any(degenerate):
        tie.add('get_triangle_normal [k,3,3]', 'gb_trinormal %d %s' % (k, fl(tris)),
                lambda tk, want=want: None if near(floats(tk), want, 5e-4 * scale) else 'implementation %s vs generated %s' % (want.tolist(), floats(tk).tolist()), rec)
    # ---- intersect_w_surface_batch
    sb, sd = LR.intersect_w_surface_batch(rt, tt)
    sb, sd = as64(sb), as64(sd)
    ok_shape = sb.shape == (k, m, 2, 3) and sd.shape == (k, m)

    def chk_surface(tk, sb=sb, sd=sd):
        got = floats(tk).reshape(k, m, 7)
        for j in range(k):
            for i in range(m):
                if info[j][i][0] == 'unsafe':
                    continue
                w = np.concatenate([sb[j, i].reshape(-1), [sd[j, i]]])
                if not near(got[j, i], w, ptol(j, i)):
                    return 'element [%d][%d]: implementation %s vs generated %s' % (j, i, w.tolist(), got[j, i].tolist())
        return None
    if ok_shape:
        tie.add('intersect_w_surface_batch', 'gb_surface ' + head, chk_surface, rec)
    else:
        ctx.alarm('correspondence', 'intersect_w_surface_batch returns shapes %s %s for %d triangles x %d rays' % (sb.shape, sd.shape, k, m))
    # ---- is_it_on_triangle_batch on the implementation's own hit points
    pts = sb[:, :, 0]
    if ok_shape and np.all(np.isfinite(pts)):
        fb = LR.is_it_on_triangle_batch(t32(pts), tt).numpy().reshape(k, m)

        def chk_ontri(tk, fb=fb):
            got = floats(tk).reshape(k, m)
            for j in range(k):
                for i in range(m):
                    if info[j][i][0] == 'safe' and bool(got[j, i]) != bool(fb[j, i]):
                        return 'flag [%d][%d]: implementation %s vs generated %s' % (j, i, bool(fb[j, i]), got[j, i])
            return None
        tie.add('is_it_on_triangle_batch', 'gb_ontri %d %d %s %s' % (m, k, fl(pts), fl(tris)), chk_ontri, rec)
    # ---- intersect_w_triangle_batch: normal, flags, the three grouped lists
    nb, db, rb, nrb, cb = LR.intersect_w_triangle_batch(rt, tt)
    nb, cb = as64(nb), cb.numpy().reshape(k, m)
    decided = all(info[j][i][0] in ('safe', 'exact') for j in range(k) for i in range(m))

    def chk_triangle(tk, nb=nb, cb=cb):
        got = floats(tk).reshape(k, m, 7)
        for j in range(k):
            for i in range(m):
                if info[j][i][0] == 'unsafe':
                    continue
                if not near(got[j, i, :6], nb[j, i].reshape(-1), ptol(j, i)):
                    return 'normal [%d][%d]: implementation %s vs generated %s' % (j, i, nb[j, i].tolist(), got[j, i, :6].tolist())
                if bool(got[j, i, 6]) != bool(cb[j, i]):
                    return 'flag [%d][%d]: implementation %s vs generated %s' % (j, i, bool(cb[j, i]), got[j, i, 6])
        return None
    tie.add('intersect_w_triangle_batch', 'gb_triangle ' + head, chk_triangle, rec)
    if decided:
        ctx.count('generated-batch/lists compared')
        for which, lst, width in ((0, rb, 6), (1, nrb, 6), (2, db, 1)):
            wsz = [int(g.reshape(-1, width).shape[0]) for g in lst]
            wnum = np.concatenate([as64(g).reshape(-1) for g in lst]) if lst else np.zeros(0)

            def chk_lists(tk, wsz=wsz, wnum=wnum, which=which):
                sizes, rest = groups(tk)
                if sizes != wsz:
                    return 'list %d: group sizes implementation %s vs generated %s' % (which, wsz, sizes)
                if not near(floats(rest), wnum, 5e-4 * scale * 50):
                    return 'list %d: implementation %s vs generated %s' % (which, wnum.tolist(), floats(rest).tolist())
                return None
            tie.add('intersect_w_triangle_batch lists', 'gb_tri_lists %d %s' % (which, head), chk_lists, dict(rec, list=which))
    # ---- one triangle of the batch with all rays: intersect_w_surface, intersect_w_triangle (torch), NumPy intersect_w_surface
    j = rng.randrange(k)
    one = '%d %s %s' % (m, fl(rays), fl(tris[j]))
    s1, d1 = LR.intersect_w_surface(rt, tt[j])
    s1, d1 = as64(s1).reshape(m, 2, 3), as64(d1).reshape(m)

    def chk_rays_surface(tk, s1=s1, d1=d1, j=j, tolf=1.0):
        got = floats(tk).reshape(m, 7)
        for i in range(m):
            if info[j][i][0] == 'unsafe':
                continue
            w = np.concatenate([s1[i].reshape(-1), [d1[i]]])
            if not near(got[i], w, ptol(j, i) * tolf):
                return 'ray %d: implementation %s vs generated %s' % (i, w.tolist(), got[i].tolist())
        return None
    tie.add('intersect_w_surface [m,2,3] torch', 'gb_rays_surface 1 ' + one, chk_rays_surface, rec)
    if not degenerate[j]:
        n1, dn = NR.intersect_w_surface(rays.copy(), tris[j].copy())
        n1, dn = np.asarray(n1, dtype=np.float64).reshape(m, 2, 3), np.asarray(dn, dtype=np.float64).reshape(m)
        tie.add('intersect_w_surface [m,2,3] numpy', 'gb_rays_surface 0 ' + one,
                lambda tk, n1=n1, dn=dn, j=j: chk_rays_surface(tk, n1, dn, j, 1e-4), rec)
    n2, d2, ir, inr, c2 = LR.intersect_w_triangle(rt, tt[j])
    n2, d2, c2 = as64(n2).reshape(m, 2, 3), as64(d2).reshape(m), c2.numpy().reshape(m)
    ir, inr = as64(ir).reshape(-1, 6), as64(inr).reshape(-1, 6)
    row_decided = all(info[j][i][0] in ('safe', 'exact') for i in range(m))

    def chk_rays_triangle(tk, n2=n2, d2=d2, c2=c2, ir=ir, inr=inr, j=j, row_decided=row_decided):
        got = floats(tk[:8 * m]).reshape(m, 8)
        for i in range(m):
            if info[j][i][0] == 'unsafe':
                continue
            w = np.concatenate([n2[i].reshape(-1), [d2[i]]])
            if not near(got[i, :7], w, ptol(j, i)):
                return 'ray %d: implementation %s vs generated %s' % (i, w.tolist(), got[i, :7].tolist())
            if bool(got[i, 7]) != bool(c2[i]):
                return 'flag of ray %d: implementation %s vs generated %s' % (i, bool(c2[i]), got[i, 7])
        if row_decided:
            sz1, rest = groups(tk[8 * m:])
            a = floats(rest[:6 * sz1[0]])
            sz2, rest2 = groups(rest[6 * sz1[0]:])
            b = floats(rest2)
            if sz1 != [ir.shape[0]] or sz2 != [inr.shape[0]]:
                return 'intersecting rays / normals: %d / %d rows in the implementation, %s / %s generated' % (ir.shape[0], inr.shape[0], sz1, sz2)
            if not near(a, ir, 5e-4 * scale * 50) or not near(b, inr, 5e-4 * scale * 50):
                return 'intersecting rays / normals differ: %s %s vs generated %s %s' % (ir.tolist(), inr.tolist(), a.tolist(), b.tolist())
        return None
    tie.add('intersect_w_triangle [m,2,3] x one triangle', 'gb_rays_triangle ' + one, chk_rays_triangle, rec)
    # ---- reflect on the batch (normals = the returned surface normals of triangle j), both APIs
    nrmj = nb[j]
    if np.all(np.isfinite(nrmj)):
        want_t = as64(LR.reflect(rt, t32(nrmj))).reshape(m, 6)
        want_n = np.asarray(NR.reflect(rays.copy(), nrmj.copy()), dtype=np.float64).reshape(m, 6)
        line = '%d %s %s' % (m, fl(rays), fl(nrmj))
        tie.add('reflect [n,2,3] torch', 'gb_reflect 1 ' + line,
                lambda tk, w=want_t: None if near(floats(tk), w, 5e-4 * scale) else 'implementation %s vs generated %s' % (w.tolist(), floats(tk).tolist()), rec)
        tie.add('reflect [n,2,3] numpy', 'gb_reflect 0 ' + line,
                lambda tk, w=want_n: None if near(floats(tk), w, 1e-9 * scale) else 'implementation %s vs generated %s' % (w.tolist(), floats(tk).tolist()), rec)
        # mixed sizes: all rays at ONE normal, ONE ray at all normals
        i0 = rng.randrange(m)
        for which, many, single, call_t, call_n in (
                (0, rays, nrmj[i0], lambda: LR.reflect(rt, t32(nrmj[i0])), lambda: NR.reflect(rays.copy(), nrmj[i0].copy())),
                (1, nrmj, rays[i0], lambda: LR.reflect(rt[i0], t32(nrmj)), lambda: NR.reflect(rays[i0].copy(), nrmj.copy()))):
            line = '%d %d %s %s' % (which, m, fl(many), fl(single))
            wt_, wn_ = as64(call_t()).reshape(m, 6), np.asarray(call_n(), dtype=np.float64).reshape(m, 6)
            tie.add('reflect mixed sizes torch', 'gb_reflect1 1 ' + line,
                    lambda tk, w=wt_: None if near(floats(tk), w, 5e-4 * scale) else 'implementation %s vs generated %s' % (w.tolist(), floats(tk).tolist()), rec)
            tie.add('reflect mixed sizes numpy', 'gb_reflect1 0 ' + line,
                    lambda tk, w=wn_: None if near(floats(tk), w, 1e-9 * scale) else 'implementation %s vs generated %s' % (w.tolist(), floats(tk).tolist()), rec)
    # ---- intersect_w_circle with the batch of rays (plane of triangle j, centre = centroid), both APIs
    if not degenerate[j] and all(info[j][i][0] == 'safe' for i in range(m)):
        centre = np.asarray(tris[j].mean(0), dtype=np.float32).astype(np.float64)
        radius = float(np.float32(rng.choice([0.3, 3.0, 30.0]) * max(1e-3, float(np.max(np.abs(tris[j]))))))
        hit = s1[:, 0]
        if np.all(np.abs(np.linalg.norm(hit - centre, axis=1) - radius) > 1e-2 * max(scale, radius)):
            cn, cd = LR.intersect_w_circle(rt, [tt[j], t32(centre), t32([radius])])
            wt = np.concatenate([as64(cn).reshape(m, 6), as64(cd).reshape(m, 1)], axis=1)
            nn_, nd_ = NR.intersect_w_circle(rays.copy(), [tris[j].copy(), centre.copy(), radius])
            wn = np.concatenate([np.asarray(nn_, dtype=np.float64).reshape(m, 6), np.asarray(nd_, dtype=np.float64).reshape(m, 1)], axis=1)
            line = '%d %s %s %s %d' % (m, fl(rays), fl(tris[j]), fl(centre), f2b(radius))
            tol = 5e-4 * max(scale, max(abs(info[j][i][2]) for i in range(m)))
            tie.add('intersect_w_circle [m,2,3] torch', 'gb_circle 1 ' + line,
                    lambda tk, w=wt, tol=tol: None if near(floats(tk), w, tol) else 'implementation %s vs generated %s' % (w.tolist(), floats(tk).tolist()), rec)
            tie.add('intersect_w_circle [m,2,3] numpy', 'gb_circle 0 ' + line,
                    lambda tk, w=wn, tol=tol: None if near(floats(tk), w, tol * 1e-4) else 'implementation %s vs generated %s' % (w.tolist(), floats(tk).tolist()), rec)
    # ---- NumPy intersect_w_triangle (one ray, one triangle)
    i = rng.randrange(m)
    if not degenerate[j] and info[j][i][0] == 'safe':
        r = NR.intersect_w_triangle(rays[i].copy(), tris[j].copy())
        flag = not (isinstance(r[0], int) and r[0] == 0)
        w = np.concatenate([[1.0], np.asarray(r[0], dtype=np.float64).reshape(-1), np.asarray(r[1], dtype=np.float64).reshape(-1)]) if flag else np.array([0.0])
        tie.add('intersect_w_triangle numpy', 'gb_np_triangle %s %s' % (fl(rays[i]), fl(tris[j])),
                lambda tk, w=w, tol=1e-8 * max(scale, abs(info[j][i][2])): None if near(floats(tk), w, tol) else
                'implementation %s vs generated %s' % (w.tolist(), floats(tk).tolist()), rec)


def check_generated_batches(ctx):
    import odak.learn.raytracing as LR
    import odak.raytracing as NR
    rng = ctx.rng
    tie = Tie(ctx)
    modes = ['mixed', 'safe', 'exact', 'safe']
    for c in range(ctx.n(48, 400)):
        one_case(ctx, tie, LR, NR, c, modes[(c // 16 + c) % 4])
    mirror_ties(ctx, tie)
    tie.run()
    ctx.extra.setdefault('generated_batch_definitions_checked', sorted(set(it[0] for it in tie.items)))


def mirror_ties(ctx, tie):
    """planar_mesh.mirror against the regenerated `mirrorT` evaluated on the mesh's own triangles (get_triangles)"""
    from odak.learn.raytracing.mesh import planar_mesh
    from . import C10
    rng = ctx.rng
    for c in range(ctx.n(16, 120)):
        n0, n1 = 2 + c % 2, 2 + (c // 2) % 2
        size = [rng.uniform(1, 4), rng.uniform(1, 4)]
        heights = np.array([[rng.uniform(-0.1, 0.1) * min(size) for _ in range(n1)] for _ in range(n0)]) if c % 3 else np.zeros((n0, n1))
        angles = [rng.uniform(-20, 20) if c % 4 else 0.0 for _ in range(3)]
        offset = [rng.uniform(-1, 1), rng.uniform(-1, 1), rng.uniform(3, 6)]
        mesh = planar_mesh(size=torch.tensor(size, dtype=torch.float32), number_of_meshes=torch.tensor([n0, n1]),
                           angles=torch.tensor(angles, dtype=torch.float32), offset=torch.tensor(offset, dtype=torch.float32),
                           heights=torch.tensor(heights.reshape(n0, n1, 1), dtype=torch.float32))
        tris = as64(mesh.get_triangles())
        k = tris.shape[0]
        real = [j for j in range(k) if np.linalg.norm(np.cross(tris[j, 1] - tris[j, 0], tris[j, 2] - tris[j, 0])) > 1e-9]
        m = 1 + c % 4
        rays, kinds = [], []
        for i in range(m):
            kind = ['hit', 'miss', 'hit', 'away', 'hit'][(c + i) % 5]
            tr = tris[real[rng.randrange(len(real))]]
            a, b = rng.uniform(0.15, 0.6), rng.uniform(0.15, 0.3)
            target = tr[0] + a * (tr[1] - tr[0]) + b * (tr[2] - tr[0])
            if kind == 'miss':
                target = target + np.array([3 * size[0], 2 * size[1], 0.0])
            o = target + np.array([rng.uniform(-1, 1), rng.uniform(-1, 1), -rng.uniform(2, 4)])
            d = (target - o) / np.linalg.norm(target - o)
            if kind == 'away':
                d = -d
            rays.append([o, d]); kinds.append(kind)
        rays = np.array(rays, dtype=np.float32).astype(np.float64)
        info = pair_info(rays, tris[real], kinds)
        if not all(x[0] == 'safe' for row in info for x in row):
            ctx.count('generated-batch/mirror skipped (a hit too close to an edge)')
            continue
        out_r, out_n = mesh.mirror(t32(rays))
        out_r, out_n = as64(out_r).reshape(-1, 6), as64(out_n).reshape(-1, 6)
        scale = max(1.0, float(np.max(np.abs(tris))), float(np.max(np.abs(rays))))
        rec = {'mesh': {'size': size, 'nodes': [n0, n1], 'angles': angles, 'offset': offset, 'heights': heights.tolist()},
               'rays': rays.tolist(), 'kinds': kinds}

        def chk(tk, out_r=out_r, out_n=out_n, scale=scale):
            s1, rest = groups(tk)
            a = floats(rest[:6 * s1[0]])
            s2, rest2 = groups(rest[6 * s1[0]:])
            b = floats(rest2)
            if s1 != [out_r.shape[0]] or s2 != [out_n.shape[0]]:
                return 'mirror returns %d rays / %d normals, generated %s / %s' % (out_r.shape[0], out_n.shape[0], s1, s2)
            if not near(a, out_r, 5e-4 * scale * 20) or not near(b, out_n, 5e-4 * scale * 20):
                return 'mirror: implementation %s %s vs generated %s %s' % (out_r.tolist(), out_n.tolist(), a.tolist(), b.tolist())
            return None
        tie.add('planar_mesh.mirror', 'gb_mirror %d %d %s %s' % (m, k, fl(rays), fl(tris)), chk, rec)
        ctx.count('generated-batch/mirror %d rays x %d triangles, %d reflected' % (m, k, out_r.shape[0]))
