"""C01 – propagation conserves energy and never creates it.
Correspondence: full complex output of propagate_beam (both APIs, AS / TF / BL / IR) and kernel moduli vs the Lean
model run at Float.  Monitors: energy ratios on the implementation's own output."""
import math
import numpy as np
import torch
from . import wavelib as W

TRUSTED = ['numpy.fft.fft2 / torch.fft.fft2 compute the DFT that OdakModel/Fourier.lean defines (validated numerically on every '
           'generated shape through the full-pipeline correspondence)',
           'the kernels of both APIs are regenerated from the source on every run (translate/wavekernels.py -> Generated/WaveKernels.lean) and proved equal '
           'to the model kernels (Lemmas/GenKernels.lean); the translator (AST patterns for linspace / meshgrid / exp(1j ...) / masks) is trusted and is '
           'validated by running the regenerated kernels at Float against get_*_kernel',
           'the propagation pipelines (order of FFTs, shifts and multiplications) are modelled by hand (OdakModel/Propagate.lean) and tied by correspondence']
ASSUMPTIONS = ['all grid frequencies propagating: dx >= lambda/sqrt(2) (generated with a 3% margin; the exact boundary is a monitor class)',
               'torch kernels are float32: tolerance 5e-4 (NumPy float64: 1e-9)']


def run(ctx):
    rng = ctx.rng
    ctx.rule = ('random complex fields (gauss/delta/const/real) on shape classes covering every parity, non-square and 1-pixel '
                'sides, z in {0, near, far, negative}, dx >= lambda/sqrt2, both APIs, methods AS/TF/BL/IR; non-trivial = '
                'non-zero field with z != 0; distinct by (api, method, shape, z-class, field kind)')
    cases = []
    reps = ctx.n(2, 5)
    for (n, m) in W.shapes(ctx):
        for api in ('torch', 'numpy'):
            for meth in ('as', 'tf', 'bl', 'ir'):
                for _ in range(reps):
                    if ctx.quick and meth == 'ir' and (n * m > 36 or rng.random() < 0.5):
                        continue
                    for _try in range(20):
                        dx, lam, z, zc = W.rand_optics(rng)
                        if meth == 'ir' and zc == 'zero':
                            continue
                        if meth == 'bl' and not W.bl_margin_ok(n, m, dx, lam, z, api):
                            continue
                        break
                    else:
                        continue
                    kind = rng.choice(['gauss', 'gauss', 'delta', 'const', 'real'])
                    u = W.rand_field(rng, n, m, kind)
                    cases.append((api, meth, n, m, dx, lam, z, zc, kind, u))
    lines = [W.model_line(c[0], c[1], c[9], c[4], c[5], c[6]) for c in cases]
    outs = ctx.model.ask(lines) if ctx.drv_ok else [None] * len(cases)
    worst = {}
    for c, o in zip(cases, outs):
        api, meth, n, m, dx, lam, z, zc, kind, u = c
        rec = {'api': api, 'method': meth, 'n': n, 'm': m, 'dx': dx, 'lam': lam, 'z': z, 'field': kind,
               'u': [[v.real, v.imag] for v in u.reshape(-1)]}
        try:
            r = W.impl(api, meth, u, dx, lam, z)
        except Exception as e:
            ctx.violation('propagate_beam raised %r' % e, rec, {'api': api, 'method': meth, 'what': 'raises'})
            continue
        ctx.case((api, meth, n, m, zc, kind), zc != 'zero', {k: v for k, v in rec.items() if k != 'u'})
        ctx.count('%s/%s/%s/%s' % (api, meth, zc, 'odd' if (n % 2 or m % 2) else 'even'))
        scale = max(1.0, float(np.max(np.abs(u))))
        if o is not None:
            mo = W.dec_field(o, n, m)
            d = W.maxdiff(r, mo)
            worst[(api, meth)] = max(worst.get((api, meth), 0.0), d)
            # float32 conditioning of the torch impulse-response chirp exp(i k r^2 / 2z): a phase of size phi carries an absolute error
            # of about phi * eps32 per operation, so the comparison with the float64 model is widened by that amount (matters for |z| << 1)
            extra = 0.0
            if meth == 'ir' and api == 'torch' and z != 0:
                phimax = (2 * math.pi / lam) / (2 * abs(z)) * ((n * dx) ** 2 + (m * dx) ** 2)
                extra = 32 * 6e-8 * phimax * max(1.0, float(np.max(np.abs(mo))))
            if not d <= W.tol(api) * scale * (10 if meth == 'ir' else 1) + extra:
                ctx.alarm('correspondence', 'model and implementation differ by %.3g for %s %s %dx%d z=%g dx=%g'
                          % (d, api, meth, n, m, z, dx))
        # ---- conclusion monitors on the implementation's output
        e0, e1 = W.energy(u), W.energy(r)
        etol = 2e-3 if api == 'torch' else 1e-9
        if meth in ('as', 'tf'):
            if not (np.isfinite(e1) and abs(e1 - e0) <= etol * max(e0, 1e-12)):
                ctx.violation('%s %s does not conserve energy: in %.9g out %.9g (%dx%d z=%g dx=%g lam=%g)'
                              % (api, meth, e0, e1, n, m, z, dx, lam), rec,
                              {'api': api, 'method': meth, 'what': 'energy_conservation'})
        if meth == 'bl':
            if not (np.isfinite(e1) and e1 <= e0 * (1 + etol) + 1e-12):
                ctx.violation('%s band-limited AS creates energy: in %.9g out %.9g' % (api, e0, e1), rec,
                              {'api': api, 'method': meth, 'what': 'energy_created'})
            else:
                # applying the same band limit a second time removes nothing more:  P_z(P_{-z}... use z then -z: the
                # mask depends on z^2, the phases cancel on the band -> second pass must keep the energy
                r2 = W.impl(api, meth, r, dx, lam, z)
                e2 = W.energy(r2)
                if not abs(e2 - e1) <= etol * max(e1, 1e-12) + 1e-12:
                    ctx.violation('%s band limit applied twice removes more energy: %.9g -> %.9g' % (api, e1, e2), rec,
                                  {'api': api, 'method': meth, 'what': 'band_limit_not_idempotent'})
    ctx.extra['max_model_impl_difference'] = {'%s/%s' % k: v for k, v in worst.items()}

    # ---- binary Fourier-plane apertures can only remove energy (torch `aperture` argument), twice = once
    for (n, m) in [(4, 4), (5, 7), (6, 3), (8, 8)] + ([(a, b) for a in (3, 5, 9) for b in (4, 7)] if not ctx.quick else []):
        for meth in ('as', 'tf'):
            dx, lam, z, zc = W.rand_optics(rng)
            u = W.rand_field(rng, n, m, 'gauss')
            A = np.array([[1.0 if rng.random() < 0.6 else 0.0 for _ in range(m)] for _ in range(n)])
            At = torch.from_numpy(A)
            r = W.impl('torch', meth, u, dx, lam, z, aperture=At)
            e0, e1 = W.energy(u), W.energy(r)
            ctx.case(('aperture', meth, n, m, zc), True)
            ctx.count('torch/%s/binary-aperture' % meth)
            rec = {'api': 'torch', 'method': meth, 'n': n, 'm': m, 'dx': dx, 'lam': lam, 'z': z, 'aperture': A.tolist()}
            if not e1 <= e0 * (1 + 2e-3) + 1e-12:
                ctx.violation('binary aperture creates energy: %.9g -> %.9g' % (e0, e1), rec,
                              {'api': 'torch', 'method': meth, 'what': 'aperture_energy_created'})
            r2 = W.impl("torch", meth, r, dx, lam, z, aperture=At)
            e2 = W.energy(r2)
            if not abs(e2 - e1) <= 2e-3 * max(e1, 1e-12) + 1e-12:
                ctx.violation('binary aperture applied twice removes more energy: %.9g -> %.9g' % (e1, e2), rec,
                              {'api': 'torch', 'method': meth, 'what': 'aperture_not_idempotent'})

    # ---- histories: the model is a pure function of (field, geometry, aperture), so an aperture-free call must conserve energy whatever
    #      was called before it with the same geometry (an apertured call, a propagator object that caches kernels)
    import odak.learn.wave as LWh
    for (n, m) in [(6, 6), (5, 8)] + ([(8, 8), (7, 9), (12, 10)] if not ctx.quick else []):
        for meth, name in (('as', 'Angular Spectrum'), ('tf', 'Transfer Function Fresnel'), ('bl', 'Bandlimited Angular Spectrum')):
            for _try in range(20):
                dx, lam, z, zc = W.rand_optics(rng)
                if zc != 'zero' and (meth != 'bl' or W.bl_margin_ok(n, m, dx, lam, z, 'torch')):
                    break
            else:
                continue
            u = W.rand_field(rng, n, m, 'gauss')
            A = np.array([[1.0 if rng.random() < 0.5 else 0.0 for _ in range(m)] for _ in range(n)])
            first = W.impl('torch', meth, u, dx, lam, z)
            W.impl('torch', meth, u, dx, lam, z, aperture=torch.from_numpy(A))
            prop = LWh.propagator(resolution=[n, m], wavelengths=[lam], pixel_pitch=dx, number_of_depth_layers=1, volume_depth=0.0,
                                  image_location_offset=z, propagation_type=name, propagator_type='forward', back_and_forth_distance=0.0,
                                  aperture_size=2, method='conventional', device=torch.device('cpu'))
            try:
                prop(torch.from_numpy(u).to(torch.complex64), 0, 0)
            except Exception:
                pass
            third = W.impl('torch', meth, u, dx, lam, z)
            e0, e1, e3 = W.energy(u), W.energy(first), W.energy(third)
            ctx.case(('history', meth, n, m, zc), True)
            ctx.count('torch/%s/after-apertured-call' % meth)
            rec = {'api': 'torch', 'method': meth, 'n': n, 'm': m, 'dx': dx, 'lam': lam, 'z': z, 'aperture': A.tolist(),
                   'history': ['no aperture', 'binary aperture', 'propagator object', 'no aperture'], 'u': [[v.real, v.imag] for v in u.reshape(-1)]}
            if meth in ('as', 'tf') and not abs(e3 - e0) <= 2e-3 * max(e0, 1e-12):
                ctx.violation('%s: an aperture-free propagation after an apertured call with the same geometry loses energy: in %.9g out %.9g '
                              '(first identical call gave %.9g)' % (name, e0, e3, e1), rec, {'api': 'torch', 'method': meth, 'what': 'energy_conservation_history'})
            elif W.maxdiff(first, third) > 1e-6 * max(1.0, float(np.max(np.abs(first)))):
                if e3 > e1 * (1 + 2e-3) or e3 < e1 * (1 - 2e-3):
                    ctx.violation('%s: the same aperture-free call returns a different energy after an apertured call: %.9g then %.9g'
                                  % (name, e1, e3), rec, {'api': 'torch', 'method': meth, 'what': 'energy_conservation_history'})
                else:
                    ctx.alarm('correspondence', '%s is not a function of its arguments: the same call differs by %.3g after an apertured call'
                              % (name, W.maxdiff(first, third)))

    # ---- kernel modulus through get_propagation_kernel
    import odak.learn.wave as LW
    klines, kcases = [], []
    for (n, m) in [(3, 4), (6, 6), (5, 8), (9, 9)]:
        for meth, name in (('as', 'Angular Spectrum'), ('tf', 'Transfer Function Fresnel'), ('bl', 'Bandlimited Angular Spectrum')):
            for _try in range(20):
                dx, lam, z, zc = W.rand_optics(rng)
                if meth != 'bl' or W.bl_margin_ok(n, m, dx, lam, z, 'torch'):
                    break
            klines.append('k_%s %d %d %d %d %d' % (meth, n, m, W.f2b(dx), W.f2b(lam), W.f2b(z)))
            kcases.append((meth, name, n, m, dx, lam, z))
    kouts = ctx.model.ask(klines) if ctx.drv_ok else [None] * len(kcases)
    for (meth, name, n, m, dx, lam, z), o in zip(kcases, kouts):
        H = LW.get_propagation_kernel(nu=n, nv=m, dx=dx, wavelength=lam, distance=z, propagation_type=name).numpy()
        H = H.reshape(n, m)
        ctx.case(('kernel', meth, n, m), True)
        mod = np.abs(H)
        rec = {'method': meth, 'n': n, 'm': m, 'dx': dx, 'lam': lam, 'z': z}
        if meth in ('as', 'tf') and not np.allclose(mod, 1.0, atol=1e-5):
            ctx.violation('kernel of %s is not unit modulus (max deviation %.3g)' % (name, np.max(np.abs(mod - 1))), rec,
                          {'api': 'torch', 'method': meth, 'what': 'kernel_modulus'})
        if meth == 'bl' and not np.all(mod <= 1 + 1e-5):
            ctx.violation('band-limited kernel modulus exceeds one', rec, {'api': 'torch', 'method': meth, 'what': 'kernel_modulus'})
        if o is not None:
            d = W.maxdiff(H.astype(np.complex128), W.dec_field(o, n, m))
            if not d <= W.TOL_T:
                ctx.alarm('correspondence', 'kernel %s differs from the model by %.3g (%dx%d z=%g)' % (name, d, n, m, z))

    # ---- boundary class: dx exactly lambda/sqrt(2) (float32 rounding can push the corner radicand below zero)
    for (n, m) in [(4, 4), (5, 5)]:
        lam = 0.5
        dx = lam / math.sqrt(2)
        u = W.rand_field(rng, n, m, 'gauss')
        for api in ('torch', 'numpy'):
            r = W.impl(api, 'as', u, dx, lam, 1.0)
            ctx.case(('boundary', api, n, m), True)
            if not np.isfinite(r).all():
                ctx.violation('angular spectrum returns non-finite values at dx = lambda/sqrt(2) exactly',
                              {'api': api, 'n': n, 'm': m, 'dx': dx, 'lam': lam, 'z': 1.0},
                              {'api': api, 'method': 'as', 'what': 'nan_at_sampling_boundary'})
    # ---- long stacks of fields: energy is conserved frame by frame whatever the number of frames (sizes around the powers of two a chunked
    # implementation would use); a stack the implementation rejects is not judged
    import odak.learn.wave as LWs
    for kk in ((33, 65) if ctx.quick else (31, 32, 33, 40, 64, 65, 70, 129)):
        for name in ('Angular Spectrum', 'Transfer Function Fresnel'):
            dxs, lams, zs_, _zc = W.rand_optics(rng, 'near')
            us = torch.from_numpy(np.stack([W.rand_field(rng, 5, 6, 'gauss') for _ in range(kk)])).to(torch.complex64)
            ctx.case(('long_stack', name, kk), True)
            ctx.count('long_stack/k=%d' % kk)
            for pad in ([False, False, False], [True, False, True]):
                try:
                    out = LWs.propagate_beam(us, 2 * math.pi / lams, zs_, dxs, lams, propagation_type=name, zero_padding=pad)
                except Exception:
                    ctx.count('long_stack/rejected-by-implementation')
                    continue
                e_in = (us.abs() ** 2).sum(dim=(-2, -1)).double()
                e_out = (out.abs() ** 2).sum(dim=(-2, -1)).double().reshape(-1)
                if out.shape[0] != kk or e_out.shape[0] != kk:
                    ctx.violation('torch %s returns %s for a stack of %d fields' % (name, tuple(out.shape), kk), {'method': name, 'stack': kk},
                                  {'api': 'torch', 'method': name, 'what': 'shape', 'stack': True})
                    break
                bad = torch.nonzero((e_out - e_in).abs() > (2e-3 if not pad[0] else 0.6) * e_in + 1e-9).reshape(-1)
                if not pad[0] and len(bad):
                    i = int(bad[0])
                    ctx.violation('torch %s does not conserve the energy of frame %d of a stack of %d fields: in %.6g out %.6g'
                                  % (name, i, kk, float(e_in[i]), float(e_out[i])), {'method': name, 'stack': kk, 'frame': i, 'dx': dxs, 'lam': lams, 'z': zs_},
                                  {'api': 'torch', 'method': name, 'what': 'energy', 'stack': True})
                    break
                if pad[0] and bool((e_out == 0).any()) and not bool((e_in == 0).any()):
                    i = int(torch.nonzero(e_out == 0).reshape(-1)[0])
                    ctx.violation('torch %s (pad-then-crop) returns an all-zero frame %d for a stack of %d non-zero fields' % (name, i, kk),
                                  {'method': name, 'stack': kk, 'frame': i}, {'api': 'torch', 'method': name, 'what': 'energy', 'stack': True})
                    break
    W.argument_types(ctx, 'C01', methods=('as', 'tf', 'bl'))          # the same calls with tuples / NumPy scalars / 0-d tensors: same field, hence same energy
    from .genkernels import check_generated_kernels; check_generated_kernels(ctx)   # kernels regenerated from the source vs implementation


def replay(ctx, rep):
    r = rep['replay']
    u = np.array([complex(a, b) for a, b in r['u']]).reshape(r['n'], r['m']) if 'u' in r else W.rand_field(ctx.rng, r['n'], r['m'], 'gauss')
    ap = torch.tensor(r['aperture']) if 'aperture' in r else 1.
    out = W.impl(r['api'], r['method'], u, r['dx'], r['lam'], r['z'], aperture=ap) if r['api'] == 'torch' \
        else W.impl(r['api'], r['method'], u, r['dx'], r['lam'], r['z'])
    e0, e1 = W.energy(u), W.energy(out)
    print('energy in %.12g out %.12g' % (e0, e1))
    if 'history' in r:
        W.impl('torch', r['method'], u, r['dx'], r['lam'], r['z'], aperture=ap)
        out = W.impl('torch', r['method'], u, r['dx'], r['lam'], r['z'])
        e1 = W.energy(out)
        print('after an apertured call: energy in %.12g out %.12g' % (e0, e1))
        return abs(e1 - e0) <= 2e-3 * e0
    if r['method'] in ('as', 'tf') and 'aperture' not in r:
        return abs(e1 - e0) <= 2e-3 * e0
    return e1 <= e0 * (1 + 2e-3)
