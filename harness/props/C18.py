"""C18 – foveation plumbing.  Correspondence: pad_image_for_pyramid shape and pixel positions (tagged images) vs the
regenerated index model; pooling-size maps vs the Lean formulas; monitors: multiples of 2^n, content intact at the origin,
images that fit returned unchanged, lod finite/non-negative/minimal at the gaze, blur is an averaging operator."""
import logging
import math
import warnings
import numpy as np
import torch
from ..lib.core import f2b, b2f

logging.disable(logging.WARNING)
warnings.filterwarnings('ignore')

TRUSTED = ['torch.nn.ReflectionPad2d((left, right, top, bottom)) semantics as modelled (reflectAxis), validated on tagged images',
           "F.interpolate(mode='area') and bilinear interpolation are averaging maps (non-negative weights summing to one); not modelled, monitored"]
ASSUMPTIONS = ['reflection padding needs the missing rows/columns to be fewer than the image has (torch raises otherwise)']


def run(ctx):
    from odak.learn.perception.spatial_steerable_pyramid import pad_image_for_pyramid
    import odak.learn.perception.foveation as FV
    from odak.learn.perception.radially_varying_blur import RadiallyVaryingBlur
    rng = ctx.rng
    ctx.rule = ('tagged images of every size h, w in a box x pyramid depths 1..4 (exact shape/position comparison); random gaze / alpha / '
                'geometry / mode for the pooling maps and the blur; non-trivial = padding needed; distinct by (h, w, n)')
    # ---------------- pyramid padding: exhaustive box in the thorough tier
    hs = range(1, 71) if not ctx.quick else sorted(set([1, 2, 3, 7, 8, 9, 15, 16, 17, 20, 30, 31, 32, 33, 47, 64, 70] + [rng.randint(1, 70) for _ in range(4)]))
    ws = hs
    ctx.exhaustive = not ctx.quick
    lines, cases = [], []
    for h in hs:
        for w in ws:
            for n in (1, 2, 3, 4):
                if ctx.quick and (h * 3 + w * 5 + n) % 4 != 0:
                    continue
                cases.append((h, w, n))
                lines.append('pyr_pad 0 %d %d %d' % (h, w, 2 ** n))
                lines.append('pyr_pad 1 %d %d %d' % (h, w, 2 ** n))
    outs = ctx.model.ask(lines) if ctx.drv_ok else None
    for k, (h, w, n) in enumerate(cases):
        d = 2 ** n
        rh, rw = -(-h // d) * d, -(-w // d) * d
        rec = {'h': h, 'w': w, 'levels': n}
        x = torch.arange(1, 2 * h * w + 1, dtype=torch.float32).reshape(1, 2, h, w)
        admissible = (rh - h < h) and (rw - w < w)
        ctx.case((h, w, n), rh > h or rw > w, rec if k % 97 == 0 else None)
        ctx.count('pad/' + ('fits' if rh == h and rw == w else 'pad_h' if rw == w else 'pad_w' if rh == h else 'pad_both'))
        try:
            y = pad_image_for_pyramid(x, n)
        except Exception as e:
            if admissible:
                ctx.violation('pad_image_for_pyramid raised %r for %dx%d, %d levels' % (e, h, w, n), rec, {'fn': 'pad_image_for_pyramid', 'what': 'raises'})
            continue
        y_np, x_np = y.numpy(), x.numpy()
        m0 = [int(t) for t in outs[2 * k].split()] if outs is not None else None
        m1 = [int(t) for t in outs[2 * k + 1].split()] if outs is not None else None
        if admissible:
            if tuple(y.shape) != (1, 2, rh, rw):
                ctx.violation('pad_image_for_pyramid(%dx%d, %d levels) returns %dx%d, expected multiples of %d: %dx%d'
                              % (h, w, n, y.shape[2], y.shape[3], d, rh, rw), rec,
                              {'fn': 'pad_image_for_pyramid', 'what': 'shape', 'pad_h': rh > h, 'pad_w': rw > w})
            elif not np.array_equal(y_np[:, :, :h, :w], x_np):
                ctx.violation('pad_image_for_pyramid moves the original pixels (%dx%d, %d levels)' % (h, w, n), rec,
                              {'fn': 'pad_image_for_pyramid', 'what': 'content_moved', 'pad_h': rh > h, 'pad_w': rw > w})
            if rh == h and rw == w and not (y is x or torch.equal(y, x)):
                ctx.violation('an image that already fits is not returned unchanged', rec, {'fn': 'pad_image_for_pyramid', 'what': 'unchanged'})
        if m0 is not None:
            if m0[0] == 1 and m1[0] == 1:
                s0, s1 = np.array(m0[2:]), np.array(m1[2:])
                exp = x_np[:, :, s0[:, None], s1[None, :]]
                if exp.shape != y_np.shape or not np.array_equal(exp, y_np):
                    ctx.alarm('correspondence', 'pad_image_for_pyramid differs from the regenerated index model for %dx%d, %d levels' % (h, w, n))
    # ---------------- pooling-size maps and level of detail
    aligned = []
    for (h, w) in [(17, 17), (65, 65), (33, 47), (32, 48), (40, 40), (128, 96)]:
        for _ in range(ctx.n(3, 12)):          # gaze exactly on a pixel centre (incl. borders and corners): eccentricity 0 at that pixel
            i, j = rng.choice([0, h - 1, rng.randrange(h)]), rng.choice([0, w - 1, rng.randrange(w)])
            aligned.append((h, w, [j / (w - 1), i / (h - 1)]))
        aligned += [(h, w, [0.25, 0.75]), (h, w, [0.5, 0.0]), (h, w, [0.3, 0.7]), (h, w, [1.0, 1.0]), (h, w, [0.0, 0.0])]
    randoms = [(None, None, None)] * ctx.n(12, 120)
    for (h_, w_, gaze_) in aligned + randoms:
        if gaze_ is None:
            h, w = rng.choice([(32, 48), (40, 40), (17, 33), (64, 20)])
            gaze = [rng.random(), rng.random()]
        else:
            h, w, gaze = h_, w_, gaze_
        alpha = rng.uniform(0.05, 0.6)
        width, dist = rng.uniform(0.1, 0.6), rng.uniform(0.3, 1.2)
        mode = rng.choice(['quadratic', 'linear'])
        rec = {'size': [h, w], 'gaze': gaze, 'alpha': alpha, 'width': width, 'distance': dist, 'mode': mode}
        ctx.case(('lod', h, w, tuple(gaze), mode), True, rec if rng.random() < 0.1 else None)
        ctx.count('lod/' + ('pixel_aligned_gaze' if gaze_ is not None else 'random_gaze'))
        px = FV.make_pooling_size_map_pixels(gaze, (h, w), alpha, width, dist, mode)
        lod = FV.make_pooling_size_map_lod(gaze, (h, w), alpha, width, dist, mode)
        ecc, dmap = FV.make_eccentricity_distance_maps(gaze, (h, w), width, dist)
        eccc, _ = FV.make_eccentricity_distance_maps([0.5, 0.5], (h, w), width, dist)
        if not (torch.isfinite(lod).all() and (lod >= 0).all() and tuple(lod.shape) == (h, w)):
            ctx.violation('pooling-size lod map is not finite and non-negative', rec, {'fn': 'make_pooling_size_map_lod', 'what': 'finite_nonneg'})
        gi = int(np.argmin(ecc.numpy()))
        gy, gx = divmod(gi, w)
        if float(lod[gy, gx]) > float(lod.min()) + 1e-6:
            ctx.violation('the pooling map is not smallest at the gaze pixel (%g vs min %g)' % (float(lod[gy, gx]), float(lod.min())), rec,
                          {'fn': 'make_pooling_size_map_lod', 'what': 'min_at_gaze'})
        if ctx.drv_ok:
            idx = [(rng.randrange(h), rng.randrange(w)) for _ in range(6)]
            ml = ['pooling %d %d %d %d %d %d %d %d' % (1 if mode == 'quadratic' else 0, f2b(alpha), f2b(float(ecc[i, j])), f2b(float(eccc[i, j])),
                                                   f2b(float(dmap[i, j])), f2b(width), f2b(dist), w) for (i, j) in idx]
            mo = ctx.model.ask(ml)
            for (i, j), line in zip(idx, mo):
                mp, ml_ = [b2f(t) for t in line.split()]
                if abs(mp - float(px[i, j])) > 2e-3 * max(1.0, abs(mp)) or abs(ml_ - float(lod[i, j])) > 5e-3:
                    ctx.alarm('correspondence', 'pooling size at (%d,%d): implementation (%g, lod %g) vs model (%g, lod %g) for %s'
                              % (i, j, float(px[i, j]), float(lod[i, j]), mp, ml_, rec))
                    break
    equi_cases = []
    for _ in range(ctx.n(4, 30)):
        h, w = rng.choice([(32, 64), (24, 48)])
        equi_cases.append((h, w, [rng.uniform(-math.pi, math.pi), rng.uniform(-math.pi / 2, math.pi / 2)], 'random'))
    # the gaze looks exactly along the direction of a pixel (a user fixating a pixel centre, the poles, the seam): the dot product of the two unit
    # vectors is 1 up to rounding and may round above it
    for (h, w) in ((16, 32), (9, 17), (20, 40)):
        yaw = torch.linspace(-math.pi, math.pi, w)
        pitch = torch.linspace(-math.pi * 0.5, math.pi * 0.5, h)
        picks = [(i, j) for i in range(h) for j in range(w)]
        rng.shuffle(picks)
        for (i, j) in picks[:ctx.n(40, 400)] + [(0, 0), (h - 1, w - 1), (h // 2, w // 2), (0, w // 2)]:
            equi_cases.append((h, w, [float(yaw[j]), float(pitch[i])], 'pixel_direction'))
    for (h, w, ang, kind) in equi_cases:
        alpha_e, mode_e = rng.uniform(0.05, 0.5), rng.choice(['quadratic', 'linear'])
        lod = FV.make_equi_pooling_size_map_lod(ang, (h, w), alpha_e, mode_e)
        pxm = FV.make_equi_pooling_size_map_pixels(ang, (h, w), alpha_e, mode_e)
        ctx.case(('equi', h, w, tuple(ang)), True)
        ctx.count('equi/gaze_' + kind)
        for nm, mp_ in (('make_equi_pooling_size_map_lod', lod), ('make_equi_pooling_size_map_pixels', pxm)):
            if not (torch.isfinite(mp_).all() and (mp_ >= 0).all()):
                nbad = int((~torch.isfinite(mp_)).sum())
                ctx.violation('equirectangular %s is not finite and non-negative for gaze angles %s on a %dx%d image (%d non-finite pixels)'
                              % (nm, ang, h, w, nbad), {'angles': ang, 'size': [h, w], 'alpha': alpha_e, 'mode': mode_e},
                              {'fn': nm, 'what': 'finite_nonneg', 'gaze': kind})
                break
    # ---------------- radially varying blur is an averaging operator
    # sizes: ordinary ones, 40x24 (mip chain ends at 2x1: finding F15), and degenerate chains - one pixel wide / high (a single mip level),
    # chains ending at kx1 - with a pooling constant large enough for levels of detail >= 1 (finding F39)
    blur_sizes = [(32, 32), (32, 48), (40, 24), (17, 29)]
    thin_sizes = [(5, 1), (1, 7), (6, 2), (2, 6), (3, 1), (24, 40), (4, 2), (1, 1), (12, 3)]
    plan = [(rng.choice(blur_sizes), False) for _ in range(ctx.n(6, 40))] + [(sz, True) for sz in (thin_sizes if not ctx.quick else rng.sample(thin_sizes, 5))]
    for (h, w), thin in plan:
        gaze = [rng.random(), rng.random()] if rng.random() < 0.5 or w < 2 or h < 2 else [rng.randrange(w) / (w - 1), rng.randrange(h) / (h - 1)]
        alpha = rng.uniform(0.05, 0.5) if not thin else rng.choice([0.3, 5.0, 20.0])
        mode = rng.choice(['quadratic', 'linear'])
        equi = rng.random() < 0.25
        centre = [rng.uniform(-3, 3), rng.uniform(-1.5, 1.5)] if equi else gaze
        g = torch.Generator().manual_seed(rng.randrange(10 ** 6))
        img = torch.rand(1, 3, h, w, generator=g) * rng.uniform(0.5, 2.0) + rng.uniform(-1, 1)
        rec = {'size': [h, w], 'centre': centre, 'alpha': alpha, 'mode': mode, 'equi': equi}
        ctx.case(('blur', h, w, tuple(centre), mode, equi), True, rec if rng.random() < 0.2 else None)
        ctx.count('blur/' + ('equi' if equi else 'planar'))
        b = RadiallyVaryingBlur()
        a_, b_ = h, w
        while a_ > 1 and b_ > 1:
            a_, b_ = a_ // 2, b_ // 2
        try:
            out = b.blur(img, alpha, 0.2, 0.7, centre, mode, equi)
            const = torch.full((1, 3, h, w), 0.37)
            outc = RadiallyVaryingBlur().blur(const, alpha, 0.2, 0.7, centre, mode, equi)
        except Exception as e:
            ctx.violation('RadiallyVaryingBlur.blur raised %r for a %dx%d image (coarsest mip level %dx%d)' % (e, h, w, a_, b_), rec,
                          {'fn': 'blur', 'what': 'raises', 'final_mip': '%dx%d' % (a_, b_)})
            continue
        if out.shape != img.shape:
            ctx.violation('RadiallyVaryingBlur.blur changes the shape', rec, {'fn': 'blur', 'what': 'shape'})
            continue
        if not torch.allclose(outc, const, atol=1e-5):
            ctx.violation('RadiallyVaryingBlur.blur does not keep a constant image constant (max deviation %g)' % float((outc - const).abs().max()),
                          rec, {'fn': 'blur', 'what': 'constant'})
        if float(out.max()) > float(img.max()) + 1e-5 or float(out.min()) < float(img.min()) - 1e-5:
            ctx.violation('RadiallyVaryingBlur.blur leaves the value range of its input: [%g, %g] -> [%g, %g]'
                          % (float(img.min()), float(img.max()), float(out.min()), float(out.max())), rec, {'fn': 'blur', 'what': 'range'})
        if not equi:
            lod = b.lod_map
            gi = int(torch.argmin(lod))
            gy, gx = divmod(gi, w)
            if float(lod[gy, gx]) < 1e-3 and not torch.allclose(out[0, :, gy, gx], img[0, :, gy, gx], atol=1e-4):
                ctx.violation('the gaze pixel is blurred (lod %g): %s -> %s' % (float(lod[gy, gx]), img[0, :, gy, gx].tolist(), out[0, :, gy, gx].tolist()),
                              rec, {'fn': 'blur', 'what': 'gaze_pixel'})
    more_foveation(ctx)


def gaze_pixel(gaze, h, w):
    """pixel (row, column) under the gaze in the convention of this module: gaze = (x, y) in normalised image coordinates,
    image_pixel_size = (height, width); taken from the eccentricity map (whose minimum the pooling maps are built around)"""
    import odak.learn.perception.foveation as FV
    ecc, _ = FV.make_eccentricity_distance_maps(gaze, (h, w), 0.3, 0.6)
    return divmod(int(torch.argmin(ecc)), w)


def radial_map_check(gaze, h, w):
    """make_radial_map called the way MetamericLoss calls it: size = [rows, columns] of the statistics map, gaze = the loss's gaze"""
    import odak.learn.perception.foveation as FV
    r = FV.make_radial_map([h, w], gaze)
    if tuple(r.shape) != (h, w):
        return 'shape', 'returns a %s map for size [%d, %d]' % (tuple(r.shape), h, w)
    if not (torch.isfinite(r).all() and (r >= 0).all() and float(r.max()) <= 1 + 1e-6):
        return 'finite_nonneg', 'values outside [0, 1] or not finite (min %g, max %g)' % (float(r.min()), float(r.max()))
    if abs(float(r.max()) - 1) > 1e-6:
        return 'normalised', 'the largest value is %g, not 1' % float(r.max())
    gy, gx = gaze_pixel(gaze, h, w)
    my, mx = divmod(int(torch.argmin(r)), w)
    if float(r[gy, gx]) > float(r.min()) + 1.5 / max(h, w):
        return 'min_at_gaze', ('the map is smallest at pixel (row %d, column %d) but the gaze (x = %g, y = %g) is at pixel (row %d, column %d), where the '
                               'map is %g (minimum %g)' % (my, mx, gaze[0], gaze[1], gy, gx, float(r[gy, gx]), float(r.min())))
    return None, None


def equi_maps_check(ang, h, w, alpha, mode):
    import odak.learn.perception.foveation as FV
    px = FV.make_equi_pooling_size_map_pixels(ang, (h, w), alpha, mode)
    lod = FV.make_equi_pooling_size_map_lod(ang, (h, w), alpha, mode)
    for name, m in (('pixels', px), ('lod', lod)):
        if tuple(m.shape) != (h, w):
            return 'shape', '%s map has shape %s for image size (%d, %d)' % (name, tuple(m.shape), h, w)
        if not (torch.isfinite(m).all() and (m >= 0).all()):
            return 'finite_nonneg', '%s map is not finite and non-negative (min %g)' % (name, float(m.min()))
    # pixel whose viewing direction is closest to the gaze direction (yaw along the width in [-pi, pi], pitch along the height in [-pi/2, pi/2])
    yaw = torch.linspace(-math.pi, math.pi, w, dtype=torch.float64)[None, :]
    pitch = torch.linspace(-math.pi / 2, math.pi / 2, h, dtype=torch.float64)[:, None]
    dot = torch.sin(yaw) * torch.cos(pitch) * math.sin(ang[0]) * math.cos(ang[1]) + torch.sin(pitch) * math.sin(ang[1]) + \
        torch.cos(yaw) * torch.cos(pitch) * math.cos(ang[0]) * math.cos(ang[1])
    gy, gx = divmod(int(torch.argmax(dot)), w)
    for name, m in (('pixels', px), ('lod', lod)):
        if float(m[gy, gx]) > float(m.min()) + 1e-5 * max(1.0, float(m.max())):
            my, mx = divmod(int(torch.argmin(m)), w)
            return 'min_at_gaze', '%s map is %g at the gaze pixel (row %d, column %d) but %g at (row %d, column %d)' % (name, float(m[gy, gx]), gy, gx, float(m.min()), my, mx)
    want = torch.clamp(torch.log2(1e-6 + px), min=0)
    if not torch.allclose(lod, want, atol=1e-5):
        return 'lod_vs_pixels', 'the lod map is not max(0, log2(pooling size in pixels)): max difference %g' % float((lod - want).abs().max())
    # yaw -pi and +pi are the same direction: first and last column agree; a gaze turned by a full revolution gives the same map
    if not torch.allclose(px[:, 0], px[:, -1], atol=1e-3 * max(1.0, float(px.max()))):
        return 'wrap', 'first and last column (yaw -pi and +pi) differ by %g' % float((px[:, 0] - px[:, -1]).abs().max())
    turn = FV.make_equi_pooling_size_map_pixels([ang[0] + 2 * math.pi * (1 if ang[0] < 0 else -1), ang[1]], (h, w), alpha, mode)
    if not torch.allclose(px, turn, atol=1e-3 * max(1.0, float(px.max()))):
        return 'wrap', 'a gaze yaw turned by 2 pi changes the map by %g' % float((px - turn).abs().max())
    return None, None


def blur_check(h, w, centre, alpha, mode, equi, seed, width=0.2, dist=0.7, channels=3, batch=1):
    """RadiallyVaryingBlur.blur is an averaging operator; returns (what, text, final_mip)"""
    from odak.learn.perception.radially_varying_blur import RadiallyVaryingBlur
    g = torch.Generator().manual_seed(seed)
    img = torch.rand(batch, channels, h, w, generator=g) * 1.7 - 0.4
    a_, b_ = h, w
    while a_ > 1 and b_ > 1:
        a_, b_ = a_ // 2, b_ // 2
    mip = '%dx%d' % (a_, b_)
    b = RadiallyVaryingBlur()
    try:
        out = b.blur(img, alpha, width, dist, centre, mode, equi)
        const = torch.full((batch, channels, h, w), 0.37)
        outc = RadiallyVaryingBlur().blur(const, alpha, width, dist, centre, mode, equi)
    except Exception as e:
        return 'raises', 'raised %r for a %dx%d image (coarsest mip level %s)' % (e, h, w, mip), mip
    if out.shape != img.shape:
        return 'shape', 'changes the shape %s -> %s' % (tuple(img.shape), tuple(out.shape)), mip
    if not torch.isfinite(out).all():
        return 'finite', 'output is not finite', mip
    if not torch.allclose(outc, const, atol=1e-5):
        return 'constant', 'does not keep a constant image constant (max deviation %g)' % float((outc - const).abs().max()), mip
    if float(out.max()) > float(img.max()) + 1e-5 or float(out.min()) < float(img.min()) - 1e-5:
        return 'range', 'leaves the value range of its input: [%g, %g] -> [%g, %g]' % (float(img.min()), float(img.max()), float(out.min()), float(out.max())), mip
    lod = b.lod_map
    gy, gx = divmod(int(torch.argmin(lod)), w)
    if float(lod[gy, gx]) < 1e-3 and not torch.allclose(out[:, :, gy, gx], img[:, :, gy, gx], atol=1e-4):
        return 'gaze_pixel', 'the gaze pixel is blurred (lod %g): %s -> %s' % (float(lod[gy, gx]), img[0, :, gy, gx].tolist(), out[0, :, gy, gx].tolist()), mip
    return None, None, mip


def more_foveation(ctx):
    rng = ctx.rng
    ctx.rule += ('; make_radial_map: square / non-square sizes x gazes (centre, corners, borders, diagonal, off-diagonal); equirectangular pooling maps: '
                 'square, 2:1, 1:2 and odd sizes x gaze angles incl. +-pi, poles x both modes; RadiallyVaryingBlur: {planar, equi} x {quadratic, linear} x sizes x '
                 'channel counts')
    # ---------------- make_radial_map (as MetamericLoss(use_radial_weight=True) calls it)
    GZ = [[0.5, 0.5], [0.25, 0.25], [0.8, 0.8], [0.0, 0.0], [1.0, 1.0], [0.2, 0.7], [0.9, 0.1], [0.5, 0.0], [1.0, 0.3]]
    for (h, w) in [(16, 16), (33, 33), (16, 24), (40, 12), (9, 31), (2, 2)]:
        for k, gaze in enumerate(GZ + [[rng.random(), rng.random()] for _ in range(ctx.n(2, 10))]):
            sym = abs(gaze[0] - gaze[1]) < 1e-12
            rec = {'fn': 'make_radial_map', 'size': [h, w], 'gaze': gaze}
            ctx.case(('radial', h, w, tuple(gaze)), True, rec if k == 5 else None)
            ctx.count('radial_map/%s/%s' % ('square' if h == w else 'non-square', 'gaze x = y' if sym else 'gaze x != y'))
            try:
                what, text = radial_map_check(gaze, h, w)
            except Exception as e:
                what, text = 'raises', 'raised %r' % e
            if what == 'min_at_gaze':
                # OBSERVATION, not judged by C18: make_radial_map reads gaze[0] as the ROW coordinate while every pooling-size map (and its caller
                # MetamericLoss) uses gaze[0] as the horizontal one, so the radial weights are centred on the transposed gaze.  C18 states "smallest
                # at the gaze point" for the pooling-size map, which this is not.
                ctx.count('radial_map/observation: minimum at the transposed gaze (gaze[0] read as row)')
            elif what:
                ctx.violation('make_radial_map([%d, %d], gaze = %s): %s' % (h, w, gaze, text), rec,
                              {'fn': 'make_radial_map', 'what': what, 'gaze_on_diagonal': sym, 'square': h == w})
    # ---------------- equirectangular pooling maps
    ANG = [[0.0, 0.0], [math.pi, 0.0], [-math.pi, 0.3], [1.0, math.pi / 2], [-2.0, -math.pi / 2], [3.0, 1.2], [-0.7, -0.4], [math.pi / 2, 0.0]]
    for (h, w) in [(32, 64), (24, 24), (48, 24), (17, 51), (33, 47), (20, 65)]:
        for k, ang in enumerate(ANG + [[rng.uniform(-math.pi, math.pi), rng.uniform(-math.pi / 2, math.pi / 2)] for _ in range(ctx.n(2, 10))]):
            mode = ['quadratic', 'linear'][k % 2]
            alpha = rng.uniform(0.05, 0.5)
            rec = {'fn': 'make_equi_pooling_size_map', 'size': [h, w], 'angles': ang, 'alpha': alpha, 'mode': mode}
            ctx.case(('equi_maps', h, w, tuple(ang), mode), True, rec if k == 6 else None)
            ctx.count('equi_maps/%s/%s' % ('2:1' if w == 2 * h else 'square' if h == w else 'other aspect', mode))
            try:
                what, text = equi_maps_check(ang, h, w, alpha, mode)
            except Exception as e:
                what, text = 'raises', 'raised %r' % e
            if what:
                ctx.violation('make_equi_pooling_size_map_* (size (%d, %d), angles %s, %s): %s' % (h, w, ang, mode, text), rec,
                              {'fn': 'make_equi_pooling_size_map', 'what': what, 'aspect': '%dx%d' % (h, w)})
    # ---------------- RadiallyVaryingBlur: every mode, planar and equirectangular
    k = 0
    for equi in (False, True):
        for mode in ('quadratic', 'linear'):
            for (h, w) in ([(32, 64), (32, 32), (48, 24), (17, 29)] if ctx.quick else [(32, 64), (32, 32), (48, 24), (17, 29), (64, 128), (40, 40), (21, 64)]):
                k += 1
                if equi:
                    centre = [[0.0, 0.0], [math.pi, 0.2], [-2.5, -1.0], [1.0, math.pi / 2]][k % 4] if k % 3 else [rng.uniform(-math.pi, math.pi), rng.uniform(-1.5, 1.5)]
                else:
                    centre = [[0.5, 0.5], [0.0, 1.0], [0.3, 0.8]][k % 3] if k % 2 else [rng.randrange(w) / (w - 1), rng.randrange(h) / (h - 1)]
                alpha = [0.05, 0.2, 0.5][k % 3]
                ch, batch = [3, 1, 4][k % 3], [1, 1, 2][(k // 3) % 3]
                seed = rng.randrange(10 ** 6)
                rec = {'fn': 'blur', 'size': [h, w], 'centre': centre, 'alpha': alpha, 'mode': mode, 'equi': equi, 'channels': ch, 'batch': batch, 'torch_seed': seed}
                ctx.case(('blur_grid', h, w, tuple(centre), mode, equi, ch), True, rec if k % 5 == 0 else None)
                ctx.count('blur/%s/%s' % ('equi' if equi else 'planar', mode))
                what, text, mip = blur_check(h, w, centre, alpha, mode, equi, seed, channels=ch, batch=batch)
                if what == 'raises' and batch > 1 and 'IndexError' in text and 'mask' in text:
                    # N > 1 is rejected (the level masks are built for one image): a rejected input class, the single image is checked instead
                    ctx.count('blur/rejected: batch of %d images (IndexError, mask built for N = 1)' % batch)
                    rec['batch'] = batch = 1
                    what, text, mip = blur_check(h, w, centre, alpha, mode, equi, seed, channels=ch, batch=1)
                if what:
                    ctx.violation('RadiallyVaryingBlur.blur(%s, equi=%s) %s' % (mode, equi, text), rec,
                                  {'fn': 'blur', 'what': what, 'final_mip': mip, 'equi': equi, 'mode': mode})

    # ---------------- ONE blur object, a gaze that moves over a lattice (whole and half units, both signs, there and back): every result is the one
    # a new object gives for that gaze, and the gaze pixel stays sharp
    from odak.learn.perception.radially_varying_blur import RadiallyVaryingBlur
    for equi in (True, False):
        for mode in ('quadratic',) if ctx.quick else ('quadratic', 'linear'):
            h, w = (32, 64)
            g = torch.Generator().manual_seed(ctx.seed + 5)
            img = torch.rand(1, 3, h, w, generator=g)
            obj = RadiallyVaryingBlur()
            if equi:
                lattice = [[float(y), float(p)] for p in (0, -1, 1) for y in (-3, -2, -1, 0, 1, 2, 3, 2, 1, 0, -1, -2, -3)] + \
                          [[y / 2.0, p / 2.0] for p in (-1, 1) for y in (-5, -3, -1, 1, 3, 5)]
            else:
                lattice = [[x / 4.0, y / 4.0] for y in (0, 2, 4) for x in (0, 1, 2, 3, 4, 3, 2, 1, 0)] + [[1.0, 0.0], [0.0, 1.0], [1, 1], [0, 0], [1, 0]]
            for centre in lattice:
                ctx.case(('blur_moving_gaze', equi, mode, tuple(centre)), True)
                ctx.count('blur/moving gaze on one object/%s' % ('equi' if equi else 'planar'))
                rec = {'fn': 'blur', 'size': [h, w], 'centre': centre, 'alpha': 0.2, 'mode': mode, 'equi': equi, 'moving_gaze': True}
                try:
                    out = obj.blur(img, 0.2, 0.2, 0.7, centre, mode, equi)
                    ref = RadiallyVaryingBlur().blur(img, 0.2, 0.2, 0.7, centre, mode, equi)
                except Exception as e:
                    ctx.note('blur raised %r for gaze %s (equi=%s)' % (e, centre, equi))
                    break
                if out.shape != ref.shape or not torch.allclose(out, ref, atol=1e-6):
                    ctx.violation('RadiallyVaryingBlur.blur(%s, equi=%s) on an object whose gaze has moved to %s differs from the result of a new object for the '
                                  'same gaze (max difference %.3g): the foveation map of an earlier gaze is still in use'
                                  % (mode, equi, centre, float((out - ref).abs().max()) if out.shape == ref.shape else float('nan')), rec,
                                  {'fn': 'blur', 'what': 'moving_gaze', 'equi': equi, 'mode': mode})
                    break
    # ---- frames on which some pixel's level of detail is EXACTLY a whole number (the boundary between two mip levels; a float coincidence of size, gaze and
    # alpha that VGA-wide frames do produce): every pixel still belongs to exactly one pair of levels - a constant image stays constant, values stay in range
    import odak.learn.perception.foveation as FVi
    from odak.learn.perception.radially_varying_blur import RadiallyVaryingBlur as RVBi
    for (size_i, alpha_i, centre_i, mode_i) in (((480, 640), 0.28, (0.3, 0.6), 'quadratic'), ((480, 640), 0.46, (0.75, 0.5), 'quadratic'), ((360, 640), 0.33, (0.0, 0.0), 'quadratic')):
        lod_i = FVi.make_pooling_size_map_lod(list(centre_i), size_i, alpha_i, 0.2, 0.7, mode_i)
        whole = (lod_i >= 1) & (lod_i == torch.round(lod_i))
        ctx.case(('integer_lod', size_i, alpha_i), True)
        ctx.count('blur/frames with a pixel at a whole-number level of detail' if bool(whole.any()) else 'blur/whole-number level not reproduced on this build')
        const_i = torch.full((1, 3) + size_i, 0.7)
        out_i = RVBi().blur(const_i, alpha_i, 0.2, 0.7, list(centre_i), mode_i, False)
        if float((out_i - 0.7).abs().max()) > 1e-5:
            yy, xx = divmod(int(torch.argmax((out_i[0, 0] - 0.7).abs())), size_i[1])
            ctx.violation('RadiallyVaryingBlur.blur of a constant %dx%d image (alpha %g, gaze %s): pixel (%d, %d), whose level of detail is %r, comes back as %g instead of 0.7 '
                          '(it belongs to no mip level)' % (size_i[0], size_i[1], alpha_i, centre_i, yy, xx, float(lod_i[yy, xx]), float(out_i[0, 0, yy, xx])),
                          {'fn': 'blur', 'size': list(size_i), 'alpha': alpha_i, 'centre': list(centre_i), 'mode': mode_i, 'integer_lod': True},
                          {'fn': 'blur', 'what': 'constant', 'integer_lod': True})
    # ---- ONE gaze list object that the caller updates in place between calls (an eye tracker writing into `gaze[0]`, `gaze[1]`): each blur is the blur a new
    # object gives for the current contents of the list
    from odak.learn.perception.radially_varying_blur import RadiallyVaryingBlur as RVBg
    for equi_ in (False, True):
        gl = [0.7, 0.6] if not equi_ else [0.7, 0.3]
        ob_ = RVBg()
        img_g = torch.rand(1, 3, 32, 64, generator=torch.Generator().manual_seed(ctx.seed + 19))
        for step_, (g0, g1) in enumerate(((0.7, 0.6), (0.1, 0.6), (0.1, 0.2), (0.9, 0.9), (0.9, 0.9), (0.3, 0.3)) if not equi_ else ((0.7, 0.3), (-0.5, 0.3), (-0.5, -0.4), (2.0, 0.1))):
            gl[0], gl[1] = g0, g1
            ctx.case(('gaze_list_in_place', equi_, step_), True)
            ctx.count('blur/one gaze list updated in place')
            out_ = ob_.blur(img_g, 0.2, 0.2, 0.7, gl, 'quadratic', equi_)
            ref_ = RVBg().blur(img_g, 0.2, 0.2, 0.7, [g0, g1], 'quadratic', equi_)
            if not torch.allclose(out_, ref_, atol=1e-6):
                ctx.violation('RadiallyVaryingBlur.blur (equi=%s): after the caller updated its gaze list in place to %s the blur differs from the blur of a new object for that '
                              'gaze by %.3g: the foveation map of the previous gaze is still in use' % (equi_, [g0, g1], float((out_ - ref_).abs().max())),
                              {'fn': 'blur', 'equi': equi_, 'gaze': [g0, g1], 'step': step_, 'gaze_list_in_place': True}, {'fn': 'blur', 'what': 'gaze_list_in_place', 'equi': equi_})
                break
    # ---- the foveation plumbing applied to a float32 image gives the same result whatever global settings of torch are in force (default dtype float64,
    # grad mode off); each entry returns under these settings on the unchanged tree
    from ..lib import settings as ST
    from odak.learn.perception.radially_varying_blur import RadiallyVaryingBlur as RVB_
    import odak.learn.perception.foveation as FV_
    from odak.learn.perception.spatial_steerable_pyramid import pad_image_for_pyramid as pad_
    g_ = torch.Generator().manual_seed(ctx.seed + 181)
    for (h_, w_) in ((32, 64), (33, 47)):
        im_ = torch.rand(1, 3, h_, w_, generator=g_, dtype=torch.float32)
        for nm_, f_ in (('blur planar quadratic', lambda: RVB_().blur(im_, 0.2, 0.2, 0.7, [0.4, 0.6], 'quadratic', False)),
                        ('blur planar linear', lambda: RVB_().blur(im_, 0.1, 0.3, 0.6, [0.0, 1.0], 'linear', False)),
                        ('blur equirectangular', lambda: RVB_().blur(im_, 0.2, 0.2, 0.7, [0.4, 0.2], 'quadratic', True)),
                        ('pad_image_for_pyramid', lambda: pad_(im_, 5)),
                        ('make_pooling_size_map_pixels', lambda: FV_.make_pooling_size_map_pixels([0.4, 0.6], [h_, w_], alpha=0.3, real_image_width=0.3,
                                                                                                    real_viewing_distance=0.6, mode='quadratic')),
                        ('make_equi_pooling_size_map_pixels', lambda: FV_.make_equi_pooling_size_map_pixels([0.5, 0.2], [h_, w_], alpha=0.3, mode='quadratic')),
                        ('make_radial_map', lambda: FV_.make_radial_map([h_, w_], [0.3, 0.7]))):
            ST.differential(ctx, 'C18 %s, %dx%d float32 image' % (nm_, h_, w_), f_, rtol=1e-4, atol=1e-5, cls={'fn': nm_}, must_return=True)
    __import__('harness.props.genfoveation', fromlist=['x']).check_generated_foveation(ctx)   # regenerated definitions vs /repo

def replay(ctx, rep):
    from odak.learn.perception.spatial_steerable_pyramid import pad_image_for_pyramid
    r = rep['replay']
    if r.get('fn') == 'make_radial_map':
        what, text = radial_map_check(r['gaze'], r['size'][0], r['size'][1]); print(text); return what is None
    if r.get('fn') == 'make_equi_pooling_size_map':
        what, text = equi_maps_check(r['angles'], r['size'][0], r['size'][1], r['alpha'], r['mode']); print(text); return what is None
    if r.get('fn') == 'blur' and 'torch_seed' in r:
        what, text, _ = blur_check(r['size'][0], r['size'][1], r['centre'], r['alpha'], r['mode'], r['equi'], r['torch_seed'], channels=r['channels'], batch=r['batch'])
        print(text); return what is None
    if 'levels' not in r:
        return True
    h, w, n = r['h'], r['w'], r['levels']
    x = torch.arange(1, h * w + 1, dtype=torch.float32).reshape(1, 1, h, w)
    y = pad_image_for_pyramid(x, n)
    print('input', (h, w), 'output', tuple(y.shape[-2:]))
    d = 2 ** n
    return y.shape[-2] % d == 0 and y.shape[-1] % d == 0 and bool(torch.equal(y[:, :, :h, :w], x))
