"""C16 – depth-plane slicing partitions the image exactly.
Correspondence: plane index of every pixel (multiplane_loss / perceptual_multiplane_loss masks, slice_rgbd_targets masks) vs the
Lean model; monitors: masks disjoint and covering, targets sum to the image channel by channel, all-in-focus target = image,
defocus keeps in-focus pixels, single plane reproduces the image."""
import logging
import warnings
import numpy as np
import torch
from ..lib.core import f2b, b2f

logging.disable(logging.WARNING)
warnings.filterwarnings('ignore')

TRUSTED = ['torch.round(decimals=0) is round-half-to-even; mask comparison == i on float tensors']
ASSUMPTIONS = ['depth maps in [0, 1] (float32), images >= 0, plane positions sorted and spanning the depth range']


def depth_map(rng, n, h, w):
    d = np.array([[rng.random() for _ in range(w)] for _ in range(h)], dtype=np.float64)
    vals = [0.0, 1.0]
    if n > 1:
        for k in range(n):
            vals += [k / (n - 1), min(1.0, max(0.0, k / (n - 1) + 0.5 / (n - 1))), min(1.0, max(0.0, k / (n - 1) - 0.5 / (n - 1)))]
    flat = d.reshape(-1)
    for i, v in enumerate(vals):
        if i < len(flat):
            flat[i] = v
    return np.float32(d)


def run(ctx):
    import odak.learn.wave as LW
    from odak.learn.perception.util import slice_rgbd_targets
    rng = ctx.rng
    ctx.rule = ('random images (1 and 3 channels, several sizes) x depth maps containing 0, 1, k/(n-1) and k/(n-1) +- 0.5/(n-1) exactly x '
                'plane counts 1..6 x both loss classes x slice_rgbd_targets; non-trivial = n >= 2; distinct by (class, channels, n, size)')
    cases = []
    for n in range(1, ctx.n(6, 9) + 1):
        for ch in (1, 3):
            for (h, w) in ([(6, 7)] if ctx.quick else [(6, 7), (9, 4), (16, 16)]):
                cases.append((n, ch, h, w))
    if ctx.quick:
        cases += [(3, 3, 16, 16), (2, 3, 16, 16)]
    for (n, ch, h, w) in cases:
        depth = depth_map(rng, n, h, w)
        image = np.float32(np.array([[[rng.random() for _ in range(w)] for _ in range(h)] for _ in range(ch)]))
        rec = {'planes': n, 'channels': ch, 'h': h, 'w': w, 'seed': ctx.seed}
        # ONE image tensor and ONE depth tensor serve every object built for this case (as a caller would do): what the second
        # object computes from them must be what it would compute from pristine copies (`image`, `depth` keep the reference values)
        timg, tdepth = torch.from_numpy(image.copy()), torch.from_numpy(depth.copy())
        # model plane indices
        flat = depth.reshape(-1)
        mo = ctx.model.ask(['plane_of %d %d' % (n, f2b(float(v))) for v in flat]) if ctx.drv_ok else None
        model_idx = np.array([b2f(t) for t in mo]).reshape(h, w) if mo is not None else None
        for cls_name in ('multiplane_loss', 'perceptual_multiplane_loss'):
            if cls_name == 'perceptual_multiplane_loss' and (ch != 3 or h < 16):
                continue
            ctx.case((cls_name, n, ch, h, w), n >= 2, dict(rec, cls=cls_name))
            ctx.count('%s/ch%d/n%d' % (cls_name, ch, n))
            try:
                if cls_name == 'multiplane_loss':
                    obj = LW.multiplane_loss(timg, tdepth, number_of_planes=n, target_blur_size=5, blur_ratio=0.5,
                                             scheme='defocus')
                    obj_nb = LW.multiplane_loss(timg, tdepth, number_of_planes=n, target_blur_size=5, scheme='none')
                else:
                    obj = LW.perceptual_multiplane_loss(timg, tdepth, number_of_planes=n, target_blur_size=5, blur_ratio=0.5,
                                                        scheme='defocus', base_loss_weights={'base_l2_loss': 1.})
                    obj_nb = LW.perceptual_multiplane_loss(timg, tdepth, number_of_planes=n, target_blur_size=5, scheme='none',
                                                           base_loss_weights={'base_l2_loss': 1.})
            except Exception as e:
                ctx.violation('%s(number_of_planes=%d, channels=%d) raised %r' % (cls_name, n, ch, e), dict(rec, cls=cls_name),
                              {'fn': cls_name, 'what': 'raises', 'planes': n})
                continue
            masks = obj_nb.masks.numpy()                   # [n, ch, h, w]
            # what get_targets hands out is the caller's copy: a caller that rescales / clears it (display, normalisation) does not change what the
            # next query returns, nor what the loss compares with
            first = [t.clone() for t in obj_nb.get_targets()]
            handed = obj_nb.get_targets()
            for t in handed:
                if t.numel():
                    t.mul_(0.5).add_(3.0)
            again = obj_nb.get_targets()
            ctx.count('get_targets/queried again after the caller changed what it got')
            if any(a.shape != b.shape or not torch.equal(a, b) for a, b in zip(first, again)):
                ctx.violation('%s.get_targets(): after the caller changed the tensors it was handed, the next query returns other targets than the first '
                              '(max difference %.3g): the object hands out its own storage' % (cls_name, max(float((a - b).abs().max()) for a, b in zip(first, again) if a.shape == b.shape and a.numel())),
                              dict(rec, cls=cls_name), {'fn': cls_name, 'what': 'targets_handed_out_by_reference', 'planes': n})
            targets_nb, focus, _ = obj_nb.get_targets()
            targets_nb, focus = targets_nb.numpy(), focus.numpy()
            targets_df = obj.get_targets()[0].numpy()
            cover = masks.sum(axis=0)
            if not (np.all((masks == 0) | (masks == 1)) and np.all(cover == 1)):
                ctx.violation('%s: plane masks are not a partition (pixel covered %s times)' % (cls_name, np.unique(cover).tolist()),
                              dict(rec, cls=cls_name), {'fn': cls_name, 'what': 'partition', 'planes': n})
            if not np.allclose(targets_nb.sum(axis=0), image, atol=1e-6):
                ctx.violation('%s: in-focus plane targets do not sum to the image' % cls_name, dict(rec, cls=cls_name),
                              {'fn': cls_name, 'what': 'targets_sum', 'planes': n})
            if focus.shape != image.shape or not np.allclose(focus, image, atol=1e-6):
                ctx.violation('%s: the all-in-focus target differs from the image (max error %.3g, %d channels)'
                              % (cls_name, float(np.max(np.abs(focus - image))), ch), dict(rec, cls=cls_name),
                              {'fn': cls_name, 'what': 'focus_target', 'channels': ch})
            infocus = masks == 1
            if not np.allclose(targets_df[infocus], (masks * image[None])[infocus] * obj.multiplier, atol=1e-5):
                ctx.violation('%s: defocus blur changes in-focus pixels (max %.3g)' % (cls_name, float(np.max(np.abs(targets_df[infocus] - (masks * image[None])[infocus])))),
                              dict(rec, cls=cls_name), {'fn': cls_name, 'what': 'defocus_infocus', 'planes': n})
            if n == 1 and not np.allclose(targets_nb[0], image, atol=1e-6):
                ctx.violation('%s: a single plane does not reproduce the image' % cls_name, dict(rec, cls=cls_name),
                              {'fn': cls_name, 'what': 'single_plane'})
            if model_idx is not None:
                impl_idx = np.argmax(masks[:, 0], axis=0)
                # float32 products landing within rounding distance of a half-integer are ties in one precision and not
                # in the other: accept either neighbour there
                prod = depth.astype(np.float64) * (n - 1)
                tie = np.abs(np.abs(prod - np.floor(prod)) - 0.5) < 1e-5
                diff = (impl_idx != model_idx.astype(int)) & ~(tie & (np.abs(impl_idx - model_idx) <= 1))
                if diff.any():
                    k = np.argwhere(diff)[0]
                    ctx.alarm('correspondence', '%s: pixel of depth %r is in plane %d, model says %d (n=%d)'
                              % (cls_name, float(depth[k[0], k[1]]), int(impl_idx[k[0], k[1]]), int(model_idx[k[0], k[1]]), n))
        # ---- defocus with other (larger) blur sizes: the i = j kernel must stay a delta for every kernel length the constructor can produce
        if (n, ch, h, w) in ((3, 3, 16, 16), (2, 3, 16, 16)) or (not ctx.quick and h >= 9 and n in (2, 4)):
            for bs in ((10, 33, 56, 76) if ctx.quick else (7, 10, 20, 21, 33, 47, 56, 76, 90, 104, 128)):
                ctx.case(('defocus_blur_size', n, ch, h, w, bs), True)
                ctx.count('defocus/blur_size_%d' % bs)
                try:
                    ob = LW.multiplane_loss(timg, tdepth, number_of_planes=n, target_blur_size=bs, blur_ratio=0.5, scheme='defocus')
                except Exception as e:
                    ctx.violation('multiplane_loss(target_blur_size=%d) raised %r' % (bs, e), dict(rec, blur_size=bs), {'fn': 'multiplane_loss', 'what': 'raises'})
                    continue
                tg_df = ob.get_targets()[0].numpy()
                mk_df = ob.masks.numpy()
                inf_ = mk_df == 1
                ref_ = (mk_df * image[None])[inf_] * ob.multiplier
                if not np.all(np.isfinite(tg_df)) or not np.allclose(tg_df[inf_], ref_, atol=1e-5):
                    ctx.violation('multiplane_loss(target_blur_size=%d): defocus blur changes in-focus pixels (finite: %s, max deviation %s)'
                                  % (bs, bool(np.all(np.isfinite(tg_df))), float(np.nanmax(np.abs(tg_df[inf_] - ref_))) if np.any(np.isfinite(tg_df[inf_])) else 'nan'),
                                  dict(rec, blur_size=bs), {'fn': 'multiplane_loss', 'what': 'defocus_infocus', 'blur_size': bs})
                    break
        # ---- slice_rgbd_targets: sorted positions spanning the depth range
        if n >= 1:
            for variant in ('linspace', 'random', 'duplicates'):
                if variant == 'linspace':
                    ps = np.linspace(0, 1, n + 1)
                elif variant == 'random':
                    ps = np.sort(np.array([0.0, 1.0] + [rng.random() for _ in range(n - 1)]))
                else:
                    ps = np.sort(np.array([0.0, 1.0] + [rng.choice([0.25, 0.5, 0.5]) for _ in range(n - 1)]))
                ps32 = [float(np.float32(p)) for p in ps]
                depth2 = depth.copy()
                depth2.reshape(-1)[:len(ps32)] = ps32
                tg, mk = slice_rgbd_targets(timg, torch.from_numpy(depth2.copy()).unsqueeze(0), torch.tensor(ps32, dtype=torch.float32))
                mk = mk.numpy(); tg = tg.numpy()
                ctx.case(('slice_rgbd', variant, n, ch, h, w), True, dict(rec, positions=ps32))
                ctx.count('slice_rgbd/' + variant)
                cover = mk.sum(axis=0)
                if not np.all(cover == 1):
                    bad = np.argwhere(cover[0] != 1)[0]
                    ctx.violation('slice_rgbd_targets: pixel of depth %r is in %d planes (positions %s)'
                                  % (float(depth2[bad[0], bad[1]]), int(cover[0][bad[0], bad[1]]), ps32), dict(rec, positions=ps32),
                                  {'fn': 'slice_rgbd_targets', 'what': 'partition', 'variant': variant})
                if not np.allclose(tg.sum(axis=0), image, atol=1e-6):
                    ctx.violation('slice_rgbd_targets: targets do not sum to the image', dict(rec, positions=ps32),
                                  {'fn': 'slice_rgbd_targets', 'what': 'targets_sum', 'variant': variant})
                if ctx.drv_ok:
                    flat2 = depth2.reshape(-1)
                    mo2 = ctx.model.ask(['slices %d %s' % (f2b(float(v)), ' '.join(str(f2b(p)) for p in ps32)) for v in flat2])
                    for idx, line in enumerate(mo2):
                        want = [int(t) for t in line.split()]
                        got = [i + 1 for i in range(n) if mk[i, 0].reshape(-1)[idx] == 1]
                        if want != got:
                            ctx.alarm('correspondence', 'slice_rgbd_targets: depth %r in planes %s, model says %s (positions %s)'
                                      % (float(flat2[idx]), got, want, ps32))
                            break
    # ---- the targets of a float32 image and depth map do not depend on global settings of torch (default dtype float64, grad mode off): masks still cover
    # the image, plane targets still sum to it.  Plane counts whose spacing 1/(n-1) is not a power of two included.
    from ..lib import settings as ST
    for n_ in (2, 3, 4, 6, 7, 11):
        g = torch.Generator().manual_seed(ctx.seed + n_)
        img_ = torch.rand(3, 12, 13, generator=g, dtype=torch.float32)
        dep_ = (torch.randint(0, 256, (12, 13), generator=g).to(torch.float32) / 255.)

        def targets(scheme, n_=n_, img_=img_, dep_=dep_):
            ob = LW.multiplane_loss(img_.clone(), dep_.clone(), number_of_planes=n_, target_blur_size=5, scheme=scheme)
            t, f, d = ob.get_targets()
            return [t, f, d, ob.masks.sum(dim=0)]
        for scheme in ('none', 'defocus'):
            ST.differential(ctx, 'C16 multiplane_loss targets, %d planes, scheme %s (float32 image and depth)' % (n_, scheme), lambda scheme=scheme: targets(scheme),
                            rtol=1e-5, atol=1e-6, cls={'fn': 'multiplane_loss', 'planes': n_}, must_return=True)
    from .genslicers import check_generated_slicers
    check_generated_slicers(ctx)           # the definitions regenerated from the source (Generated/Slicers.lean) vs the real code
    from .gendefocus import check_generated_defocus; check_generated_defocus(ctx)   # Generated/Defocus.lean vs generate_2d_gaussian / add_defocus_blur
    __import__('harness.props.genobjects', fromlist=['x']).check_loss_objects(ctx)   # regenerated loss OBJECTS vs /repo (work package 13)
    __import__('harness.props.genobjects_inst', fromlist=['x']).check_loss_instance(ctx)   # multiplane_loss INSTANTIATED with the regenerated slicers, at Float, every call vs /repo (work package 16)


def replay(ctx, rep):
    import odak.learn.wave as LW
    r = rep['replay']
    g = torch.Generator().manual_seed(r.get('seed', 0))
    img = torch.rand(r['channels'], r['h'], r['w'], generator=g)
    d = torch.rand(r['h'], r['w'], generator=g)
    obj = LW.multiplane_loss(img, d, number_of_planes=r['planes'], target_blur_size=5, scheme='none')
    focus = obj.get_targets()[1]
    print('max |focus - image| =', float((focus - img).abs().max()))
    return bool(torch.allclose(focus, img, atol=1e-6))
