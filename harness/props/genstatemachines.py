"""Executable tie of the REGENERATED state machines (OdakModel/Generated/StateMachines.lean, written by harness/translate/statemachines.py from
the current source) to the implementation: the DECISION sequence.

The regenerated step functions are run by the model driver on abstract tokens (ops gsm_* of OdakModel/Exec/OpsGenState.lean: integers
standing for object identities, shapes and contents); for every call they report which attributes they stored, or that the call raises.
The real objects get the same argument sequence; which attributes were REPLACED by a call is observed through object identity (the old
objects are kept alive, so an identity cannot be reused).  Compared per call: the set of tensor / list valued attributes stored by the model
against the set replaced by the implementation (scalar attributes such as `alpha` are interned Python objects: not observable by identity),
and "raises" against "raises".

`compare_decisions` does this for the sequences the C17 history monitor runs anyway (one decision bit per call), `check_generated_state_machines`
for its own sequences over all five classes with every observable attribute (colour space, single-channel images, `visualise_loss`, both blur
modes, equirectangular flag), for the all-zero first target of `MetamericLossUniform`, and for the regenerated fovea mask formula against the
mask the real `calc_statsmaps` leaves (including a level-of-detail map whose maximum is 0).

A disagreement means the translator mis-read the source (or the accepted model is not the source any more): `ctx.alarm('correspondence', …)`."""
import logging
import warnings
import torch
from ..lib.core import f2b, b2f

logging.disable(logging.WARNING)
warnings.filterwarnings('ignore')

MODES = {'quadratic': 0, 'linear': 1}
SPACES = {'RGB': 0, 'YCrCb': 1}


def micro(x):
    return int(round(float(x) * 1e6))


def tok(ident, shape, val):
    """a [1, c, h, w] tensor as a token: identity, h, w, c, content"""
    return '%d %d %d %d %d' % (ident, shape[2], shape[3], shape[1], val)


# ---------------------------------------------------------------------------------------------------------------- observation
OBSERVED = {
    'RadiallyVaryingBlur': ['lod_map', 'lod_fraction'],
    'BlurLoss': ['blur', 'blur.lod_map', 'blur.lod_fraction'],
    'MetamericLoss': ['target', 'target_gaze', 'target_stats', 'fovea_mask', 'loss_map'],
    'MetamericLossUniform': ['target', 'target_stats', 'loss_map'],
    'MetamerMSELoss': ['target', 'target_gaze', 'target_metamer', 'metameric_loss.fovea_mask'],
}
_UNSET = object()


def snapshot(obj, names):
    out = {}
    for n in names:
        o = obj
        for part in n.split('.'):
            o = getattr(o, part, _UNSET) if o is not None and o is not _UNSET else _UNSET
        out[n] = o
    return out


def replaced(before, after):
    return set(n for n in before if after[n] is not before[n])


def model_logs(ctx, line):
    out = ctx.model.ask([line])[0]
    return [None if c == 'RAISE' else (set() if c == '-' else set(c.split(','))) for c in out.split('|')] if out else []


def compare(ctx, cls, what, calls_impl, logs_model, names):
    """calls_impl: per call the set of replaced attributes or None (raised); logs_model: the same from the regenerated step function"""
    ok = True
    for k, got in enumerate(calls_impl):
        mo = logs_model[k] if k < len(logs_model) else 'missing'
        if mo == 'missing':
            ctx.alarm('correspondence', '%s (%s): the regenerated step function stops after call %d, the implementation continues' % (cls, what, k - 1))
            return False
        if got is None or mo is None:
            if (got is None) != (mo is None):
                ctx.alarm('correspondence', '%s (%s): call %d %s in the implementation and %s in the regenerated step function'
                          % (cls, what, k, 'raises' if got is None else 'returns', 'raises' if mo is None else 'returns'))
                ok = False
            break
        mo = set(n for n in mo if n in names)
        if mo != got:
            ctx.alarm('correspondence', '%s (%s): call %d replaces the attributes %s, the regenerated step function stores %s'
                      % (cls, what, k, sorted(got), sorted(mo)))
            ok = False
            break
    return ok


# ---------------------------------------------------------------------------------------------------------------- the C17 monitor's sequences
CONFIG = {      # class label of harness/props/C17.py -> (model op head, cached attribute)
    'MetamericLoss': ('gsm_metameric 200000 200000 700000 2 0 1 0 0 0', 'target_stats'),
    'MetamericLoss/radial_weight': ('gsm_metameric 200000 200000 700000 2 0 1 1 0 0', 'target_stats'),
    'MetamericLoss/fullres_l0': ('gsm_metameric 200000 200000 700000 2 0 0 0 1 0', 'target_stats'),
    'MetamericLoss/no_foveal_l2': ('gsm_metameric 200000 200000 700000 2 1 0 0 0 0', 'target_stats'),
    'MetamerMSELoss': ('gsm_metamermse 200000 200000 700000 2 0', 'target_metamer'),
    'MetamericLossUniform': ('gsm_uniform 8 2', 'target_stats'),
}


def compare_decisions(ctx, cls, seq, decisions, shapes=((1, 3, 32, 32), (1, 3, 48, 32))):
    """the refresh decisions C17.py recorded for the call sequence `seq` of (size, target, gaze) indices vs the regenerated step function"""
    if not ctx.drv_ok or cls not in CONFIG:
        return
    head, attr = CONFIG[cls]
    parts = []
    for i, (s, k, g) in enumerate(seq):
        sh = shapes[s]
        img, tgt = tok(2 * i + 1, sh, 1000 * s + 7 + k), tok(2 * i + 2, sh, 100 + 10 * s + k)
        if cls == 'MetamericLossUniform':
            parts.append('%s %s 0 0' % (img, tgt))
        elif cls == 'MetamerMSELoss':
            parts.append('%s %s %d' % (img, tgt, g))
        else:
            parts.append('%s %s %d 0 0' % (img, tgt, g))
    logs = model_logs(ctx, '%s %d %s' % (head, len(seq), ' '.join(parts)))
    mo = [None if l is None else int(attr in l) for l in logs]
    ctx.count('regenerated step function vs recorded decisions/' + cls)
    if mo != list(decisions):
        ctx.alarm('correspondence', '%s: cache refresh decisions %s differ from those of the REGENERATED step function %s for sequence %s'
                  % (cls, list(decisions), mo, seq))


# ---------------------------------------------------------------------------------------------------------------- own sequences
def _img(seed, shape):
    return torch.rand(shape, generator=torch.Generator().manual_seed(seed))


def check_generated_state_machines(ctx):
    if not ctx.drv_ok:
        return
    import odak.learn.perception as P
    from odak.learn.perception.radially_varying_blur import RadiallyVaryingBlur
    rng = ctx.rng
    gazes = [[0.5, 0.5], [0.2, 0.7], [0.9, 0.1]]
    shapes = [(1, 3, 32, 32), (1, 3, 48, 32), (1, 1, 32, 32)]
    nseq = ctx.n(1, 8)

    def rand_calls(nshapes=3):
        L = rng.randint(*ctx.n((3, 4), (4, 6)))
        out = []
        for _ in range(L):
            if out and rng.random() < 0.6:
                s, k, g = out[-1][:3]
                c = rng.random()
                if c < 0.4:
                    g = rng.randrange(3)
                elif c < 0.55:
                    s = rng.randrange(nshapes)
                elif c < 0.7:
                    k = rng.randrange(3)
            else:
                s, k, g = rng.randrange(nshapes), rng.randrange(3), rng.randrange(3)
            out.append((s, k, g, rng.choice(['RGB', 'RGB', 'YCrCb']), rng.random() < 0.2))
        return out

    # ---- RadiallyVaryingBlur.blur
    for it in range(nseq):
        b = RadiallyVaryingBlur()
        seq = []
        for _ in range(rng.randint(*ctx.n((4, 5), (4, 7)))):
            if seq and rng.random() < 0.35:
                seq.append(seq[-1])
            else:
                seq.append((rng.randrange(3), rng.choice([0.1, 0.3]), rng.choice([0.2, 0.4]), rng.randrange(3), rng.choice(['quadratic', 'linear']),
                            rng.random() < 0.25))
        impl, parts = [], []
        for (s, alpha, width, g, mode, equi) in seq:
            sh = shapes[s]
            before = snapshot(b, OBSERVED['RadiallyVaryingBlur'])
            try:
                b.blur(_img(5, sh), alpha, width, 0.7, gazes[g], mode, equi)
                impl.append(replaced(before, snapshot(b, OBSERVED['RadiallyVaryingBlur'])))
            except Exception:
                impl.append(None)
            parts.append('%d %d %d %d %d %d %d %d %d' % (sh[2], sh[3], sh[1], micro(alpha), micro(width), micro(0.7), g, MODES[mode], int(equi)))
        ctx.case(('gsm', 'RadiallyVaryingBlur', tuple(seq)), True)
        ctx.count('regenerated step function vs replaced attributes/RadiallyVaryingBlur')
        ctx.traces += 1
        compare(ctx, 'RadiallyVaryingBlur', 'sequence %s' % (seq,), impl, model_logs(ctx, 'gsm_blur %d %s' % (len(seq), ' '.join(parts))),
                OBSERVED['RadiallyVaryingBlur'])

    # ---- the four loss classes
    def run_class(label, cls, make, head, line_of, call_of, seq):
        obj = make()
        impl, parts = [], []
        for i, c in enumerate(seq):
            sh = shapes[c[0]]
            image, target = _img(7 + c[1] + 50 * c[0], sh), _img(100 + 10 * c[0] + c[1], sh)
            before = snapshot(obj, OBSERVED[cls])
            try:
                call_of(obj, image, target, c)
                impl.append(replaced(before, snapshot(obj, OBSERVED[cls])))
            except Exception:
                impl.append(None)
            parts.append(line_of(tok(2 * i + 1, sh, 1000 * c[0] + 7 + c[1]), tok(2 * i + 2, sh, 100 + 10 * c[0] + c[1]), c))
            if impl[-1] is None:
                break
        ctx.case(('gsm', label, tuple(seq)), True)
        ctx.count('regenerated step function vs replaced attributes/' + label)
        ctx.traces += 1
        compare(ctx, label, 'sequence %s of (size, target, gaze, colour space, visualise)' % (seq,), impl,
                model_logs(ctx, '%s %d %s' % (head, len(parts), ' '.join(parts))), OBSERVED[cls])

    for it in range(nseq):
        for l2, radial, mode in ((True, False, 'quadratic'), (False, True, 'linear'))[(ctx.seed + it) % 2 if ctx.quick else 0:][:1 if ctx.quick else 2]:
            run_class('MetamericLoss/l2=%s' % l2, 'MetamericLoss',
                      lambda: P.MetamericLoss(n_pyramid_levels=2, n_orientations=2, use_l2_foveal_loss=l2, use_radial_weight=radial, mode=mode),
                      'gsm_metameric 200000 200000 700000 2 %d %d %d 0 0' % (MODES[mode], int(l2), int(radial)),
                      lambda i, t, c: '%s %s %d %d %d' % (i, t, c[2], SPACES[c[3]], int(c[4])),
                      lambda o, i, t, c: o(i, t, gaze=gazes[c[2]], image_colorspace=c[3], visualise_loss=c[4]), rand_calls())
        run_class('MetamericLossUniform', 'MetamericLossUniform',
                  lambda: P.MetamericLossUniform(n_pyramid_levels=2, n_orientations=2, pooling_size=8), 'gsm_uniform 8 2',
                  lambda i, t, c: '%s %s %d %d' % (i, t, SPACES[c[3]], int(c[4])),
                  lambda o, i, t, c: o(i, t, image_colorspace=c[3], visualise_loss=c[4]), rand_calls())
        run_class('MetamerMSELoss', 'MetamerMSELoss', lambda: P.MetamerMSELoss(n_pyramid_levels=2, n_orientations=2),
                  'gsm_metamermse 200000 200000 700000 2 0', lambda i, t, c: '%s %s %d' % (i, t, c[2]),
                  lambda o, i, t, c: o(i, t, gaze=gazes[c[2]]), rand_calls(nshapes=2))   # gen_metamer converts RGB -> YCrCb unconditionally: 3 channels only
        for src, mode in ((True, 'quadratic'), (False, 'linear')):
            run_class('BlurLoss/blur_source=%s' % src, 'BlurLoss', lambda: P.BlurLoss(blur_source=src, mode=mode),
                      'gsm_blurloss %d 200000 200000 700000 %d 0' % (int(src), MODES[mode]), lambda i, t, c: '%s %s %d' % (i, t, c[2]),
                      lambda o, i, t, c: o(i, t, gaze=gazes[c[2]]), rand_calls())

    # ---- MetamericLossUniform, all-zero prepared target on a NEW object: MONITORED (up to /repo 20de69e a new object compared the target with
    #      zeros(target.shape), skipped calc_statsmaps and raised AttributeError; theorem C17_gen_metameric_loss_uniform_zero_target_first_call_returns)
    for sh, space in (((1, 1, 32, 32), 'RGB'), ((1, 3, 32, 32), 'YCrCb')):
        image, zero, other = _img(3, sh), torch.zeros(sh), _img(4, sh)
        rec = {'class': 'MetamericLossUniform', 'shape': list(sh), 'image_colorspace': space, 'target': 'all zeros', 'seed': ctx.seed}

        def attempt(obj):
            try:
                return float(obj(image, zero, image_colorspace=space))
            except Exception as e:
                return 'raises %s' % type(e).__name__
        first = attempt(P.MetamericLossUniform(n_pyramid_levels=2, n_orientations=2, pooling_size=8))
        later_obj = P.MetamericLossUniform(n_pyramid_levels=2, n_orientations=2, pooling_size=8)
        later_obj(image, other, image_colorspace=space)
        later = attempt(later_obj)
        ctx.case(('gsm', 'MetamericLossUniform/zero target', sh, space), True, rec)
        ctx.count('MetamericLossUniform/all-zero prepared target (%d channels, %s): new object %s, object with a history %s'
                  % (sh[1], space, 'returns' if not isinstance(first, str) else first, 'returns' if not isinstance(later, str) else later))
        same = not isinstance(first, str) and not isinstance(later, str) and abs(first - later) <= 1e-5 * max(1.0, abs(later))
        if not same:
            ctx.violation('MetamericLossUniform with an all-zero prepared target (%d channels, colour space %s): a new object gives %s, an object that saw '
                          'another target before gives %s' % (sh[1], space, first, later), rec,
                          {'class': 'MetamericLossUniform', 'what': 'zero_target_first_call'})
        cs = SPACES[space]
        lines = ['gsm_uniform 8 2 1 %s %s %d 0' % (tok(1, sh, 11), tok(2, sh, 0), cs),
                 'gsm_uniform 8 2 2 %s %s %d 0 %s %s %d 0' % (tok(1, sh, 11), tok(2, sh, 12), cs, tok(3, sh, 11), tok(4, sh, 0), cs)]
        m_first, m_later = [o.split('|') for o in ctx.model.ask(lines)]
        mo = ['raises' if m[-1] == 'RAISE' else 'returns' for m in (m_first, m_later)]
        im = ['raises' if isinstance(v, str) else 'returns' for v in (first, later)]
        if mo != im or (mo[0] == 'returns' and 'target_stats' not in m_first[0].split(',')):
            ctx.alarm('correspondence', 'MetamericLossUniform with an all-zero prepared target: the implementation %s on a new object and %s after another '
                      'call, the regenerated step function %s / %s (stores on the first call: %s)' % (im[0], im[1], mo[0], mo[1], m_first[0]))

    # ---- the fovea mask formula of MetamericLoss.calc_statsmaps
    lines, expect = [], []
    for (width, dist, alpha, side) in ((2.0, 0.3, 0.2, 32), (0.2, 0.7, 0.2, 32)) + (() if ctx.quick else ((0.2, 0.7, 0.2, 64),)):
        L = P.MetamericLoss(n_pyramid_levels=2, n_orientations=2, alpha=alpha, real_image_width=width, real_viewing_distance=dist)
        L(_img(1, (1, 1, side, side)), _img(2, (1, 1, side, side)), gaze=[0.3, 0.6])
        lod = L.blurs[0].lod_map.double()
        fov, per = L.fovea_mask[0, 0].double(), L.periphery_mask[0, 0].double()
        mx = float(lod.max())
        ctx.count('fovea mask/max lod %s' % ('= 0' if mx == 0 else '> 0'))
        if not (torch.isfinite(fov).all() and torch.isfinite(per).all()):
            ctx.alarm('correspondence', 'fovea mask of MetamericLoss (width %g, distance %g, alpha %g, %d px) is not finite; max lod = %g' % (width, dist, alpha, side, mx))
        idx = [(int(lod.argmax()) // side, int(lod.argmax()) % side), (int(lod.argmin()) // side, int(lod.argmin()) % side)]
        idx += [(rng.randrange(side), rng.randrange(side)) for _ in range(ctx.n(20, 100))]
        for (i, j) in idx:
            lines.append('gsm_fovea %d %d' % (f2b(float(lod[i, j])), f2b(mx)))
            expect.append((float(fov[i, j]), float(per[i, j]), float(lod[i, j]), mx))
            ctx.case(('gsm', 'fovea', side, i, j, width), True)
    for line, (fv, pv, l, mx) in zip(ctx.model.ask(lines), expect):
        mf, mp = [b2f(t) for t in line.split()]
        if not (abs(mf - fv) <= 2e-5 and abs(mp - pv) <= 2e-5):
            ctx.alarm('correspondence', 'fovea mask at lod %r (max %r): implementation (%r, %r), regenerated formula (%r, %r)' % (l, mx, fv, pv, mf, mp))
            break
