"""Executable tie of lean/OdakModel/Generated/Quantisers.lean (the output of harness/translate/quantisers.py): the generated
per-sample definitions are evaluated at Float by the driver (lean/OdakModel/Exec/OpsGenQuant.lean) and compared with
produce_phase_only_slm_pattern (with and without illumination), adjust_phase_only_slm_range, torch quantize, and the statement of
multi_color_hologram_optimizer.optimize that turns the optimised phase into the returned phase (that statement is taken from the
source of /repo as it is now and evaluated with the real `quantize`): SLM ranges other than 2 pi, several bit depths, limits other
than [0, 1].  Tiny negative phases are left out: that is where the known float findings F04 / F05 live (x % r == r), which the
monitors of C09.py report; samples whose scaled value is within 1e-6 of an integer are left out of the LEVEL comparison (one ulp
of the modulo decides the truncation there).  A disagreement is a broken correspondence, reported as an alarm."""
import ast
import logging
import math
import os
import warnings
import numpy as np
import torch
from ..lib.core import f2b, b2f, REPO

logging.disable(logging.WARNING)
warnings.filterwarnings('ignore')


def optimiser_statement():
    """the right-hand side of `hologram_phases = quantize(...) ...` in multi_color_hologram_optimizer.optimize, compiled"""
    with open(os.path.join(REPO, 'odak/learn/wave/optimizers.py')) as f:
        tree = ast.parse(f.read())
    for cls in tree.body:
        if isinstance(cls, ast.ClassDef) and cls.name == 'multi_color_hologram_optimizer':
            for fn in cls.body:
                if isinstance(fn, ast.FunctionDef) and fn.name == 'optimize':
                    sts = [st for st in fn.body if isinstance(st, ast.Assign) and ast.unparse(st.targets[0]) == 'hologram_phases'
                           and 'gradient_descent' not in ast.unparse(st.value)]
                    if sts:
                        exprs = [compile(ast.Expression(st.value), '<optimize>', 'eval') for st in sts]
                        return exprs, [ast.unparse(st) for st in sts]
    return None, None


def near_integer(v):
    return abs(v - round(v)) < 1e-6


def check_generated_quantisers(ctx):
    import odak.wave as NW
    import odak.learn.tools as LT
    rng = ctx.rng
    lines, checks = [], []
    ranges = [2 * math.pi, math.pi, 3.0, 2 * math.pi * 1.3, 1.0, 4.5]
    for _ in range(ctx.n(150, 2000)):
        mag = 10 ** rng.uniform(-3, 3)
        th = rng.uniform(-math.pi, math.pi)
        if -1e-6 < th < 0:
            continue                                   # F04: tiny negative phases
        v = complex(mag * math.cos(th), mag * math.sin(th))
        r = rng.choice(ranges)
        bits = rng.choice([1, 2, 4, 6, 8, 10, 12])
        A = rng.choice([0.5, 2.0, 1.0, rng.uniform(0.1, 3)])
        arr = np.array([[v]], dtype=np.complex128)
        pat, dig = NW.produce_phase_only_slm_pattern(arr, r, bits=bits)
        patA, digA = NW.produce_phase_only_slm_pattern(arr, r, bits=bits, illumination=A)
        ph = float(np.angle(v))
        scaled = (ph % r) / r * 2 ** bits
        ctx.case(('gen', 'slm', v.real, v.imag, r, bits), True)
        ctx.count('generated/produce_phase_only_slm_pattern')
        lines.append('gq_slm %d %d %d %d %d' % (f2b(v.real), f2b(v.imag), f2b(r), bits, f2b(A)))
        checks.append(('slm', [pat[0, 0].real, pat[0, 0].imag, float(dig[0, 0]), patA[0, 0].real, patA[0, 0].imag, float(digA[0, 0])],
                       near_integer(scaled), {'field': [v.real, v.imag], 'range': r, 'bits': bits, 'illumination': A}))
    for _ in range(ctx.n(150, 2000)):
        bits = rng.choice([1, 2, 4, 8, 10])
        l0, l1 = rng.choice([(0.0, 1.0), (0.0, 2 * math.pi), (-1.0, 3.0), (0.5, 0.75)])
        x = rng.uniform(l0 - 0.5 * (l1 - l0), l1 + 0.5 * (l1 - l0))
        lvl = float(LT.quantize(torch.tensor([x], dtype=torch.float64), bits=bits, limits=[l0, l1])[0])
        scaled = (x - l0) / (l1 - l0) * 2 ** bits
        ctx.case(('gen', 'quantize', x, bits, l0, l1), True)
        ctx.count('generated/quantize')
        lines.append('gq_quantize %d %d %d %d' % (f2b(x), bits, f2b(l0), f2b(l1)))
        checks.append(('quantize', [lvl], near_integer(scaled), {'x': x, 'bits': bits, 'limits': [l0, l1]}))
    exprs, texts = optimiser_statement()
    if exprs is None:
        ctx.alarm('correspondence', 'generated quantisers: the phase statement of multi_color_hologram_optimizer.optimize was not found')
    else:
        for _ in range(ctx.n(150, 2000)):
            bits = rng.choice([1, 2, 4, 8, 10])
            phi = rng.uniform(-20, 20)
            if -1e-6 < phi < 0:
                continue                               # F05 / F32
            val = torch.tensor([phi], dtype=torch.float64)
            for e in exprs:
                val = eval(e, {'quantize': LT.quantize, 'torch': torch, 'hologram_phases': val, 'bits': bits})
            scaled = (phi % (2 * math.pi)) / (2 * math.pi) * 2 ** bits
            ctx.case(('gen', 'optimize', phi, bits), True)
            ctx.count('generated/optimize phase statement')
            lines.append('gq_qphase %d %d' % (f2b(phi), bits))
            checks.append(('optimize phase statement', [float(val[0])], near_integer(scaled), {'phase': phi, 'bits': bits, 'statement': texts}))
    for _ in range(20):
        r, w, n = rng.uniform(1, 7), rng.uniform(400e-9, 700e-9), rng.uniform(400e-9, 700e-9)
        ctx.count('generated/adjust_phase_only_slm_range')
        lines.append('gq_adjust %d %d %d' % (f2b(r), f2b(w), f2b(n)))
        checks.append(('adjust_phase_only_slm_range', [float(NW.adjust_phase_only_slm_range(r, w, n))], False, {'r': r, 'w': w, 'n': n}))
    if ctx.drv_ok and lines:
        outs = ctx.model.ask(lines)
        bad = 0
        for (tag, want, skip, rec), out in zip(checks, outs):
            if skip:
                continue
            try:
                got = [b2f(t) for t in out.split()]
            except ValueError:
                got = []
            # `.int() / 2 ** bits` is a float32 division in torch: the optimiser statement is compared to float32 accuracy
            tol = 1e-6 if tag == 'optimize phase statement' else 1e-9
            ok = len(got) == len(want) and all(abs(g - w) <= tol * max(1.0, abs(w)) for g, w in zip(got, want))
            if not ok:
                bad += 1
                if bad <= 5:
                    ctx.alarm('correspondence', 'generated %s: implementation %s vs regenerated definition %s (%s)' % (tag, want, got, rec))
    done = set(ctx.extra.get('generated_definitions_checked', []))
    ctx.extra['generated_definitions_checked'] = sorted(done | set(c[0] for c in checks))
