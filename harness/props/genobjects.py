"""Executable tie of the REGENERATED OBJECT MODELS of work package 13 (OdakModel/Generated/PropagatorObject.lean, LossObjects.lean, MeshObject.lean,
written by harness/translate/{propobject, lossobjects, meshobject}.py from the current source) to the implementation: DECISION SEQUENCES.

The regenerated step functions are run by the model driver on abstract tensors (ops gpo_* / glo_* / gmo_* of OdakModel/Exec/OpsGenObj*.lean); for
every call they report which attributes they stored (`x`), which attribute objects they wrote in place (`x[]`) and what kind of thing they returned
(`V` a value / `N` a new object / `A:x` the object the attribute x holds / `O` another object that existed before the call), or that the call raises.
The REAL objects get the same call sequence.  Observed per call: which attributes were REPLACED (object identity; the old objects are kept alive, so
an identity cannot be reused), which attribute tensors were WRITTEN IN PLACE (the tensor's version counter), and whether the returned tensor is an
attribute, shares storage with one, was handed out before, or is new.  Also compared: the attribute names of a constructed object (`vars(obj)`)
against the fields of the regenerated structure, and the order in which `__init__` first assigns them.

A disagreement means the translator mis-read the source or the accepted model is not the source any more: `ctx.alarm('correspondence', ...)`.

Independently of the model, every sequence is a PROPERTY MONITOR on the real code (`ctx.violation` with the concrete sequence): the value of every call
equals what a newly built object (with the laser powers / aperture / heights in force) returns for the same arguments, and a tensor handed out
earlier still holds the value it was returned with after all later calls."""
import logging
import warnings
import torch

logging.disable(logging.WARNING)
warnings.filterwarnings('ignore')


# ---------------------------------------------------------------------------------------------------------------- observation
def snapshot(obj):
    out = {}
    for n, v in vars(obj).items():
        out[n] = (v, v._version if isinstance(v, torch.Tensor) else None)
    return out


def storage_ptr(t):
    try:
        return t.untyped_storage().data_ptr() if t.numel() else None
    except Exception:
        return None


def observe(before, after):
    """(attributes replaced, attribute tensors written in place) between two snapshots"""
    rep, inp = set(), set()
    for n, (v, ver) in after.items():
        if n not in before:
            rep.add(n)
            continue
        v0, ver0 = before[n]
        if v is not v0:
            if isinstance(v, torch.Tensor) or isinstance(v0, torch.Tensor) or v != v0:
                rep.add(n)
        elif isinstance(v, torch.Tensor) and ver != ver0:
            inp.add(n)
    return rep, inp


def classify(ret, after, handed):
    """kind of a returned tensor: 'A:x' (is / shares storage with the attribute x), 'O' (handed out before), 'N' (new)"""
    if not isinstance(ret, torch.Tensor):
        return 'V'
    p = storage_ptr(ret)
    for n, (v, _) in after.items():
        if isinstance(v, torch.Tensor) and (v is ret or (p is not None and storage_ptr(v) == p)):
            return 'A:' + n
    for old in handed:
        if old is ret or (p is not None and storage_ptr(old) == p):
            return 'O'
    return 'N'


def parse(model_out):
    """'log;ret|log;ret|..' -> [(stored set, in-place set, ret) | None]"""
    out = []
    for c in model_out.split('|'):
        if c == 'RAISE':
            out.append(None)
            continue
        fs = c.split(';')
        log, ret = fs[0], fs[1] if len(fs) > 1 else ''
        names = [] if log in ('-', '') else log.split(',')
        out.append((set(n for n in names if not n.endswith('[]') and '.' not in n), set(n[:-2] for n in names if n.endswith('[]')), ret) + tuple(fs[2:]))
    return out


def same_kind(model_ret, impl_ret):
    new = ('V', 'N')
    return (model_ret in new and impl_ret in new) or model_ret == impl_ret


def compare_calls(ctx, label, what, impl, model):
    """impl: per call (replaced, in place, kind of the returned thing) or None (raised); model: the same from the regenerated step functions"""
    for k, got in enumerate(impl):
        if k >= len(model):
            ctx.alarm('correspondence', '%s (%s): the regenerated step functions stop after call %d, the implementation continues' % (label, what, k - 1))
            return False
        mo = model[k]
        if got is None or mo is None:
            if (got is None) != (mo is None):
                ctx.alarm('correspondence', '%s (%s): call %d %s in the implementation and %s in the regenerated step function'
                          % (label, what, k, 'raises' if got is None else 'returns', 'raises' if mo is None else 'returns'))
                return False
            return True
        if len(mo) > 3 and len(got) > 3 and mo[3] != got[3]:
            ctx.alarm('correspondence', '%s (%s): after call %d the slots %s of the flag buffer are set, in the regenerated step function the slots %s'
                      % (label, what, k, got[3] or 'none', mo[3] or 'none'))
            return False
        if mo[0] != got[0] or mo[1] != got[1] or not same_kind(mo[2], got[2]):
            ctx.alarm('correspondence', '%s (%s): call %d replaces the attributes %s, writes %s in place and returns %s; the regenerated step '
                      'function stores %s, writes %s in place and returns %s' % (label, what, k, sorted(got[0]), sorted(got[1]), got[2],
                                                                                   sorted(mo[0]), sorted(mo[1]), mo[2]))
            return False
    return True


def first_occurrences(names):
    out = []
    for n in names:
        if n not in out:
            out.append(n)
    return out


def close(a, b, tol=5e-4):
    if isinstance(a, (tuple, list)):
        return len(a) == len(b) and all(close(x, y, tol) for x, y in zip(a, b))
    a, b = a.detach(), b.detach()
    if a.shape != b.shape:
        return False
    if a.numel() == 0:
        return True
    scale = max(1.0, float(b.abs().max()))
    return bool(((a - b).abs() <= tol * scale).all())


# ---------------------------------------------------------------------------------------------------------------- the propagator
METHODS = ['conventional', 'multi-color']
TYPES = ['forward', 'back and forth']


def check_propagator_object(ctx):
    if not ctx.drv_ok:
        return
    import odak.learn.wave as LW
    rng = ctx.rng
    fields = ctx.model.ask(['gpo_fields'])[0].split(',')
    gen = lambda s: torch.Generator().manual_seed(s)
    for it in range(ctx.n(8, 40)):
        method, ptype = rng.randrange(2), rng.randrange(2)
        nch, nd, nf = rng.randint(1, 3), rng.randint(1, 2), rng.randint(1, 2)
        dgiven, pgiven, apgiven = rng.random() < 0.5, rng.random() < 0.5, rng.random() < 0.5
        si = rng.random() < 0.4                       # metres: wavelengths a few nanometres apart (any absolute tolerance somewhere would merge them)
        lams = [515e-9 + 5e-9 * k for k in range(nch)] if si else [0.5 + 0.07 * k for k in range(nch)]
        args = dict(resolution=[6, 6], wavelengths=lams, pixel_pitch=8e-6 if si else 0.9, number_of_frames=nf, number_of_depth_layers=nd,
                    volume_depth=1e-3 if si else 1.0, image_location_offset=5e-4 if si else 0.5, propagator_type=TYPES[ptype],
                    back_and_forth_distance=2e-3 if si else 1.3, method=METHODS[method], propagation_type='Bandlimited Angular Spectrum')
        dist0 = (torch.linspace(4e-4, 1.1e-3, nd) if si else torch.linspace(0.4, 1.1, nd)) if dgiven else None
        pow0 = (torch.rand(nf, nch, generator=gen(3 + it)) + 0.2) if pgiven else None
        ap0 = (torch.rand(6, 6, generator=gen(5 + it)) + 0.1) if apgiven else None

        def build(powers, aperture_arg):
            """a NEW object with the configuration in force: `aperture_arg` = ('init', tensor or None) or ('set', tensor or None)"""
            q = LW.propagator(distances=dist0.clone() if dgiven else None, laser_channel_power=pow0.clone() if pgiven else None,
                              aperture=ap0.clone() if apgiven else None, **args)
            if aperture_arg[0] == 'set':
                q.set_aperture(aperture_arg[1])
            if powers is not None:
                q.set_laser_powers(powers.clone())
            return q
        p = LW.propagator(distances=dist0, laser_channel_power=pow0, aperture=ap0, **args)
        # ---- attributes of a constructed object
        names = list(vars(p))
        if set(names) != set(fields):
            ctx.alarm('correspondence', 'propagator: a constructed object has the attributes %s, the regenerated structure the fields %s'
                      % (sorted(set(names) - set(fields)) or sorted(names), sorted(set(fields) - set(names)) or sorted(fields)))
            return
        calls, parts = [], []
        n_calls = rng.randint(*ctx.n((4, 7), (4, 10)))
        for k in range(n_calls):
            r = rng.random()
            if r < 0.4:
                c, d = rng.randrange(nch), rng.randrange(nd)
                calls.append(('forward', c, d, 10 + k))
                parts.append('0 %d %d %d' % (c, d, 10 + k))
            elif r < 0.65:
                gc, ng, ag = rng.random() < 0.5, rng.random() < 0.6, rng.random() < 0.3
                calls.append(('reconstruct', gc, ng, ag, 40 + k))
                parts.append('1 %d %d %d %d' % (int(gc), int(ng), int(ag), 40 + k))
            elif r < 0.77:
                calls.append(('set_powers', 70 + k))
                parts.append('2 %d' % (70 + k))
            elif r < 0.87:
                calls.append(('get_powers',))
                parts.append('3')
            elif r < 0.93:
                calls.append(('get_kernels',))
                parts.append('4')
            else:
                given = rng.random() < 0.6
                calls.append(('set_aperture', given, 90 + k))
                parts.append('5 %d %d' % (int(given), 90 + k))
        line = 'gpo_seq %d %d %d %d %d %d %d %d 0 %d %s' % (method, ptype, nch, nd, nf, int(dgiven), int(pgiven), int(apgiven), len(calls), ' '.join(parts))
        out = ctx.model.ask([line])[0]
        init_log, _, rest = out.partition('|')
        model = parse(rest) if rest else []
        if init_log == 'RAISE':
            ctx.alarm('correspondence', 'propagator: the regenerated __init__ raises for a configuration the implementation accepts (%s)' % line)
            continue
        order = first_occurrences(init_log.split(','))
        if order != names:
            ctx.alarm('correspondence', 'propagator.__init__ first assigns its attributes in the order %s, the regenerated __init__ in the order %s' % (names, order))
        # ---- the call sequence on the real object
        impl, handed = [], []
        powers_now, aperture_now = None, ('init', None)
        rec = {'class': 'propagator', 'config': {k_: v for k_, v in args.items()}, 'distances_given': dgiven, 'powers_given': pgiven,
               'aperture_given': apgiven, 'calls': [list(map(lambda z: z if not isinstance(z, bool) else int(z), c)) for c in calls], 'seed': ctx.seed}
        bad = None
        for k, c in enumerate(calls):
            before = snapshot(p)
            fresh = None
            try:
                if c[0] == 'forward':
                    u = torch.rand(6, 6, generator=gen(c[3])) * torch.exp(1j * torch.rand(6, 6, generator=gen(c[3] + 1)))
                    ret = p(u, c[1], c[2])
                    fresh = build(powers_now, aperture_now)(u, c[1], c[2])
                elif c[0] == 'reconstruct':
                    ph = torch.rand(nf, 6, 6, generator=gen(c[4])) * 6.28
                    amp = (torch.rand(nch, 6, 6, generator=gen(c[4] + 1)) + 0.5) if c[3] else None
                    ret = p.reconstruct(ph, amplitude=amp, no_grad=c[2], get_complex=c[1])
                    fresh = build(powers_now, aperture_now).reconstruct(ph, amplitude=amp, no_grad=c[2], get_complex=c[1])
                elif c[0] == 'set_powers':
                    powers_now = torch.rand(nf, nch, generator=gen(c[1])) + 0.3
                    ret = p.set_laser_powers(powers_now.clone())
                elif c[0] == 'get_powers':
                    ret = p.get_laser_powers()
                    fresh = build(powers_now, aperture_now).get_laser_powers()
                elif c[0] == 'get_kernels':
                    ret = p.get_kernels()
                    ret = None                                     # two values computed from the cache: an observer, nothing to compare
                else:
                    a_ = (torch.rand(6, 6, generator=gen(c[2])) + 0.1) if c[1] else None
                    aperture_now = ('set', a_)
                    ret = p.set_aperture(a_)
            except Exception as e:
                impl.append(None)
                ctx.count('propagator object/call raised %s' % type(e).__name__)
                break
            after = snapshot(p)
            rep, inp = observe(before, after)
            flags = ' '.join(sorted('%d.%d' % (int(i_), int(j_)) for i_, j_ in p.generated_kernels.nonzero().tolist()))
            impl.append((rep, inp, classify(ret, after, [h_[0] for h_ in handed]), flags))
            if isinstance(ret, torch.Tensor):
                handed.append((ret, ret.detach().clone(), k, c[0]))
            # property monitor (1): the value a NEW object returns for the same arguments
            if fresh is not None and bad is None and not close(ret, fresh):
                bad = k
                ctx.violation('propagator: call %d (%s) of the sequence %s returns a value that differs from what a newly built propagator with the '
                              'same configuration returns for the same arguments' % (k, c[0], [c_[0] for c_ in calls]), dict(rec, failing_call=k),
                              {'what': 'history', 'fn': c[0], 'object': 'propagator'})
        # property monitor (2): what was handed out earlier still holds its value (the caller did not touch it)
        for (t, copy, k, fn) in handed:
            if fn in ('forward', 'reconstruct') and not close(t, copy, 0.0):
                ctx.violation('propagator: the tensor returned by call %d (%s) of the sequence %s was changed by a later call'
                              % (k, fn, [c_[0] for c_ in calls]), dict(rec, failing_call=k), {'what': 'returned_buffer_overwritten', 'fn': fn, 'object': 'propagator'})
                break
        ctx.case(('gpo', method, ptype, nch, nd, nf, dgiven, pgiven, apgiven, si, tuple(c[0] for c in calls)), True, rec if it < 2 else None)
        ctx.count('regenerated object vs replaced attributes/propagator/%s/%s%s' % (METHODS[method], TYPES[ptype], '/SI units' if si else ''))
        ctx.traces += 1
        compare_calls(ctx, 'propagator', 'configuration %s, calls %s' % (line.split(' ')[1:10], calls), impl, model)


# ---------------------------------------------------------------------------------------------------------------- the multiplane losses
def check_loss_objects(ctx):
    """multiplane_loss / perceptual_multiplane_loss: attribute names and the order `__init__` assigns them, per call which attributes are replaced /
    written in place and what `get_targets` hands out, against the regenerated step functions; monitors: `get_targets` of an object with a history
    equals that of a new object, tensors handed out earlier keep their values, overwriting what was handed out changes nothing"""
    if not ctx.drv_ok:
        return
    import odak.learn.wave as LW
    rng = ctx.rng
    gen = lambda s: torch.Generator().manual_seed(s)
    for cls_id, cls_name in ((0, 'multiplane_loss'), (1, 'perceptual_multiplane_loss')):
        fields = ctx.model.ask(['glo_fields %d' % cls_id])[0].split(',')
        for it in range(ctx.n(3, 12)):
            defocus, planes, bsize, psnr = rng.random() < 0.5, rng.randint(1, 4), rng.choice([3, 4, 5]), (cls_id == 1 and rng.random() < 0.5)
            img0 = torch.rand(3, 16, 16, generator=gen(11 + it))
            dep0 = torch.rand(16, 16, generator=gen(12 + it))

            def build():
                kw = dict(number_of_planes=planes, target_blur_size=bsize, blur_ratio=0.25, scheme='defocus' if defocus else 'naive')
                if cls_id == 0:
                    return LW.multiplane_loss(img0.clone(), dep0.clone(), **kw)
                return LW.perceptual_multiplane_loss(img0.clone(), dep0.clone(), additional_loss_weights={'psnr': 1.} if psnr else {}, **kw)
            try:
                obj = build()
            except Exception as e:
                ctx.count('loss object/%s constructor raised %s' % (cls_name, type(e).__name__))
                continue
            names = list(vars(obj))
            if set(names) != set(fields if (psnr or cls_id == 0) else [f for f in fields if f not in ('cvvdp', 'fvvdp', 'lpips', 'psnr', 'ssim', 'msssim')]) \
                    and not (cls_id == 1 and set(names) <= set(fields) and set(fields) - set(names) <= {'cvvdp', 'fvvdp', 'lpips', 'psnr', 'ssim', 'msssim'}):
                ctx.alarm('correspondence', '%s: a constructed object has the attributes %s, the regenerated structure the fields %s' % (cls_name, sorted(names), sorted(fields)))
                return
            calls, parts = [], []
            for k in range(rng.randint(*ctx.n((3, 5), (3, 8)))):
                if rng.random() < 0.55:
                    calls.append(('get_targets', rng.random() < 0.6))           # .. and afterwards overwrite what was handed out?
                    parts.append('0')
                else:
                    given = rng.random() < 0.5
                    pl = rng.randrange(planes)
                    calls.append(('call', given, pl, 30 + k))
                    parts.append('1 %d %d %d' % (int(given), pl, 30 + k))
            line = 'glo_seq %d %d %d %d %d %d %s' % (cls_id, int(defocus), planes, bsize, int(psnr), len(calls), ' '.join(parts))
            out = ctx.model.ask([line])[0]
            init_log, _, rest = out.partition('|')
            if init_log == 'RAISE':
                ctx.alarm('correspondence', '%s: the regenerated __init__ raises for a configuration the implementation accepts (%s)' % (cls_name, line))
                continue
            model = []
            for c in (rest.split('|') if rest else []):
                if c == 'RAISE':
                    model.append(None)
                    continue
                log, _, ret = c.partition(';')
                nm = [] if log in ('-', '') else log.split(',')
                model.append((set(n for n in nm if not n.endswith('[]')), set(n[:-2] for n in nm if n.endswith('[]')), ret.split(',')))
            order = first_occurrences([n for n in init_log.split(',') if not n.endswith('[]')])
            if order != names:
                ctx.alarm('correspondence', '%s.__init__ first assigns its attributes in the order %s, the regenerated __init__ in the order %s' % (cls_name, names, order))
            rec = {'class': cls_name, 'planes': planes, 'defocus': defocus, 'blur_size': bsize, 'calls': [list(map(lambda z: int(z) if isinstance(z, bool) else z, c)) for c in calls],
                   'seed': ctx.seed}
            ref_targets = [t.detach().clone() for t in build().get_targets()]
            handed = []
            ok = True
            for k, c in enumerate(calls):
                before = snapshot(obj)
                try:
                    if c[0] == 'get_targets':
                        ret = obj.get_targets()
                    else:
                        image = torch.rand(3, 16, 16, generator=gen(c[3]))
                        target = torch.rand(3, 16, 16, generator=gen(c[3] + 1))
                        ret = obj(image, target, plane_id=c[2] if c[1] else None)
                        fresh = build()(image, target, plane_id=c[2] if c[1] else None)
                except Exception as e:
                    got = None
                    ctx.count('loss object/%s call raised %s' % (cls_name, type(e).__name__))
                    if k < len(model) and model[k] is not None:
                        ctx.alarm('correspondence', '%s: call %d (%s) raises %s in the implementation and returns in the regenerated step function (%s)'
                                  % (cls_name, k, c[0], type(e).__name__, line))
                    break
                after = snapshot(obj)
                rep, inp = observe(before, after)
                rets = list(ret) if isinstance(ret, tuple) else [ret]
                kinds = [classify(t, after, [h_[0] for h_ in handed]) for t in rets]
                if k >= len(model) or model[k] is None:
                    ctx.alarm('correspondence', '%s: call %d returns in the implementation, the regenerated step function %s (%s)'
                              % (cls_name, k, 'raises' if k < len(model) else 'stops', line))
                    break
                mo = model[k]
                if mo[0] != rep or mo[1] != inp or len(mo[2]) != len(kinds) or not all(same_kind(a_, b_) for a_, b_ in zip(mo[2], kinds)):
                    ctx.alarm('correspondence', '%s (%s): call %d (%s) replaces the attributes %s, writes %s in place and returns %s; the regenerated step function '
                              'stores %s, writes %s in place and returns %s' % (cls_name, line, k, c[0], sorted(rep), sorted(inp), kinds, sorted(mo[0]), sorted(mo[1]), mo[2]))
                    ok = False
                    break
                if c[0] == 'get_targets':
                    # monitor: what an object with a history hands out is what a new object hands out
                    if not all(close(a_, b_, 1e-6) for a_, b_ in zip(rets, ref_targets)):
                        ctx.violation('%s.get_targets: call %d of the sequence %s returns targets that differ from those of a newly built object'
                                      % (cls_name, k, [c_[0] for c_ in calls]), dict(rec, failing_call=k), {'what': 'get_targets_history', 'fn': cls_name})
                        break
                    for t in rets:
                        handed.append((t, t.detach().clone(), k))
                    if c[1]:
                        for t in rets:                                   # the caller's copy is the caller's: scale and clear it
                            if t.numel():
                                t.mul_(0.5).add_(1.0)
                        handed = [(t, t.detach().clone(), k_) for (t, _, k_) in handed]
                elif not close(ret if not isinstance(ret, tuple) else ret[0], fresh if not isinstance(fresh, tuple) else fresh[0], 1e-5):
                    ctx.violation('%s.__call__: call %d of the sequence %s returns a loss that differs from that of a newly built object'
                                  % (cls_name, k, [c_[0] for c_ in calls]), dict(rec, failing_call=k), {'what': 'history', 'fn': cls_name})
                    break
            for (t, copy, k) in handed:
                if not close(t, copy, 0.0):
                    ctx.violation('%s: a tensor handed out by get_targets (call %d of %s) was changed by a later call' % (cls_name, k, [c_[0] for c_ in calls]),
                                  dict(rec, failing_call=k), {'what': 'returned_buffer_overwritten', 'fn': cls_name})
                    break
            ctx.case(('glo', cls_id, defocus, planes, bsize, psnr, tuple(c[0] for c in calls)), True, rec if it < 1 else None)
            ctx.count('regenerated object vs replaced attributes/%s' % cls_name)
            ctx.traces += 1


# ---------------------------------------------------------------------------------------------------------------- the planar mesh
def check_mesh_object(ctx):
    """planar_mesh: attribute names and the order `__init__` assigns them; per call (mirror / get_triangles / get_squares, interleaved with in-place
    updates of the learned heights, some calls under torch.no_grad()) which attributes are replaced or written in place, against the regenerated step
    functions; monitor: every `mirror` equals the mirror of a NEW mesh built with the heights as they are now, and carries a gradient to the heights
    whenever gradients are enabled at that call"""
    if not ctx.drv_ok:
        return
    from odak.learn.raytracing.mesh import planar_mesh
    rng = ctx.rng
    F = torch.float32
    fields = ctx.model.ask(['gmo_fields'])[0].split(',')
    for it in range(ctx.n(4, 16)):
        given = rng.random() < 0.7
        n0, n1 = rng.choice([(3, 3), (3, 4), (2, 2)])
        size, offset, tilt = [2.0, 3.0], [0.3, -0.2, 4.0], rng.choice([[0., 0., 0.], [12., -8., 20.]])
        h0 = (torch.rand(n0, n1, 1, generator=torch.Generator().manual_seed(20 + it)) * 0.1) if given else None

        def build(hgt):
            return planar_mesh(size=torch.tensor(size), number_of_meshes=torch.tensor([n0, n1]), angles=torch.tensor(tilt), offset=torch.tensor(offset),
                               heights=None if hgt is None else hgt.detach().clone())
        mesh = planar_mesh(size=torch.tensor(size), number_of_meshes=torch.tensor([n0, n1]), angles=torch.tensor(tilt), offset=torch.tensor(offset), heights=h0)
        names = list(vars(mesh))
        if set(names) != set(fields):
            ctx.alarm('correspondence', 'planar_mesh: a constructed object has the attributes %s, the regenerated structure the fields %s' % (sorted(names), sorted(fields)))
            return
        # rays aimed at the interior of the mesh from in front of it (in the mesh frame, then moved with the mesh)
        from odak.learn.tools import rotate_points
        o_ = torch.tensor([[0.1, 0.2, -3.0], [-0.3, 0.4, -3.0]], dtype=F)
        d_ = torch.tensor([[0.02, -0.01, 1.0], [0.05, 0.03, 1.0]], dtype=F)
        d_ = d_ / d_.norm(dim=1, keepdim=True)
        ro, *_ = rotate_points(o_, angles=torch.tensor(tilt))
        rd, *_ = rotate_points(d_, angles=torch.tensor(tilt))
        rays = torch.stack([ro + torch.tensor(offset), rd], dim=1).detach()
        calls, parts = [], []
        for k in range(rng.randint(*ctx.n((4, 6), (4, 9)))):
            r = rng.random()
            if r < 0.45:
                calls.append(('mirror', rng.random() < 0.35))            # .. under torch.no_grad()?
                parts.append('0 %d' % (50 + k))
            elif r < 0.6:
                calls.append(('get_triangles', rng.random() < 0.5))
                parts.append('1')
            elif r < 0.7:
                calls.append(('get_squares', False))
                parts.append('2')
            else:
                calls.append(('learn', 60 + k))
                parts.append('3 %d' % (60 + k))
        line = 'gmo_seq %d %d %s' % (int(given), len(calls), ' '.join(parts))
        out = ctx.model.ask([line])[0]
        init_log, _, rest = out.partition('|')
        if init_log == 'RAISE':
            ctx.alarm('correspondence', 'planar_mesh: the regenerated __init__ raises for a configuration the implementation accepts')
            continue
        model = parse(rest) if rest else []
        order = first_occurrences([n for n in init_log.split(',') if '.' not in n])
        if order != names:
            ctx.alarm('correspondence', 'planar_mesh.__init__ first assigns its attributes in the order %s, the regenerated __init__ in the order %s' % (names, order))
        rec = {'class': 'planar_mesh', 'nodes': [n0, n1], 'tilt': tilt, 'heights_given': given, 'calls': [list(map(lambda z: int(z) if isinstance(z, bool) else z, c)) for c in calls],
               'seed': ctx.seed}
        impl = []
        for k, c in enumerate(calls):
            before = snapshot(mesh)
            try:
                if c[0] == 'learn':
                    with torch.no_grad():                                   # what an optimiser step does: the leaf is updated in place
                        mesh.heights.add_(torch.rand(n0, n1, 1, generator=torch.Generator().manual_seed(c[1])) * 0.05)
                    after = snapshot(mesh)
                    rep, inp = observe(before, after)
                    impl.append((rep, inp - {'heights'}, 'X'))               # the write into `heights` is the caller's
                    continue
                if c[1]:
                    with torch.no_grad():
                        ret = getattr(mesh, c[0])(rays) if c[0] == 'mirror' else getattr(mesh, c[0])()
                else:
                    ret = getattr(mesh, c[0])(rays) if c[0] == 'mirror' else getattr(mesh, c[0])()
                fresh_obj = build(mesh.heights)
                fresh = getattr(fresh_obj, c[0])(rays) if c[0] == 'mirror' else getattr(fresh_obj, c[0])()
            except Exception as e:
                impl.append(None)
                ctx.count('planar_mesh/call raised %s' % type(e).__name__)
                break
            after = snapshot(mesh)
            rep, inp = observe(before, after)
            rets = list(ret) if isinstance(ret, tuple) else [ret]
            kinds = [classify(t, after, []) for t in rets]
            impl.append((rep, inp, 'V' if all(x in ('V', 'N') for x in kinds) else ','.join(kinds)))
            # property monitor: the value is the value for the heights as they are NOW ...
            if not close(ret, fresh, 1e-5):
                ctx.violation('planar_mesh.%s: call %d of the sequence %s differs from what a newly built mesh with the current heights returns'
                              % (c[0], k, [c_[0] for c_ in calls]), dict(rec, failing_call=k), {'what': 'history', 'fn': 'planar_mesh.' + c[0]})
                break
            # ... and it carries a gradient to the heights when gradients are enabled at this call
            if not c[1] and c[0] in ('mirror', 'get_triangles') and rets[0].numel() and not rets[0].requires_grad:
                ctx.violation('planar_mesh.%s: call %d of the sequence %s (gradients enabled) returns a tensor without a gradient path to the heights'
                              % (c[0], k, [(c_[0], c_[1]) for c_ in calls]), dict(rec, failing_call=k), {'what': 'no_gradient', 'fn': 'planar_mesh.' + c[0]})
                break
        ctx.case(('gmo', given, n0, n1, tuple(tilt), tuple((c[0], c[1]) for c in calls)), True, rec if it < 1 else None)
        ctx.count('regenerated object vs replaced attributes/planar_mesh')
        ctx.traces += 1
        model = [None if m is None else (m[0], m[1], 'V' if all(x in ('V', 'N') for x in m[2].split(',')) else m[2]) for m in model]
        compare_calls(ctx, 'planar_mesh', line, impl, model)


# ---------------------------------------------------------------------------------------------------------------- the multi-colour optimiser (attribute flow)
def check_optimizer_attrs(ctx):
    """multi_color_hologram_optimizer: the attributes the REAL object assigns in `__init__` and in every `optimize` call (recorded by a `__setattr__`
    hook on a subclass), and the tensors it hands to the torch optimiser, against the regenerated attribute-flow tables; monitors: every `optimize` call
    (also the second one on the same object) returns the reconstruction of the hologram it returns, and what the first call returned is not changed by
    the second"""
    if not ctx.drv_ok:
        return
    import odak.learn.wave as LW
    init_w, opt_w, opt_inplace, variables, nostale = ctx.model.ask(['goa_tables'])[0].split('|')
    init_w, opt_w = [x for x in init_w.split(',') if x], [x for x in opt_w.split(',') if x]
    variables = [v[5:] for v in variables.split(',') if v]
    rng = ctx.rng
    for method, peak in (('multi-color', False), ('conventional', True)) if not ctx.quick else ((('multi-color', False),) if ctx.seed % 2 == 0 else (('conventional', True),)):
        log = []

        class Traced(LW.multi_color_hologram_optimizer):
            def __setattr__(self, k, v):
                log.append(k)
                object.__setattr__(self, k, v)
        h = w = 32                                      # the 6-level total-variation term of the optimiser needs 32 pixels
        wl = [0.6, 0.5, 0.45]
        torch.manual_seed(rng.randrange(10 ** 6))
        prop = LW.propagator(resolution=[h, w], wavelengths=wl, pixel_pitch=1.0, number_of_frames=3, number_of_depth_layers=2, volume_depth=2.0,
                             image_location_offset=1.0, propagation_type='Bandlimited Angular Spectrum', propagator_type='forward', method=method,
                             device=torch.device('cpu'))
        opt = Traced(wavelengths=wl, resolution=[h, w], targets=torch.rand(2, 3, h, w), propagator=prop, number_of_frames=3, number_of_depth_layers=2,
                     learning_rate=0.02, method=method, optimize_peak_amplitude=peak, device=torch.device('cpu'))
        got_init = first_occurrences(log)
        rec = {'routine': 'multi_color_hologram_optimizer', 'method': method, 'optimize_peak_amplitude': peak, 'seed': ctx.seed}
        ctx.case(('goa', method, peak), True, rec)
        ctx.count('regenerated attribute flow vs recorded attribute stores/%s' % method)
        ctx.traces += 1
        if set(got_init) != set(init_w):
            ctx.alarm('correspondence', 'multi_color_hologram_optimizer.__init__ assigns the attributes %s, the regenerated table lists %s'
                      % (sorted(set(got_init) - set(init_w)) or sorted(got_init), sorted(set(init_w) - set(got_init)) or sorted(init_w)))
        kept = []
        for run_i in range(2):
            del log[:]
            before = {n: v for n, v in vars(opt).items()}
            try:
                ph, rc, lp, cp, pa = opt.optimize(number_of_iterations=1, weights=[1., 1., 1., 0.], bits=8)
            except Exception as e:
                ctx.violation('multi_color_hologram_optimizer.optimize (call %d on one object) raised %r' % (run_i, e), rec, {'routine': 'multi_color', 'what': 'raises'})
                break
            wrote = first_occurrences(log)
            if wrote != opt_w:
                ctx.alarm('correspondence', 'multi_color_hologram_optimizer.optimize (call %d) assigns the attributes %s, the regenerated trace %s' % (run_i, wrote, opt_w))
            handed = []
            for g in opt.optimizer.param_groups:
                for p_ in g['params']:
                    for nme in variables:
                        o = opt
                        for part in nme.split('.'):
                            o = getattr(o, part, None)
                        if o is p_:
                            handed.append(nme)
            if not set(handed) <= set(variables) or not {'phase', 'offset'} <= set(handed) or len(handed) != sum(len(g['params']) for g in opt.optimizer.param_groups):
                ctx.alarm('correspondence', 'multi_color_hologram_optimizer: the torch optimiser holds %s, the regenerated table lists %s' % (handed, variables))
            # monitor: the returned reconstruction is the reconstruction of the returned hologram - for EVERY optimize call on the object
            again = prop.reconstruct(ph)
            if not torch.allclose(again, rc, atol=1e-5):
                ctx.violation('multi_color optimiser: optimize call %d on one object returns a reconstruction that differs from propagator.reconstruct(returned phases)'
                              % run_i, dict(rec, call=run_i), {'routine': 'multi_color', 'what': 'reconstruction', 'call': run_i})
            kept.append((ph, rc, ph.detach().clone(), rc.detach().clone()))
        for run_i, (ph, rc, ph0, rc0) in enumerate(kept):
            if not torch.equal(ph.detach(), ph0) or not torch.equal(rc.detach(), rc0):
                ctx.violation('multi_color optimiser: what optimize call %d returned was changed by a later optimize call on the same object' % run_i,
                              dict(rec, call=run_i), {'routine': 'multi_color', 'what': 'result_changed_later'})
                break
    if nostale != 'true':
        ctx.alarm('correspondence', 'regenerated attribute flow of optimize: an attribute is read before the call assigns it')
