"""Executable tie of the REGENERATED `calc_statsmaps` (OdakModel/Generated/StatsMaps.lean, written by harness/translate/statsmaps.py from the
current source) composed with the regenerated `__call__` step functions (`fullOps` of OdakModel/StatsTie.lean - the terms the theorems
`C17_gen_*_history_independent_full` are about) to the implementation: the DECISION sequence INCLUDING THE SUB-OBJECTS.

The driver ops gsm_full_* / gsm_stats (OdakModel/Exec/OpsGenStats.lean) run the step functions on tokens, with the configuration and the device
given PER CALL, and report per call which attributes and sub-object attributes were stored: `pyramid_maker`, `blurs`, `blurs[i].lod_map`,
`blurs[i].lod_fraction`, `fovea_mask`, `periphery_mask`, `target`, `target_gaze`, `target_stats`, `loss_map` (prefix `metameric_loss.` for the inner
object of MetamerMSELoss), or that the call raises.  The real objects get the same sequence: between two calls the public attributes `alpha`,
`real_image_width`, `real_viewing_distance`, `mode`, `equi`, `n_pyramid_levels`, `n_orientations` are re-assigned and `to(device)` is called (the two
CPU devices `cpu` and `cpu:0` compare unequal), the image size, the channel count (1 and 3), the gaze, the target and the colour space change;
which attributes were REPLACED is observed by object identity (an attribute that becomes None does not count; the old objects are kept alive).

Value monitors on the real objects (a concrete failing input when the source acquires a history dependence in `calc_statsmaps`):
* `calc_statsmaps` called directly on ONE object along such a sequence returns, call by call, exactly what a NEW object built with the
  configuration of that call returns (theorem C17_gen_calc_statsmaps_history_independent);
* `__call__` along sequences that change size / channels / gaze / target (configuration fixed, as in the theorems `_full`) equals a new object.

Counted observations (not violations of a listed property; reported in the evidence): re-assigning `alpha` between two `__call__`s with the same
target and gaze reuses the target statistics of the old `alpha` (the target cache of `__call__` is keyed on gaze and target only), and a gaze LIST
that the caller changes in place between two calls is not noticed by the blur objects (`RadiallyVaryingBlur` keeps the list itself)."""
import logging
import warnings
import torch
from .genstatemachines import MODES, SPACES, micro, tok, model_logs, compare, _UNSET

logging.disable(logging.WARNING)
warnings.filterwarnings('ignore')

NBLUR = 5
SUB = ['pyramid_maker', 'blurs', 'periphery_mask'] + [x for i in range(NBLUR) for x in ('blurs[%d].lod_map' % i, 'blurs[%d].lod_fraction' % i)]
OBSERVED = {
    'MetamericLoss': ['target', 'target_gaze', 'target_stats', 'fovea_mask', 'loss_map'] + SUB,
    'MetamerMSELoss': ['target', 'target_gaze', 'target_metamer'] + ['metameric_loss.' + x for x in ['fovea_mask'] + SUB],
    'MetamericLossUniform': ['target', 'target_stats', 'loss_map', 'pyramid_maker'],
    'calc_statsmaps': ['fovea_mask'] + SUB,
}
GAZES = [[0.5, 0.5], [0.2, 0.7], [0.9, 0.1]]
SHAPES = [(1, 3, 32, 32), (1, 3, 48, 32), (1, 1, 32, 32), (1, 1, 48, 48), (1, 1, 64, 64)]
DEVICES = [torch.device('cpu'), torch.device('cpu', 0)]


def _get(obj, name):
    o = obj
    for part in name.split('.'):
        if o is None or o is _UNSET:
            return _UNSET
        if '[' in part:
            a, i = part[:-1].split('[')
            lst = getattr(o, a, _UNSET)
            o = lst[int(i)] if isinstance(lst, list) and int(i) < len(lst) else _UNSET
        else:
            o = getattr(o, part, _UNSET)
    return o


def snapshot(obj, names):
    return {n: _get(obj, n) for n in names}


def replaced(before, after):
    """attributes that hold another object than before the call (None / unset afterwards: not a store)"""
    return set(n for n in before if after[n] is not before[n] and after[n] is not None and after[n] is not _UNSET)


def _img(seed, shape):
    return torch.rand(shape, generator=torch.Generator().manual_seed(seed))


def _cfg_line(c):
    return '%d %d %d %d %d %d %d %d %d %d %d' % (c['device'], micro(c['alpha']), micro(c['width']), micro(c['distance']), c['levels'], c['orient'],
                                                 MODES[c['mode']], int(c['l2']), int(c['radial']), int(c['fullres']), int(c['equi']))


def _apply(obj, c):
    """the public attributes / `to(device)` that differ from the previous call"""
    obj.alpha, obj.real_image_width, obj.real_viewing_distance = c['alpha'], c['width'], c['distance']
    obj.mode, obj.equi, obj.n_pyramid_levels, obj.n_orientations = c['mode'], c['equi'], c['levels'], c['orient']
    obj.to(DEVICES[c['device']])


def _new_loss(P, c):
    return P.MetamericLoss(device=DEVICES[c['device']], alpha=c['alpha'], real_image_width=c['width'], real_viewing_distance=c['distance'],
                           n_pyramid_levels=c['levels'], mode=c['mode'], n_orientations=c['orient'], use_l2_foveal_loss=c['l2'],
                           use_radial_weight=c['radial'], use_fullres_l0=c['fullres'], equi=c['equi'])


def _rand_cfgs(rng, n, flags, vary, couple=False):
    """n per-call configurations: `vary` = probability that a parameter changes between two calls.  `couple`: a change of `n_pyramid_levels` /
    `n_orientations` comes with another target - the target cache of `__call__` is keyed on (gaze, target) only, so with the SAME target the
    statistics lists of the old and the new configuration would be zipped (sizes differ: RuntimeError); see the module docstring"""
    c = dict(device=0, alpha=0.2, width=2.0, distance=0.3, levels=3, orient=2, mode='quadratic', equi=False, shape=0, target=0, gaze=0,
             space='RGB', vis=False, **flags)
    out = []
    for _ in range(n):
        c = dict(c)
        if rng.random() < vary:
            c['alpha'] = rng.choice([0.2, 0.35])
        if rng.random() < vary:
            c['width'], c['distance'] = rng.choice([(2.0, 0.3), (1.5, 0.3), (2.0, 0.4)])
        if rng.random() < vary:
            c['mode'] = rng.choice(['quadratic', 'linear'])
        if rng.random() < vary / 2:
            c['equi'] = not c['equi']
        if rng.random() < vary / 2:
            c['levels'] = rng.choice([1, 2, 3])
        if rng.random() < vary / 2:
            c['orient'] = rng.choice([1, 2, 4])
        if rng.random() < vary / 2:
            c['device'] = 1 - c['device']
        r = rng.random()
        if r < 0.3:
            c['shape'] = rng.randrange(4)
        elif r < 0.55:
            c['gaze'] = rng.randrange(3)
        elif r < 0.75:
            c['target'] = rng.randrange(3)
        if couple and out and (c['levels'], c['orient']) != (out[-1]['levels'], out[-1]['orient']) and c['target'] == out[-1]['target']:
            c['target'] = (c['target'] + 1) % 3
        c['space'] = rng.choice(['RGB', 'RGB', 'YCrCb'])
        c['vis'] = rng.random() < 0.15
        out.append(c)
    return out


def check_generated_statsmaps(ctx):
    if not ctx.drv_ok:
        return
    import odak.learn.perception as P
    rng = ctx.rng
    nseq = ctx.n(2, 8)
    length = ctx.n((4, 5), (5, 7))

    # ---- MetamericLoss.__call__ on the full object: decisions, configuration re-assigned between calls
    for it in range(nseq):
        flags = [dict(l2=True, radial=False, fullres=False), dict(l2=False, radial=True, fullres=True), dict(l2=False, radial=False, fullres=False)][(ctx.seed + it) % 3]
        seq = _rand_cfgs(rng, rng.randint(*length), flags, 0.35, couple=True)
        obj = _new_loss(P, seq[0])
        impl, parts = [], []
        for i, c in enumerate(seq):
            sh = SHAPES[c['shape']]
            image, target = _img(7 + c['target'] + 50 * c['shape'], sh), _img(100 + 10 * c['shape'] + c['target'], sh)
            _apply(obj, c)
            before = snapshot(obj, OBSERVED['MetamericLoss'])
            try:
                obj(image, target, gaze=list(GAZES[c['gaze']]), image_colorspace=c['space'], visualise_loss=c['vis'])
                impl.append(replaced(before, snapshot(obj, OBSERVED['MetamericLoss'])))
            except Exception:
                impl.append(None)
            parts.append('%s %s %s %d %d %d' % (_cfg_line(c), tok(2 * i + 1, sh, 1000 * c['shape'] + 7 + c['target']),
                                               tok(2 * i + 2, sh, 100 + 10 * c['shape'] + c['target']), c['gaze'], SPACES[c['space']], int(c['vis'])))
            if impl[-1] is None:
                break
        key = tuple(tuple(sorted(c.items())) for c in seq)
        ctx.case(('gsmfull', 'MetamericLoss', key), True)
        ctx.count('regenerated __call__ on regenerated calc_statsmaps vs replaced (sub-)attributes/MetamericLoss %s' % ('l2' if flags['l2'] else 'fullres_l0' if flags['fullres'] else 'plain'))
        ctx.traces += 1
        compare(ctx, 'MetamericLoss with sub-objects', 'per-call configurations %s' % (seq,), impl,
                model_logs(ctx, 'gsm_full_metameric %d %s' % (len(parts), ' '.join(parts))), OBSERVED['MetamericLoss'])

    # ---- MetamerMSELoss (3 channels only: gen_metamer converts RGB -> YCrCb unconditionally)
    for it in range(ctx.n(1, 4)):
        seq = [c for c in _rand_cfgs(rng, rng.randint(*length), dict(l2=False, radial=False, fullres=False), 0.3)]
        for c in seq:
            c['shape'] = c['shape'] % 2
            c['mode'] = 'quadratic'
        obj = P.MetamerMSELoss(n_pyramid_levels=seq[0]['levels'], n_orientations=seq[0]['orient'])
        impl, parts = [], []
        for i, c in enumerate(seq):
            sh = SHAPES[c['shape']]
            image, target = _img(7 + c['target'] + 50 * c['shape'], sh), _img(100 + 10 * c['shape'] + c['target'], sh)
            inner = obj.metameric_loss
            inner.alpha, inner.equi, inner.n_pyramid_levels, inner.n_orientations = c['alpha'], c['equi'], c['levels'], c['orient']
            obj.to(DEVICES[c['device']])
            before = snapshot(obj, OBSERVED['MetamerMSELoss'])
            try:
                obj(image, target, gaze=list(GAZES[c['gaze']]))
                impl.append(replaced(before, snapshot(obj, OBSERVED['MetamerMSELoss'])))
            except Exception:
                impl.append(None)
            parts.append('%d %d %d %d %d %d %d %s %s %d' % (c['device'], micro(c['alpha']), micro(0.2), micro(0.7), c['levels'], c['orient'], int(c['equi']),
                                                            tok(2 * i + 1, sh, 1000 * c['shape'] + 7 + c['target']),
                                                            tok(2 * i + 2, sh, 100 + 10 * c['shape'] + c['target']), c['gaze']))
            if impl[-1] is None:
                break
        ctx.case(('gsmfull', 'MetamerMSELoss', tuple(tuple(sorted(c.items())) for c in seq)), True)
        ctx.count('regenerated __call__ on regenerated calc_statsmaps vs replaced (sub-)attributes/MetamerMSELoss')
        ctx.traces += 1
        compare(ctx, 'MetamerMSELoss with sub-objects', 'per-call configurations %s' % (seq,), impl,
                model_logs(ctx, 'gsm_full_metamermse %d %s' % (len(parts), ' '.join(parts))), OBSERVED['MetamerMSELoss'])

    # ---- MetamericLossUniform
    for it in range(ctx.n(1, 4)):
        seq = _rand_cfgs(rng, rng.randint(*length), dict(l2=False, radial=False, fullres=False), 0.5, couple=True)
        obj = P.MetamericLossUniform(n_pyramid_levels=seq[0]['levels'], n_orientations=seq[0]['orient'], pooling_size=8)
        impl, parts = [], []
        for i, c in enumerate(seq):
            sh = SHAPES[c['shape']]
            image, target = _img(7 + c['target'] + 50 * c['shape'], sh), _img(100 + 10 * c['shape'] + c['target'], sh)
            obj.n_pyramid_levels, obj.n_orientations = c['levels'], c['orient']
            obj.to(DEVICES[c['device']])
            before = snapshot(obj, OBSERVED['MetamericLossUniform'])
            try:
                obj(image, target, image_colorspace=c['space'], visualise_loss=c['vis'])
                impl.append(replaced(before, snapshot(obj, OBSERVED['MetamericLossUniform'])))
            except Exception:
                impl.append(None)
            parts.append('%d 8 %d %d %s %s %d %d' % (c['device'], c['levels'], c['orient'], tok(2 * i + 1, sh, 1000 * c['shape'] + 7 + c['target']),
                                                     tok(2 * i + 2, sh, 100 + 10 * c['shape'] + c['target']), SPACES[c['space']], int(c['vis'])))
            if impl[-1] is None:
                break
        ctx.case(('gsmfull', 'MetamericLossUniform', tuple(tuple(sorted(c.items())) for c in seq)), True)
        ctx.count('regenerated __call__ on regenerated calc_statsmaps vs replaced (sub-)attributes/MetamericLossUniform')
        ctx.traces += 1
        compare(ctx, 'MetamericLossUniform with its pyramid maker', 'per-call configurations %s' % (seq,), impl,
                model_logs(ctx, 'gsm_full_uniform %d %s' % (len(parts), ' '.join(parts))), OBSERVED['MetamericLossUniform'])

    # ---- calc_statsmaps called directly: decisions, and VALUES against a new object with the configuration of the call
    def run_direct(seq, flags, first):
        obj = _new_loss(P, seq[0])
        impl, parts = [], []
        rec = {'class': 'MetamericLoss.calc_statsmaps', 'calls': seq, 'seed': ctx.seed}
        for i, c in enumerate(seq):
            sh = SHAPES[c['shape']]
            image = _img(7 + c['target'] + 50 * c['shape'], sh)
            _apply(obj, c)
            before = snapshot(obj, OBSERVED['calc_statsmaps'])
            args = dict(gaze=list(GAZES[c['gaze']]), alpha=c['alpha'], real_image_width=c['width'], real_viewing_distance=c['distance'], mode=c['mode'])
            try:
                got = obj.calc_statsmaps(image, **args)
                impl.append(replaced(before, snapshot(obj, OBSERVED['calc_statsmaps'])))
            except Exception as e:
                got = 'raises %s' % type(e).__name__
                impl.append(None)
            try:
                want = _new_loss(P, c).calc_statsmaps(image, **args)
            except Exception as e:
                want = 'raises %s' % type(e).__name__
            same = (got == want) if isinstance(got, str) or isinstance(want, str) else \
                (len(got) == len(want) and all(a.shape == b.shape and torch.allclose(a, b, atol=1e-6) for a, b in zip(got, want)))
            if not same:
                ctx.violation('MetamericLoss.calc_statsmaps depends on the call history: call %d of the sequence %s (configuration, device, image, gaze per '
                              'call) returns %s, a new object with the configuration of that call returns %s'
                              % (i, seq, got if isinstance(got, str) else '%d maps' % len(got), want if isinstance(want, str) else '%d other maps' % len(want)),
                              dict(rec, call=i), {'class': 'MetamericLoss', 'what': 'history', 'method': 'calc_statsmaps'})
                return
            parts.append('%s %s %d' % (_cfg_line(c), tok(i + 1, sh, 1000 * c['shape'] + 7 + c['target']), c['gaze']))
            if impl[-1] is None:
                break
        ctx.case(('gsmfull', 'calc_statsmaps', tuple(tuple(sorted(c.items())) for c in seq)), True, rec if first else None)
        ctx.count('regenerated calc_statsmaps vs replaced sub-attributes and vs a new object/%s' % ('l2' if flags['l2'] else 'fullres_l0' if flags['fullres'] else 'plain'))
        ctx.traces += 1
        compare(ctx, 'MetamericLoss.calc_statsmaps', 'per-call configurations %s' % (seq,), impl,
                model_logs(ctx, 'gsm_stats %d %s' % (len(parts), ' '.join(parts))), OBSERVED['calc_statsmaps'])

    # a fixed tour: every sub-cache is invalidated once (levels down and up, channel count, orientations, device, size, gaze, equi, alpha, mode)
    for flags in (dict(l2=True, radial=False, fullres=False), dict(l2=False, radial=False, fullres=True)):
        c = dict(device=0, alpha=0.2, width=2.0, distance=0.3, levels=2, orient=2, mode='quadratic', equi=False, shape=0, target=0, gaze=0,
                 space='RGB', vis=False, **flags)
        tour = [c]
        for change in (dict(levels=3), dict(shape=2), dict(orient=4), dict(device=1), dict(shape=3), dict(levels=2), dict(gaze=1), dict(equi=True),
                       dict(alpha=0.35), dict(mode='linear'), dict(shape=0, gaze=2), dict(levels=4, shape=4)):
            tour.append(dict(tour[-1], **change))
        run_direct(tour, flags, flags['l2'])
    for it in range(nseq):
        flags = [dict(l2=True, radial=False, fullres=False), dict(l2=False, radial=False, fullres=True), dict(l2=False, radial=False, fullres=False)][(ctx.seed + it + 1) % 3]
        run_direct(_rand_cfgs(rng, rng.randint(*length), flags, 0.4), flags, False)

    # ---- __call__ values: size / channels / gaze / target change, configuration fixed (wide geometry: the periphery matters)
    for it in range(ctx.n(1, 4)):
        flags = [dict(l2=True, radial=False, fullres=False), dict(l2=False, radial=False, fullres=True)][(ctx.seed + it) % 2]
        seq = _rand_cfgs(rng, rng.randint(*length), flags, 0.0)
        obj = _new_loss(P, seq[0])
        for i, c in enumerate(seq):
            sh = SHAPES[c['shape']]
            image, target = _img(7 + c['target'] + 50 * c['shape'], sh), _img(100 + 10 * c['shape'] + c['target'], sh)
            try:
                v = float(obj(image, target, gaze=list(GAZES[c['gaze']]), image_colorspace=c['space']))
                f = float(_new_loss(P, c)(image, target, gaze=list(GAZES[c['gaze']]), image_colorspace=c['space']))
            except Exception as e:
                ctx.note('MetamericLoss raised %r in a size / channel sequence' % (e,))
                break
            ctx.case(('gsmfull', 'values', it, i, c['shape'], c['gaze'], c['target']), True)
            if not abs(v - f) <= 1e-5 * max(1.0, abs(f)):
                ctx.violation('MetamericLoss: call %d of a sequence that changes size / channel count / gaze / target returns %.8g, a new object returns %.8g '
                              '(sequence of (shape, gaze, target): %s)' % (i, v, f, [(SHAPES[x['shape']], x['gaze'], x['target']) for x in seq]),
                              {'class': 'MetamericLoss', 'sequence': seq, 'call': i, 'seed': ctx.seed}, {'class': 'MetamericLoss', 'what': 'history'})
                break
        ctx.count('MetamericLoss values along size / channel / gaze / target sequences vs new objects')

    # ---- counted observations (see the module docstring)
    c = dict(device=0, alpha=0.2, width=2.0, distance=0.3, levels=2, orient=2, mode='quadratic', equi=False, l2=True, radial=False, fullres=False)
    image, target = _img(1, SHAPES[0]), _img(2, SHAPES[0])
    obj = _new_loss(P, c)
    obj(image, target, gaze=[0.5, 0.5])
    obj.alpha = 0.35
    stale = float(obj(image, target, gaze=[0.5, 0.5]))
    fresh = float(_new_loss(P, dict(c, alpha=0.35))(image, target, gaze=[0.5, 0.5]))
    ctx.count('observation/alpha re-assigned between two __call__s with the same target and gaze: %s'
              % ('target statistics of the old alpha are reused' if abs(stale - fresh) > 1e-6 * max(1.0, abs(fresh)) else 'same value as a new object'))
    g = [0.5, 0.5]
    obj = _new_loss(P, c)
    obj(image, target, gaze=g)
    g[0] = 0.1
    stale = float(obj(image, target, gaze=g))
    fresh = float(_new_loss(P, c)(image, target, gaze=[0.1, 0.5]))
    ctx.count('observation/gaze LIST changed in place by the caller between two calls: %s'
              % ('the blur objects keep the level-of-detail maps of the old gaze' if abs(stale - fresh) > 1e-6 * max(1.0, abs(fresh)) else 'same value as a new object'))
