"""Executable tie of the REGENERATED loss formulas (OdakModel/Generated/LossesGen.lean, written by harness/translate/losses.py from the
current source) to the implementation: the generated definitions are evaluated at Float by the model driver (ops gl_* of
OdakModel/Exec/OpsGenLoss.lean) and compared with `total_variation_loss`, `multi_scale_total_variation_loss`, `histogram_loss`,
`wrapped_mean_squared_error` (both reductions), `weber_contrast`, `michelson_contrast`, `radial_basis_function`,
`multiplane_loss.__call__` (with and without `plane_id`), `phase_gradient`, `speckle_contrast` (per window and as a loss) and `PSNR`
called on float64 tensors where the function allows it (the two `nn.Module` regularisers hold float32 kernels: float32 tolerance).

Inputs: random images, images equal to the target, uniform images, phase differences of integer multiples of 2 pi, multi-channel and
batched frames, values on and outside the histogram limits.  A disagreement means the translator mis-read the source (or the source does
something the model's primitives do not): `ctx.alarm('correspondence', …)`."""
import math
import numpy as np
import torch
from ..lib.core import f2b, b2f

TOL = 1e-9


def _B(vals):
    return ' '.join(str(f2b(float(v))) for v in vals)


def _rand(rng, shape, scale=1.0, shift=0.0):
    g = torch.Generator().manual_seed(rng.randrange(10 ** 6))
    return torch.rand(shape, generator=g, dtype=torch.float64) * scale + shift


def check_generated_losses(ctx):
    if not ctx.drv_ok:
        return
    import odak.learn.tools as LT
    import odak.learn.wave as LW
    from odak.learn.perception.image_quality_losses import PSNR
    rng = ctx.rng
    lines, expect = [], []         # expect: (name, [implementation values], tolerance, description)

    def add(line, name, vals, tol=TOL, what=''):
        lines.append(line)
        expect.append((name, [float(v) for v in vals], tol, what))

    # ------------------------------------------------------------------ total variation (single frame, batched, multi-scale)
    for k in range(ctx.n(8, 40)):
        h, w = rng.choice([(5, 7), (8, 8), (6, 4), (2, 9), (1, 5), (4, 1)])
        kind = rng.choice(['random', 'uniform', 'rows-constant'])
        a = _rand(rng, (h, w))
        if kind == 'uniform':
            a = torch.full((h, w), rng.uniform(-1, 1), dtype=torch.float64)
        elif kind == 'rows-constant':
            a = a[:, :1].repeat(1, w)
        v = float(LT.total_variation_loss(a))
        add('gl_tv %d %d %s' % (h, w, _B(a.reshape(-1).tolist())), 'total_variation_loss/' + kind, [v, v], what='%dx%d' % (h, w))
    for k in range(ctx.n(6, 30)):
        n, c, h, w = rng.choice([(1, 3, 8, 8), (2, 3, 8, 12), (1, 1, 9, 7), (2, 2, 4, 4), (1, 3, 16, 16)])
        levels = rng.choice([1, 2, 3])
        a = _rand(rng, (n, c, h, w)) if rng.random() < 0.8 else torch.full((n, c, h, w), 0.3, dtype=torch.float64)
        try:
            ms = float(LT.multi_scale_total_variation_loss(a, levels=levels))
        except Exception as e:
            ctx.alarm('correspondence', 'generated-losses check: multi_scale_total_variation_loss raised %r for %s, %d levels' % (e, (n, c, h, w), levels))
            continue
        add('gl_tv4 %d %d %d %d %d %s' % (n, c, h, w, levels, _B(a.reshape(-1).tolist())), 'total_variation_loss[N,C,H,W] / multi_scale',
            [float(LT.total_variation_loss(a)), ms], what='%s levels %d' % ((n, c, h, w), levels))
    # ------------------------------------------------------------------ wrapped phase error
    for k in range(ctx.n(10, 50)):
        n = rng.choice([1, 6, 35])
        a, b = _rand(rng, (n,), 12.0, -6.0), _rand(rng, (n,), 12.0, -6.0)
        kind = rng.choice(['random', 'identity', 'two-pi-multiple'])
        if kind == 'identity':
            b = a.clone()
        elif kind == 'two-pi-multiple':
            b = a + 2 * math.pi * torch.tensor([rng.randint(-3, 3) for _ in range(n)], dtype=torch.float64)
        add('gl_wrapped %d %s %s' % (n, _B(a.tolist()), _B(b.tolist())), 'wrapped_mean_squared_error/' + kind,
            [float(LT.wrapped_mean_squared_error(a, b, 'mean')), float(LT.wrapped_mean_squared_error(a, b, 'sum'))], what='n=%d' % n)
    # ------------------------------------------------------------------ multiplane loss
    for ch in (1, 3):
        img, dep = _rand(rng, (ch, 6, 5)).float(), _rand(rng, (6, 5)).float()
        wts = [rng.uniform(0.1, 2.0), rng.uniform(0.1, 3.0), rng.uniform(0.1, 1.0)]
        try:
            ml = LW.multiplane_loss(img, dep, number_of_planes=3, target_blur_size=3, weights=wts, scheme='defocus')
            tg = ml.get_targets()[0].double()
            ml.masks = ml.masks.double()
        except Exception as e:
            ctx.alarm('correspondence', 'generated-losses check: multiplane_loss could not be built: %r' % (e,))
            continue
        for pid in (None, 0, 1, 2):
            for kind in ('random', 'identity'):
                target = tg[pid if pid is not None else 0]
                image = target.clone() if kind == 'identity' else _rand(rng, tuple(target.shape))
                try:
                    v = float(ml(image, target, plane_id=pid))
                except Exception as e:
                    ctx.alarm('correspondence', 'generated-losses check: multiplane_loss raised %r (plane_id %s)' % (e, pid))
                    continue
                mask = ml.masks if pid is None else ml.masks[pid, :]
                shape = torch.broadcast_shapes(tuple(image.shape), tuple(mask.shape))
                flat = [t.expand(shape).reshape(-1).tolist() for t in (image, target, mask)]
                add('gl_multiplane %d %s %s %s %s' % (len(flat[0]), _B(wts), _B(flat[0]), _B(flat[1]), _B(flat[2])),
                    'multiplane_loss/%s/%s' % ('all-planes' if pid is None else 'one-plane', kind), [v], what='channels %d plane %s' % (ch, pid))
    # ------------------------------------------------------------------ PSNR
    psnr = PSNR()
    for k in range(ctx.n(6, 30)):
        n = rng.choice([4, 30])
        t = _rand(rng, (n,))
        p = t + _rand(rng, (n,), rng.choice([0.01, 0.1, 0.5]))
        peak = rng.choice([1.0, 255.0, 0.5])
        add('gl_psnr %d %d %s %s' % (n, f2b(peak), _B(p.tolist()), _B(t.tolist())), 'PSNR', [float(psnr(p, t, peak_value=peak))], what='n=%d peak %g' % (n, peak))
    # ------------------------------------------------------------------ histogram loss
    for k in range(ctx.n(5, 25)):
        n, c, h, w = rng.choice([(1, 1, 5, 6), (1, 3, 4, 4), (2, 2, 3, 5)])
        bins = rng.choice([4, 8, 32])
        lo, hi = rng.choice([(0.0, 1.0), (0.25, 0.75)])
        f, g = _rand(rng, (n, c, h, w), 1.2, -0.1), _rand(rng, (n, c, h, w), 1.2, -0.1)
        f.reshape(-1)[0], f.reshape(-1)[1] = hi, lo                      # values exactly on the limits
        kind = 'random'
        if rng.random() < 0.3:
            g, kind = f.clone(), 'identity'
        try:
            v = float(LT.histogram_loss(f, g, bins=bins, limits=[lo, hi]))
            tab = torch.stack([torch.histc(f[:, i].flatten(), bins=bins, min=lo, max=hi) for i in range(c)]).reshape(-1).tolist()
        except Exception as e:
            ctx.alarm('correspondence', 'generated-losses check: histogram_loss raised %r' % (e,))
            continue
        add('gl_hist %d %d %d %d %d %d %d %s %s' % (n, c, h, w, bins, f2b(lo), f2b(hi), _B(f.reshape(-1).tolist()), _B(g.reshape(-1).tolist())),
            'histogram_loss/' + kind, [v] + tab, 1e-6, what='%s bins %d limits %s' % ((n, c, h, w), bins, (lo, hi)))
    # ------------------------------------------------------------------ radial basis function, contrasts
    for k in range(ctx.n(5, 20)):
        val, eps = rng.uniform(-3, 3), rng.uniform(0.1, 2.0)
        add('gl_rbf %d %d' % (f2b(val), f2b(eps)), 'radial_basis_function',
            [float(LT.radial_basis_function(torch.tensor([val], dtype=torch.float64), eps)[0])])
        h, w = rng.choice([(8, 9), (6, 6)])
        img = _rand(rng, (h, w), 1.0, 0.2) if rng.random() < 0.8 else torch.full((h, w), 0.6, dtype=torch.float64)
        rh = [0, rng.randint(1, h // 2), 1, rng.randint(2, w)]
        rl = [h // 2, h, 0, rng.randint(1, w - 1)]
        add('gl_contrast %d %d %s %s %s' % (h, w, ' '.join(map(str, rh)), ' '.join(map(str, rl)), _B(img.reshape(-1).tolist())), 'weber / michelson',
            [float(LT.weber_contrast(img, rh, rl).reshape(-1)[0]), float(LT.michelson_contrast(img, rh, rl).reshape(-1)[0])], what='%dx%d' % (h, w))
    # ------------------------------------------------------------------ the two regularisers (float32 kernels)
    pg, sc = LW.phase_gradient(), LW.speckle_contrast(kernel_size=3)
    F = torch.nn.functional
    for k in range(ctx.n(4, 20)):
        kind = rng.choice(['random', 'uniform'])
        ph = _rand(rng, (7, 8), 6.28).float() if kind == 'random' else torch.full((7, 8), 1.3)
        inten = (_rand(rng, (7, 8)) + 0.1).float() if kind == 'random' else torch.full((7, 8), 0.5)
        edge = pg.functional_conv2d(ph.reshape(1, 1, 7, 8))[0, 0]
        for (i, j) in [(1, 1), (3, 4), (5, 6)]:
            add('gl_phase_win 3 3 %s' % _B(ph[i - 1:i + 2, j - 1:j + 2].reshape(-1).tolist()), 'phase_gradient window/' + kind, [float(edge[i, j])], 1e-5)
        add('gl_phase_loss %s' % _B(edge.reshape(-1).tolist()), 'phase_gradient loss/' + kind, [float(pg(ph))], 1e-5)
        C = sc.functional_conv2d(inten.reshape(1, 1, 7, 8))[0, 0]
        mu = F.avg_pool2d(inten.reshape(1, 1, 7, 8).double(), 3, stride=1)[0, 0]
        m2 = F.avg_pool2d(inten.reshape(1, 1, 7, 8).double() ** 2, 3, stride=1)[0, 0]
        if kind == 'random':                    # uniform windows: sqrt of a rounding-negative number is NaN in float32 (a listed finding class)
            for (i, j) in [(0, 0), (2, 3), (4, 5)]:
                add('gl_speckle %d %d' % (f2b(float(mu[i, j])), f2b(float(m2[i, j]))), 'speckle_contrast window', [float(C[i, j])], 2e-3)
            add('gl_speckle_loss %s' % _B(C.reshape(-1).tolist()), 'speckle_contrast loss', [float(sc(inten))], 1e-5)
    outs = ctx.model.ask(lines)
    worst = {}
    for (name, vals, tol, what), o, line in zip(expect, outs, lines):
        ctx.case(('generated-loss', name, what, line[:40]), True)
        ctx.count('generated-loss/' + name)
        if o in ('bad-op', 'bad-args'):
            ctx.alarm('correspondence', 'model driver does not know the generated-loss op %s (%s)' % (line.split()[0], o))
            continue
        got = [b2f(t) for t in o.split()]
        if len(got) != len(vals):
            ctx.alarm('correspondence', 'generated %s: the model returns %d values, the implementation %d (%s)' % (name, len(got), len(vals), what))
            continue
        for g, v in zip(got, vals):
            if math.isnan(g) and math.isnan(v):
                continue
            d = abs(g - v)
            key = name.split('/')[0]
            worst[key] = max(worst.get(key, 0.0), d / max(1.0, abs(v)) if math.isfinite(d) else float('inf'))
            if not d <= tol * max(1.0, abs(v)):
                ctx.alarm('correspondence', 'the generated model of %s (Generated/LossesGen.lean) gives %r, the implementation %r (%s)' % (name, g, v, what))
                break
        # conclusions of the C17_gen theorems on the Float model
        if name.endswith('/identity') and not all(abs(g) <= 1e-12 for g in got[:1]):
            ctx.alarm('correspondence', 'generated %s is %r at identity, not zero' % (name, got[0]))
        # (the zero padding of phase_gradient's convolution makes the border responses of a uniform phase non-zero: only windows inside)
        if name.endswith('/uniform') and not name.startswith('phase_gradient loss') and not all(abs(g) <= 1e-12 for g in got):
            ctx.alarm('correspondence', 'generated %s is %r on a uniform image, not zero' % (name, got))
        if name.endswith('two-pi-multiple') and not all(abs(g) <= 1e-9 for g in got):
            ctx.alarm('correspondence', 'generated %s is %r for phases that differ by multiples of 2 pi, not zero' % (name, got))
    ctx.extra['max_generated_loss_impl_difference'] = worst
