"""C12 – iterative geometric solvers always terminate and flag what they cannot solve.
Every call runs in a worker process under a wall-clock limit (harness/lib/watchdog.py).  The Newton model of the refraction
root finder is compared with the implementation through the returned direction for terminating cases."""
import math
import warnings
import numpy as np
from ..lib.core import f2b, b2f
from ..lib.watchdog import Watchdog
from ..lib.watchdog import time_limit, CallTimeout

TRUSTED = ['wall-clock limit of 20 s per call stands for "does not return" (a hang is a timeout, reported as such)',
           'the table of while loops is regenerated from the source (harness/translate/loops.py)',
           'NumPy secant intersector: loop order and exits written by hand (OdakModel/Parametric.lean), body / guard / start values / defaults regenerated; '
           'tied iterate for iterate (pass count observed through the surface-function calls)']
ASSUMPTIONS = ['torch intersect_w_sphere is run with number_of_steps = 300 (it is a fixed-length for loop)']


def fl(xs):
    return ' '.join(str(f2b(float(x))) for x in xs)


def rot_dir(theta_deg):
    t = math.radians(theta_deg)
    return [math.sin(t), 0.0, math.cos(t)]


def check_parametric_model(ctx):
    """Correspondence of the Lean model of NumPy `intersect_parametric` (lean/OdakModel/Parametric.lean, driver op `param_sphere`: the
    loop by hand, its body regenerated from the source) with the real `intersect_parametric` / `intersect_w_sphere` on a sphere:
    exit kind (hit / iteration limit / NaN / guard false on entry), number of passes (observed by counting calls of the surface
    function), returned distance and point.  NumPy float64 on both sides, same operation order: tolerance 1e-9 relative."""
    import warnings
    import odak.raytracing as NR
    from odak.raytracing.boundary import intersect_parametric, get_sphere_normal
    from odak.raytracing.primitives import sphere_function
    rng = ctx.rng
    dflt = ctx.model.ask(['param_defaults'])[0].split() if ctx.drv_ok else None
    cases = [('hit', [[0, 0, 0], [0, 0, 1.0]], [0, 0, 10.0, 3.0], 1e-8, None),
             ('miss', [[0, 0, 0], [1.0, 0, 0]], [0, 0, 10.0, 3.0], 1e-8, 400),
             ('miss_offset', [[10.0, 0, 0], [0, 0, 1.0]], [0, 0, 10.0, 3.0], 1e-8, 250),
             ('pointing_away', [[0, 0, 0], [0, 0, -1.0]], [0, 0, 10.0, 3.0], 1e-8, 300),
             ('grazing_exact', [[3.0, 0, 0], [0, 0, 1.0]], [0, 0, 10.0, 3.0], 1e-8, 2000),
             ('grazing_inside', [[3.0 - 1e-6, 0, 0], [0, 0, 1.0]], [0, 0, 10.0, 3.0], 1e-8, 2000),
             ('grazing_outside', [[3.0 + 1e-6, 0, 0], [0, 0, 1.0]], [0, 0, 10.0, 3.0], 1e-8, 600),
             ('inside_start_centre', [[0, 0, 10.0], [0, 0, 1.0]], [0, 0, 10.0, 3.0], 1e-8, None),
             ('inside_start', [[0.5, -1.0, 9.0], [0.6, 0.0, 0.8]], [0, 0, 10.0, 3.0], 1e-8, None),
             ('zero_direction', [[0, 0, 0], [0, 0, 0]], [0, 0, 10.0, 3.0], 1e-8, 300),
             ('limit_zero', [[0, 0, 0], [0, 0, 1.0]], [0, 0, 10.0, 3.0], 1e-8, 0),
             ('limit_one_short', [[0, 0, 0], [0, 0, 1.0]], [0, 0, 10.0, 3.0], 1e-8, 9),
             ('limit_exact', [[0, 0, 0], [0, 0, 1.0]], [0, 0, 10.0, 3.0], 1e-8, 10),
             ('loose_tolerance', [[0, 0, 0], [0, 0, 1.0]], [0, 0, 10.0, 3.0], 1e-2, 300),
             ('guard_false_on_entry', [[0, 0, 0], [0, 0, 1.0]], [0, 0, 10.0, 3.0], 100.0, 300)]
    for i in range(ctx.n(30, 300)):
        c = np.array([rng.uniform(-1, 1), rng.uniform(-1, 1), rng.uniform(6, 14)])
        r = rng.uniform(0.5, 4)
        o = np.array([rng.uniform(-2, 2) for _ in range(3)])
        kind = rng.choice(['hit', 'hit', 'miss', 'grazing'])
        u = np.array([rng.gauss(0, 1) for _ in range(3)])
        d0 = (c - o) / np.linalg.norm(c - o)
        u = u - np.dot(u, d0) * d0
        u = u / np.linalg.norm(u)
        off = {'hit': rng.uniform(0, 0.8), 'miss': rng.uniform(1.3, 3), 'grazing': 1 + rng.choice([-1, 1]) * 10 ** rng.uniform(-7, -3)}[kind]
        d = c + off * r * u - o
        d = d / np.linalg.norm(d)
        cases.append(('random_' + kind, [o.tolist(), d.tolist()], c.tolist() + [r], rng.choice([1e-8, 1e-8, 1e-5]), rng.choice([150, 400])))
    lines = []
    for name, ray, sph, target, limit in cases:
        lim = limit if limit is not None else int(dflt[1]) if dflt else 100000
        lines.append('param_sphere %s %s %d %d' % (fl(ray[0] + ray[1]), fl(sph), f2b(target), lim))
    outs = ctx.model.ask(lines) if ctx.drv_ok else [None] * len(lines)
    for (name, ray, sph, target, limit), out in zip(cases, outs):
        rec = {'kind': 'parametric_model', 'name': name, 'ray': ray, 'sphere': sph, 'target_error': target, 'limit': limit}
        ctx.case(('parametric_model', name, tuple(ray[1])), True, rec if name == 'hit' else None)
        ctx.count('parametric_model/' + name.replace('random_', 'random '))
        calls = [0]

        def counting(p, s):
            calls[0] += 1
            return sphere_function(p, s)
        kw = {} if limit is None else {'iter_no_limit': limit}
        with warnings.catch_warnings():
            warnings.simplefilter('ignore')
            try:
                dist, normal = intersect_parametric(np.array(ray, dtype=np.float64), np.array(sph, dtype=np.float64), counting,
                                                    get_sphere_normal, target_error=target, **kw)
                py = ('hit', calls[0], float(np.asarray(dist).reshape(-1)[0]), np.asarray(normal, dtype=np.float64).reshape(2, 3)[0]) \
                    if normal is not False else ('miss', calls[0])
            except UnboundLocalError:
                py = ('unbound', calls[0])
        if limit is None and py[0] == 'hit':       # the public entry point with the defaults gives the same answer
            with warnings.catch_warnings():
                warnings.simplefilter('ignore')
                n2, d2 = NR.intersect_w_sphere(np.array(ray, dtype=np.float64), np.array(sph, dtype=np.float64))
            if float(np.asarray(d2).reshape(-1)[0]) != py[2]:
                ctx.alarm('correspondence', 'intersect_w_sphere and intersect_parametric disagree for %s' % rec)
        if out is None:
            continue
        tok = out.split()
        mk, mit = tok[0], int(tok[1])
        lim = limit if limit is not None else int(dflt[1])
        if mk == '0':
            md, mp = b2f(tok[2]), np.array([b2f(t) for t in tok[3:6]])
            ok = py[0] == 'hit' and py[1] == mit and abs(py[2] - md) <= 1e-9 * max(1.0, abs(md)) and \
                np.all(np.abs(py[3] - mp) <= 1e-9 * max(1.0, float(np.max(np.abs(mp)))))
            # the conclusion of C12_parametric_hit on the implementation's own output: within the limit, residual at the POINT
            if py[0] == 'hit':
                resid = abs(float(sphere_function(py[3], np.array(sph))[0]))
                if not (resid <= target and 1 <= py[1] <= lim):
                    ctx.violation('intersect_parametric returns a hit whose point has sphere-function residual %g > target_error %g '
                                  '(or after %d > limit passes)' % (resid, target, py[1]), rec,
                                  {'fn': 'intersect_parametric', 'api': 'numpy', 'what': 'hit_residual', 'case': name})
        elif mk == '1':
            ok = py[0] == 'miss' and py[1] == mit == lim + 1
        elif mk == '2':
            ok = py[0] == 'miss' and py[1] == mit and mit <= lim
        else:
            ok = py[0] == 'unbound' and py[1] == 0
        if not ok:
            ctx.alarm('correspondence', 'intersect_parametric %s vs model %s (%s)' % (
                [x.tolist() if isinstance(x, np.ndarray) else x for x in py], out if mk != '0' else [mk, mit, md, mp.tolist()], rec))


def run(ctx):
    check_parametric_model(ctx)
    rng = ctx.rng
    ctx.rule = ('boundary classes for the refraction root finder (beyond / exactly at / just below the critical angle, grazing, '
                'zero-length direction, zero normal, mixed batches, zero and negative tolerances) and for ray-sphere / ray-cylinder '
                'solvers (hit, miss, tangent, start inside, zero direction, parallel to the axis), each under a 20 s watchdog')
    wd = Watchdog(20.0)
    crit = math.degrees(math.asin(1 / 1.5))
    N = [[0, 0, 0], [0, 0, 1.0]]
    refr_cases = [
        ('tir_60', [[[0, 0, 0], rot_dir(60)]], [N], 1.5, 1.0, 0.01, 'flag'),
        ('tir_89', [[[0, 0, 0], rot_dir(89)]], [N], 1.5, 1.0, 0.01, 'flag'),
        ('tir_just_beyond', [[[0, 0, 0], rot_dir(crit + 1e-4)]], [N], 1.5, 1.0, 0.01, 'flag_or_unit'),
        ('critical_exact', [[[0, 0, 0], rot_dir(crit)]], [N], 1.5, 1.0, 0.01, 'flag_or_unit'),
        ('just_below_critical', [[[0, 0, 0], rot_dir(crit - 1e-3)]], [N], 1.5, 1.0, 0.01, 'unit'),
        ('normal_incidence', [[[0, 0, 0], [0, 0, 1.0]]], [N], 1.5, 1.0, 0.01, 'unit'),
        ('grazing', [[[0, 0, 0], [1.0, 0, 0]]], [N], 1.0, 1.5, 0.01, 'flag_or_unit'),
        ('zero_direction', [[[0, 0, 0], [0, 0, 0]]], [N], 1.0, 1.5, 0.01, 'flag_or_unit'),
        ('zero_normal', [[[0, 0, 0], [0, 0, 1.0]]], [[[0, 0, 0], [0, 0, 0]]], 1.0, 1.5, 0.01, 'flag'),
        ('mixed_batch', [[[0, 0, 0], rot_dir(60)], [[0, 0, 0], rot_dir(10)]], [N, N], 1.5, 1.0, 0.01, 'mixed'),
        ('tiny_tolerance', [[[0, 0, 0], rot_dir(20)]], [N], 1.0, 1.5, 1e-12, 'unit'),
        ('zero_tolerance', [[[0, 0, 0], rot_dir(20)]], [N], 1.0, 1.5, 0.0, 'unit'),
        ('negative_tolerance', [[[0, 0, 0], rot_dir(20)]], [N], 1.0, 1.5, -0.01, 'unit'),
    ]
    # surface normals "of any length and either sign" (refract divides by |n|^2 itself): the total-internal-reflection decision and the
    # termination of the loop must not depend on the length of the normal
    for tag, nz in (('short_normal', 0.5), ('shorter_normal', 0.25), ('long_normal', 2.0), ('longer_normal', 3.0), ('flipped_normal', -1.0),
                    ('flipped_short_normal', -0.5)):
        Ns = [[0, 0, 0], [0, 0, nz]]
        refr_cases.append(('tir_60_' + tag, [[[0, 0, 0], rot_dir(60)]], [Ns], 1.5, 1.0, 0.01, 'flag'))
        refr_cases.append(('tir_45_' + tag, [[[0, 0, 0], rot_dir(45)]], [Ns], 1.5, 1.0, 0.01, 'flag'))
        refr_cases.append(('below_critical_30_' + tag, [[[0, 0, 0], rot_dir(30)]], [Ns], 1.5, 1.0, 0.01, 'unit'))
        refr_cases.append(('air_to_glass_50_' + tag, [[[0, 0, 0], rot_dir(50)]], [Ns], 1.0, 1.5, 0.01, 'unit'))
    for _ in range(ctx.n(8, 80)):
        th = rng.uniform(0, 89.9)
        n1, n2 = rng.choice([(1.5, 1.0), (1.0, 1.5), (2.4, 1.0), (1.33, 1.0)])
        exp = 'flag' if n1 / n2 * math.sin(math.radians(th)) > 1.0005 else ('unit' if n1 / n2 * math.sin(math.radians(th)) < 0.9995 else 'flag_or_unit')
        nlen = rng.choice([1.0, 1.0, rng.choice([-1.0, 1.0]) * 10 ** rng.uniform(-0.7, 0.7)])
        az = rng.uniform(0, 2 * math.pi)
        d0 = rot_dir(th)
        d = [d0[0] * math.cos(az), d0[0] * math.sin(az), d0[2]]
        refr_cases.append(('random_%0.3f_%s_%0.3g' % (th, n1, nlen), [[[0, 0, 0], d]], [[[0, 0, 0], [0, 0, nlen]]], n1, n2, 0.01, exp))

    lines = []
    for (name, rays, normals, n1, n2, err, exp) in refr_cases:
        for r, n in zip(rays, normals):
            lines.append('refract %s %s %d %d' % (fl(r[1]), fl(n[1]), f2b(n1 / n2), f2b(err)))
    mouts = iter(ctx.model.ask(lines)) if ctx.drv_ok else None

    for (name, rays, normals, n1, n2, err, exp) in refr_cases:
        rec = {'kind': 'refract', 'name': name, 'rays': rays, 'normals': normals, 'n1': n1, 'n2': n2, 'error': err}
        st, res = wd.run(rec)
        ctx.case(('refract', name), True, {k: rec[k] for k in ('name', 'n1', 'n2', 'error')})
        ctx.count('refract/' + exp)
        models = [next(mouts).split() for _ in rays] if mouts is not None else [None] * len(rays)
        if st == 'hang':
            ctx.violation('refract does not return within 20 s for %s (n1=%g n2=%g, direction %s)' % (name, n1, n2, rays[0][1]), rec,
                          {'fn': 'refract', 'what': 'hang', 'case': name.split('_')[0] if name.startswith('random') else name})
            continue
        if st != 'ok' or 'exception' in res:
            ctx.violation('refract raised / died for %s: %s' % (name, res), rec, {'fn': 'refract', 'what': 'exception', 'case': name})
            continue
        outs = np.array(res['out'], dtype=np.float64)
        for i in range(len(rays)):
            o = outs[i, 1]
            e = exp if exp != 'mixed' else ('flag' if i == 0 else 'unit')
            flagged = not np.all(np.isfinite(o))
            nl2 = float(np.dot(normals[i][1], normals[i][1]))
            unit = (not flagged) and abs(np.dot(o, o) - 1) <= max(nl2, 1.0) * max(err, 0) ** 2 * 1.01 + 1e-6
            if e == 'flag' and not flagged:
                ctx.violation('refract returns the finite direction %s where no transmitted ray exists (%s)' % (o.tolist(), name), rec,
                              {'fn': 'refract', 'what': 'unflagged', 'case': name})
            if e == 'unit' and not unit:
                ctx.violation('refract returns %s (|out|^2 = %.6g) for a solvable case %s with tolerance %g'
                              % (o.tolist(), float(np.dot(o, o)) if not flagged else float('nan'), name, err), rec,
                              {'fn': 'refract', 'what': 'wrong_number', 'case': name})
            if e == 'flag_or_unit' and not (flagged or unit):
                ctx.violation('refract returns a plausible-looking wrong direction %s (|out|^2 = %.6g) for %s' % (o.tolist(), float(np.dot(o, o)), name),
                              rec, {'fn': 'refract', 'what': 'wrong_number', 'case': name})
            m = models[i]
            if m is not None and err > 0:
                if m[0] == '1' and not flagged:
                    ctx.alarm('correspondence', 'model flags total internal reflection for %s, implementation returns %s' % (name, o.tolist()))
                if m[0] == '2':
                    ctx.alarm('correspondence', 'the Newton model does not converge within its fuel for %s' % name)
                if m[0] == '0' and not flagged and len(rays) == 1:
                    w = np.array([b2f(x) for x in m[3:6]])
                    if np.all(np.isfinite(w)) and not np.allclose(o, w, atol=1e-9):
                        ctx.alarm('correspondence', 'refract %s vs Newton model %s for %s' % (o.tolist(), w.tolist(), name))

    # ---------------- torch intersect_w_sphere: fixed number of steps, flag = residual below threshold
    sph = [0.0, 0.0, 10.0, 3.0]
    sphere_cases = [('hit', [[0, 0, 0], [0, 0, 1.0]], True), ('miss', [[0, 0, 0], [1.0, 0, 0]], False),
                    ('miss_offset', [[10.0, 0, 0], [0, 0, 1.0]], False), ('inside', [[0, 0, 10.0], [0, 0, 1.0]], True),
                    ('zero_direction', [[0, 0, 0], [0, 0, 0]], False)]
    for name, ray, expect in sphere_cases:
        rec = {'kind': 'sphere_torch', 'name': name, 'rays': [ray], 'sphere': sph, 'steps': 400}
        st, res = wd.run(rec, limit=60)
        ctx.case(('sphere_torch', name), True)
        if st != 'ok':
            ctx.violation('torch intersect_w_sphere does not return for %s' % name, rec, {'fn': 'intersect_w_sphere', 'api': 'torch', 'what': 'hang', 'case': name})
            continue
        if 'exception' in res:
            ctx.violation('torch intersect_w_sphere raised %s for %s' % (res['exception'], name), rec,
                          {'fn': 'intersect_w_sphere', 'api': 'torch', 'what': 'exception', 'case': name})
            continue
        chk = bool(res['check'][0])
        if chk and not expect:
            ctx.violation('torch intersect_w_sphere reports a hit for %s' % name, rec, {'fn': 'intersect_w_sphere', 'api': 'torch', 'what': 'unflagged', 'case': name})
        if chk:
            p = np.array(res['points'][0])
            if abs(np.linalg.norm(p - np.array(sph[:3])) - sph[3]) > 0.1:
                ctx.violation('torch intersect_w_sphere flags a hit at %s which is not on the sphere' % p.tolist(), rec,
                              {'fn': 'intersect_w_sphere', 'api': 'torch', 'what': 'wrong_number', 'case': name})

    # the same solver for rays and spheres that carry autograd history (learned leaves, results of earlier differentiable steps, rays the library
    # built from learned points): one mixed batch (hit, off-axis hit, two misses, start inside); it returns, and its flags are those of plain tensors
    batch = [[[0, 0, 0], [0, 0, 1.0]], [[0.5, 0.2, 0], [0, 0, 1.0]], [[0, 0, 0], [1.0, 0, 0]], [[10.0, 0, 0], [0, 0, 1.0]], [[0, 0, 10.0], [0, 0, 1.0]]]
    ref_flags = None
    for prov in ('plain', 'leaf', 'scaled', 'two_points', 'refracted'):
        rec = {'kind': 'sphere_torch', 'name': 'mixed batch, tensors with provenance ' + prov, 'rays': batch, 'sphere': sph, 'steps': 400, 'provenance': prov}
        st, res = wd.run(rec, limit=90)
        ctx.case(('sphere_torch_provenance', prov), True)
        ctx.count('sphere_torch/provenance/' + prov)
        if st != 'ok':
            ctx.violation('torch intersect_w_sphere does not return for rays / sphere with provenance %r' % prov, rec,
                          {'fn': 'intersect_w_sphere', 'api': 'torch', 'what': 'hang', 'case': 'provenance'})
            continue
        if 'exception' in res:
            ctx.violation('torch intersect_w_sphere raised %s for a mixed batch whose tensors carry autograd history (%s)' % (res['exception'], prov), rec,
                          {'fn': 'intersect_w_sphere', 'api': 'torch', 'what': 'exception', 'case': 'provenance'})
            continue
        flags = [bool(x) for x in res['check']]
        if ref_flags is None:
            ref_flags = flags
            if flags[2] or flags[3]:
                ctx.violation('torch intersect_w_sphere reports a hit for a ray that misses (mixed batch)', rec,
                              {'fn': 'intersect_w_sphere', 'api': 'torch', 'what': 'unflagged', 'case': 'provenance'})
        elif flags != ref_flags:
            ctx.violation('torch intersect_w_sphere: hit flags %s for tensors with provenance %r differ from the flags %s for plain tensors of the same values'
                          % (flags, prov, ref_flags), rec, {'fn': 'intersect_w_sphere', 'api': 'torch', 'what': 'provenance_flags', 'case': 'provenance'})

    # ---------------- the public NumPy secant solver with the caller's OWN surface: the error function written with `math` / plain arithmetic returns a Python
    # float (the documentation calls the error a float), with NumPy it returns a NumPy scalar or a 1-element array; stalled rays (zero direction, parallel to a
    # plane) and misses must come back flagged - (False, False) or a non-finite distance - never an exception, for every way of writing the callback
    from odak.raytracing.boundary import intersect_parametric as _ip

    def _plane_fn(kind):
        def f(point, surface):
            p = np.asarray(point, dtype=np.float64).reshape(-1)
            v = (p[0] - surface[0]) * surface[3] + (p[1] - surface[1]) * surface[4] + (p[2] - surface[2]) * surface[5]
            return {'python float': float(v), 'numpy scalar': np.float64(v), 'numpy array': np.array([v])}[kind]
        return f

    def _parab_fn(kind):
        def f(point, surface):
            p = np.asarray(point, dtype=np.float64).reshape(-1)
            v = p[2] - surface[0] * (p[0] * p[0] + p[1] * p[1]) - surface[1]
            return {'python float': float(v), 'numpy scalar': np.float64(v), 'numpy array': np.array([v])}[kind]
        return f

    def _normal_fn(point, surface):
        return np.array([np.asarray(point, dtype=np.float64).reshape(-1)[:3], [0., 0., 1.]])
    def _cap_fn(kind):          # a spherical cap z = z0 + R - sqrt(R^2 - x^2 - y^2): the sag is undefined (NaN) outside the aperture of radius R
        def f(point, surface):
            p = np.asarray(point, dtype=np.float64).reshape(-1)
            rr = surface[1] ** 2 - p[0] * p[0] - p[1] * p[1]
            v = p[2] - (surface[0] + surface[1] - (math.sqrt(rr) if rr >= 0 else float('nan')))
            return {'python float': float(v), 'numpy scalar': np.float64(v), 'numpy array': np.array([v])}[kind]
        return f
    cb_cases = [('cap', [5.0, 2.0], 'hit', [[0.3, 0.2, 0.], [0., 0., 1.]], True),
                ('cap', [5.0, 2.0], 'leaves_the_aperture', [[0.3, 0.2, 0.], [0.6, 0., 0.8]], False),
                ('cap', [5.0, 2.0], 'outside_the_aperture', [[3.0, 0., 0.], [0., 0., 1.]], False),
                ('plane', [0., 0., 5., 0., 0., 1.], 'hit', [[0.2, -0.1, 0.], [0., 0.6, 0.8]], True),
                ('plane', [0., 0., 5., 0., 0., 1.], 'parallel', [[0., 0., 0.], [1., 0., 0.]], False),
                ('plane', [0., 0., 5., 0., 0., 1.], 'zero_direction', [[0., 0., 0.], [0., 0., 0.]], False),
                ('paraboloid', [0.1, 2.0], 'hit', [[0.3, 0.2, 0.], [0., 0., 1.]], True),
                ('paraboloid', [0.1, 2.0], 'zero_direction', [[0.3, 0.2, 0.], [0., 0., 0.]], False),
                ('paraboloid', [0.1, 2.0], 'miss', [[0.3, 0.2, 0.], [0., 0., -1.]], False)]
    for surf_name, surf, name, ray, expect in cb_cases:
        for kind in ('python float', 'numpy scalar', 'numpy array'):
            fn = {'plane': _plane_fn, 'paraboloid': _parab_fn, 'cap': _cap_fn}[surf_name](kind)
            rec = {'kind': 'parametric_callback', 'surface': surf_name, 'params': surf, 'name': name, 'ray': ray, 'callback_returns': kind}
            ctx.case(('parametric_callback', surf_name, name, kind), True)
            ctx.count('parametric_callback/returns ' + kind)
            try:
                with time_limit(30.0):
                    with np.errstate(all='ignore'), warnings.catch_warnings():
                        warnings.simplefilter('ignore')
                        dist, nrm = _ip(np.array(ray, dtype=np.float64), np.array(surf, dtype=np.float64), fn, _normal_fn, iter_no_limit=2000)
            except CallTimeout:
                ctx.violation('intersect_parametric does not return within 30 s for a %s (%s) with a callback returning a %s' % (surf_name, name, kind), rec,
                              {'fn': 'intersect_parametric', 'api': 'numpy', 'what': 'hang', 'case': 'callback'})
                continue
            except Exception as e:
                ctx.violation('intersect_parametric raised %r from inside the solver for a %s, ray %s (%s), with a surface function returning a %s'
                              % (e, surf_name, ray, name, kind), rec, {'fn': 'intersect_parametric', 'api': 'numpy', 'what': 'exception', 'case': 'callback'})
                continue
            flagged = dist is False or (isinstance(dist, (bool, np.bool_)) and not dist) or not np.all(np.isfinite(np.asarray(dist, dtype=np.float64)))
            if expect is False and not flagged:
                d = float(np.asarray(dist, dtype=np.float64).reshape(-1)[0])
                pt = np.array(ray[0]) + d * np.array(ray[1])
                resid_ = float(np.asarray(fn(pt, surf)).reshape(-1)[0])
                if not abs(resid_) <= 1e-3:          # also a NaN residual: the reported point is not a point of the surface
                    ctx.violation('intersect_parametric reports distance %g for a %s ray (%s) whose point is not on the surface' % (d, name, surf_name), rec,
                                  {'fn': 'intersect_parametric', 'api': 'numpy', 'what': 'unflagged', 'case': 'callback'})
            if expect is True and flagged:
                ctx.violation('intersect_parametric flags the ray %s as a miss although it meets the %s (callback returning a %s)' % (ray, surf_name, kind), rec,
                              {'fn': 'intersect_parametric', 'api': 'numpy', 'what': 'missed_hit', 'case': 'callback'})
    # ---------------- NumPy secant solver (ray-sphere, ray-cylinder) with its iteration cap
    np_cases = [('sphere_np', 'hit', [[0, 0, 0], [0, 0, 1.0]], [0, 0, 10.0, 3.0], True),
                ('sphere_np', 'miss', [[0, 0, 0], [1.0, 0, 0]], [0, 0, 10.0, 3.0], False),
                ('sphere_np', 'miss_offset', [[10.0, 0, 0], [0, 0, 1.0]], [0, 0, 10.0, 3.0], False),
                ('sphere_np', 'tangent', [[3.0, 0, 0], [0, 0, 1.0]], [0, 0, 10.0, 3.0], None),
                ('sphere_np', 'inside', [[0, 0, 10.0], [0, 0, 1.0]], [0, 0, 10.0, 3.0], True),
                ('sphere_np', 'zero_direction', [[0, 0, 0], [0, 0, 0]], [0, 0, 10.0, 3.0], False),
                ('cylinder_np', 'hit', [[0, 0, -10.0], [0, 0, 1.0]], [0, 0, 0, 3.0, 0, 1.0, 0], True),
                ('cylinder_np', 'parallel_to_axis_outside', [[10.0, 0, 0], [0, 1.0, 0]], [0, 0, 0, 3.0, 0, 1.0, 0], False),
                ('cylinder_np', 'miss', [[10.0, 0, -10.0], [0, 0, 1.0]], [0, 0, 0, 3.0, 0, 1.0, 0], False)]
    np_cases += [('sphere_np', 'nan_radius', [[0, 0, 0], [0, 0, 1.0]], [0, 0, 10.0, float('nan')], False),
                 ('sphere_np', 'nan_centre', [[0, 0, 0], [0, 0, 1.0]], [float('nan'), 0, 10.0, 3.0], False),
                 ('cylinder_np', 'nan_radius', [[0, 0, -10.0], [0, 0, 1.0]], [0, 0, 0, float('nan'), 0, 1.0, 0], False),
                 ('sphere_np', 'inf_radius', [[0, 0, 0], [0, 0, 1.0]], [0, 0, 10.0, float('inf')], False)]
    for kind, name, ray, surf, expect in np_cases:
        rec = {'kind': kind, 'name': name, 'rays': [ray], 'surface': surf}
        st, res = wd.run(rec, limit=90)
        ctx.case((kind, name), True)
        if st != 'ok':
            ctx.violation('%s does not return for %s' % (kind, name), rec, {'fn': kind, 'api': 'numpy', 'what': 'hang', 'case': name})
            continue
        if 'exception' in res:
            ctx.violation('%s raised %s for %s' % (kind, res['exception'], name), rec, {'fn': kind, 'api': 'numpy', 'what': 'exception', 'case': name})
            continue
        if res.get('flag') and not np.all(np.isfinite(np.asarray(res['distance'], dtype=np.float64))):
            res = dict(res, flag=False)          # a non-finite distance is an explicit mark
            ctx.count('np_solver/flagged by a non-finite distance')
        if expect is False and res.get('flag'):
            d = res['distance'][0]
            p = np.array(ray[0]) + d * np.array(ray[1])
            ctx.violation('%s reports an intersection (distance %g, point %s) for %s' % (kind, d, p.tolist(), name), rec,
                          {'fn': kind, 'api': 'numpy', 'what': 'unflagged', 'case': name})
        if res.get('flag'):
            d = res['distance'][0]
            p = np.array(ray[0]) + d * np.array(ray[1])
            if kind == 'sphere_np':
                resid = abs(np.linalg.norm(p - np.array(surf[:3])) - surf[3])
            else:
                c = np.array(surf[:3]); ax = np.array(surf[4:7]) / np.linalg.norm(surf[4:7])
                q = p - c
                resid = abs(np.linalg.norm(q - np.dot(q, ax) * ax) - surf[3])
            if resid > 1e-3:
                ctx.violation('%s returns distance %g whose point %s is not on the surface (residual %.3g) for %s' % (kind, d, p.tolist(), resid, name),
                              rec, {'fn': kind, 'api': 'numpy', 'what': 'wrong_number', 'case': name})
    from .gensphere import check_generated_sphere; check_generated_sphere(ctx, wd)   # torch intersect_w_sphere vs Generated/SphereSearch.lean + OdakModel/SphereSearch.lean
    from .gencylinder import check_generated_cylinder; check_generated_cylinder(ctx)   # NumPy intersect_w_cylinder vs Generated/CylinderGen.lean + OdakModel/Cylinder.lean
    wd.close()


def replay(ctx, rep):
    wd = Watchdog(20.0)
    st, res = wd.run(rep['replay'])
    wd.close()
    print('status', st, 'result', res)
    return st == 'ok' and 'exception' not in (res or {})
