"""Shared generators / implementation drivers / model drivers for the wave-propagation properties (C01-C04, C06)."""
import logging
import math
import numpy as np
import torch
from ..lib.core import f2b, b2f

logging.disable(logging.WARNING)
import warnings
warnings.filterwarnings("ignore")

LAM = 0.5          # non-dimensional optics: lambda ~ 0.5, dx ~ 1 (the code is unit-free)
TOL_T = 5e-4       # torch kernels are float32
TOL_N = 1e-9       # NumPy API is float64

T_METHODS = {'as': 'Angular Spectrum', 'tf': 'Transfer Function Fresnel', 'bl': 'Bandlimited Angular Spectrum',
             'ir': 'Impulse Response Fresnel'}
N_METHODS = {'as': 'Angular Spectrum', 'tf': 'Transfer Function Fresnel', 'bl': 'Bandlimited Angular Spectrum',
             'ir': 'Impulse Response Fresnel'}


def shapes(ctx, maxside=9):
    """shape classes: every parity combination, non-square, 1-sided"""
    base = [(1, 1), (2, 2), (3, 3), (4, 4), (2, 3), (3, 2), (4, 5), (5, 4), (5, 5), (6, 7), (7, 6), (1, 6), (6, 1), (8, 8), (7, 9), (9, 7), (3, 8)]
    if not ctx.quick:
        base += [(a, b) for a in range(1, maxside + 1) for b in range(1, maxside + 1) if (a, b) not in base]
    return base


def rand_field(rng, n, m, kind=None):
    kind = kind or rng.choice(['gauss', 'gauss', 'delta', 'const', 'real'])
    if kind == 'delta':
        u = np.zeros((n, m), dtype=np.complex128)
        u[rng.randrange(n), rng.randrange(m)] = complex(rng.uniform(-2, 2), rng.uniform(-2, 2))
    elif kind == 'const':
        u = np.full((n, m), complex(rng.uniform(-2, 2), rng.uniform(-2, 2)))
    elif kind == 'real':
        u = np.array([[rng.uniform(0, 1) for _ in range(m)] for _ in range(n)], dtype=np.complex128)
    else:
        u = np.array([[complex(rng.gauss(0, 1), rng.gauss(0, 1)) for _ in range(m)] for _ in range(n)])
    return u


def rand_optics(rng, zclass=None):
    """(dx, lam, z) with every grid frequency propagating: dx >= lam/sqrt(2) with a margin"""
    lam = LAM * rng.choice([1.0, 1.0, 0.8, 1.3])
    dx = lam / math.sqrt(2) * rng.uniform(1.03, 4.0)
    zclass = zclass or rng.choice(['zero', 'near', 'near', 'far', 'neg', 'negfar'])
    z = {'zero': 0.0, 'near': rng.uniform(0.05, 3.0), 'far': rng.uniform(5.0, 30.0),
         'neg': -rng.uniform(0.05, 3.0), 'negfar': -rng.uniform(5.0, 30.0)}[zclass]
    return dx, lam, z, zclass


def bl_margin_ok(n, m, dx, lam, z, api):
    """is every grid frequency at a safe distance from the band limit (float32 vs float64 comparisons)?"""
    for (cnt, L) in ((m, dx * n if api == 'torch' else dx * m), (n, dx * m if api == 'torch' else dx * n)):
        lim = 1.0 / math.sqrt((2 * z / L) ** 2 + 1) / lam
        if api == 'torch':
            Lc = dx * cnt
            fs = np.linspace(-1 / (2 * dx) + 0.5 / (2 * Lc), 1 / (2 * dx) - 0.5 / (2 * Lc), cnt)
        else:
            fs = np.linspace(-1 / 2 / dx, 1 / 2 / dx, cnt)
        if np.any(np.abs(np.abs(fs) - lim) < 1e-4 * lim):
            return False
    return True


def enc_field(u):
    out = []
    for v in np.asarray(u, dtype=np.complex128).reshape(-1):
        out.append(str(f2b(v.real)))
        out.append(str(f2b(v.imag)))
    return ' '.join(out)


def dec_field(line, n, m):
    xs = [b2f(t) for t in line.split()]
    a = np.array(xs, dtype=np.float64).reshape(n, m, 2)
    return a[..., 0] + 1j * a[..., 1]


def model_line(api, meth, u, dx, lam, z, samples=(2, 2, 2, 2)):
    n, m = u.shape
    if api == 'torch':
        if meth == 'ir':
            ps = [dx, lam, z] + [float(s) for s in samples]
        else:
            ps = [dx, lam, z]
        op = 't_' + meth
    else:
        ps = [dx, lam, 2 * math.pi / lam, z]
        op = 'np_' + meth
    return '%s %d %d %s %s' % (op, n, m, ' '.join(str(f2b(p)) for p in ps), enc_field(u))


def impl(api, meth, u, dx, lam, z, samples=(2, 2, 2, 2), aperture=1., zero_padding=(False, False, False), kernel=None, dtype=None):
    """dtype: None = complex128 (default); otherwise the NumPy dtype the field is handed over in (float64 / float32 / complex64 ...): a real-valued
    field may be stored in a real dtype"""
    k = 2 * math.pi / lam
    if dtype is not None:
        arr = np.asarray(u)
        arr = (arr.real if np.dtype(dtype).kind == 'f' else arr).astype(dtype)
        if api == 'torch':
            import odak.learn.wave as W
            r = W.propagate_beam(torch.from_numpy(arr), k, z, dx, lam, propagation_type=T_METHODS.get(meth, meth), kernel=kernel,
                                 zero_padding=list(zero_padding), aperture=aperture, samples=list(samples))
            return r.detach().numpy().astype(np.complex128)
        import odak.wave as W
        return np.asarray(W.propagate_beam(arr, k, z, dx, lam, N_METHODS[meth]), dtype=np.complex128)
    if api == 'torch':
        import odak.learn.wave as W
        t = torch.from_numpy(np.asarray(u, dtype=np.complex128))
        name = T_METHODS.get(meth, meth)
        r = W.propagate_beam(t, k, z, dx, lam, propagation_type=name, kernel=kernel,
                             zero_padding=list(zero_padding), aperture=aperture, samples=list(samples))
        return r.detach().numpy().astype(np.complex128)
    import odak.wave as W
    return np.asarray(W.propagate_beam(np.asarray(u, dtype=np.complex128), k, z, dx, lam, N_METHODS[meth]), dtype=np.complex128)


T_ALL = ['Incoherent Angular Spectrum', 'Angular Spectrum', 'Bandlimited Angular Spectrum', 'Impulse Response Fresnel', 'Seperable Impulse Response Fresnel',
         'Transfer Function Fresnel', 'Fraunhofer']
N_ALL = ['Angular Spectrum', 'Bandlimited Angular Spectrum', 'Bandextended Angular Spectrum', 'Transfer Function Fresnel', 'Impulse Response Fresnel',
         'Fraunhofer', 'Fraunhofer Inverse']


def other_models_first(api, meth, u, dx, lam, z, samples=(2, 2, 2, 2), zero_padding=(False, False, False)):
    """a user comparing imaging models of ONE setup computes the others first: every other propagation type the API offers is called with the very same
    field, sampling, wavelength, distance and padding (results discarded, failures ignored); returns how many calls returned"""
    k = 2 * math.pi / lam
    done = 0
    mine = (T_METHODS if api == 'torch' else N_METHODS).get(meth, meth)
    for name in (T_ALL if api == 'torch' else N_ALL):
        if name == mine:
            continue
        try:
            if api == 'torch':
                import odak.learn.wave as W
                W.propagate_beam(torch.from_numpy(np.asarray(u, dtype=np.complex128)), k, z, dx, lam, propagation_type=name,
                                 zero_padding=list(zero_padding), aperture=1., samples=list(samples))
            else:
                import odak.wave as W
                W.propagate_beam(np.asarray(u, dtype=np.complex128), k, z, dx, lam, name)
            done += 1
        except (Exception, SystemExit):
            pass
    return done


def energy(u):
    return float(np.sum(np.abs(u) ** 2))


def maxdiff(a, b):
    a, b = np.asarray(a), np.asarray(b)
    if a.shape != b.shape:
        return float('inf')
    if np.isnan(a).any() or np.isnan(b).any():
        return 0.0 if np.array_equal(np.isnan(a), np.isnan(b)) and np.allclose(np.nan_to_num(a), np.nan_to_num(b), atol=1e-6) else float('inf')
    return float(np.max(np.abs(a - b))) if a.size else 0.0


def tol(api):
    return TOL_T if api == 'torch' else TOL_N


def storage_independence(ctx, pid, methods=('as', 'bl', 'tf', 'ir')):
    """a real-valued field is the same field whether it is stored as float32 / float64 or as a complex array with zero imaginary part (an amplitude
    mask, a Gaussian beam at its waist): every method of both APIs must return the same propagated field for it.  With linearity this is
    out(1 * u) = 1 * out(u) for the complex coefficient 1; it is stated by C03 and C04 for every input field.  Rejected dtypes are not judged."""
    rng = ctx.rng
    for (n, m) in ((6, 6), (5, 7), (8, 5)):
        dx, lam, z, zc = rand_optics(rng, 'near')
        ur = np.array([[rng.uniform(0.1, 1.5) for _ in range(m)] for _ in range(n)])
        for api in ('torch', 'numpy'):
            for meth in methods:
                try:
                    ref = impl(api, meth, ur.astype(np.complex128), dx, lam, z)
                except Exception:
                    continue
                for dt in (np.float64, np.float32, np.complex64):
                    ctx.case(('storage', pid, api, meth, n, m, np.dtype(dt).name), True)
                    ctx.count('field_storage/%s/%s' % (api, np.dtype(dt).name))
                    try:
                        out = impl(api, meth, ur, dx, lam, z, dtype=dt)
                    except Exception:
                        ctx.count('field_storage/rejected/%s/%s' % (api, np.dtype(dt).name))
                        continue
                    scale = max(1.0, float(np.max(np.abs(ref))))
                    tol_ = 2e-3 if (api == 'torch' or dt in (np.float32, np.complex64)) else 1e-9
                    if out.shape != ref.shape or not maxdiff(out, ref) <= tol_ * scale:
                        ctx.violation('%s %s: the real-valued %dx%d field stored as %s propagates to a different field than the same field stored as '
                                      'complex128 (max difference %.3g, scale %.3g; imaginary part of the %s result: max %.3g)'
                                      % (api, T_METHODS.get(meth, meth), n, m, np.dtype(dt).name, maxdiff(out, ref), scale, np.dtype(dt).name,
                                         float(np.max(np.abs(out.imag))) if out.shape == ref.shape else float('nan')),
                                      {'api': api, 'method': meth, 'n': n, 'm': m, 'dx': dx, 'lam': lam, 'z': z, 'dtype': np.dtype(dt).name,
                                       'u': ur.reshape(-1).tolist()},
                                      {'api': api, 'method': meth, 'what': 'field_storage', 'dtype': np.dtype(dt).name})


def argument_types(ctx, pid, methods=('as', 'bl', 'tf', 'ir')):
    """the scalar and option arguments of propagate_beam handed over in the other ordinary types that hold the same values - the three padding switches as a
    tuple, the sample counts as a tuple, distance / pixel pitch / wavelength / wavenumber as NumPy float64 scalars or 0-d float64 tensors - give the same
    propagated field (whatever the property says about the field then holds for these calls too).  Types the implementation rejects are not judged."""
    import odak.learn.wave as LW
    import odak.wave as NW
    rng = ctx.rng
    for (n, m) in ((6, 6), (5, 8)):
        dx, lam, z, zc = rand_optics(rng, 'near')
        k = 2 * math.pi / lam
        u = rand_field(rng, n, m, 'gauss')
        t = torch.from_numpy(np.asarray(u, dtype=np.complex128))
        for meth in methods:
            name = T_METHODS.get(meth, meth)
            for pad in ([False, False, False], [True, False, True], [True, False, False]):
                try:
                    ref = LW.propagate_beam(t, k, z, dx, lam, propagation_type=name, zero_padding=list(pad), samples=[2, 2, 2, 2]).detach().numpy()
                except Exception:
                    continue
                scale = max(1.0, float(np.max(np.abs(ref))))
                variants = [('zero_padding as a tuple', dict(zero_padding=tuple(pad))),
                            ('samples as a tuple', dict(samples=(2, 2, 2, 2))),
                            ('distance as a NumPy float64 scalar', dict(distance=np.float64(z))),
                            ('distance as a 0-d float64 tensor', dict(distance=torch.tensor(z, dtype=torch.float64))),
                            ('pixel pitch and wavelength as NumPy float64 scalars', dict(dx=np.float64(dx), wavelength=np.float64(lam), k=np.float64(k)))]
                for what, kw in variants:
                    args = dict(k=k, distance=z, dx=dx, wavelength=lam, zero_padding=list(pad), samples=[2, 2, 2, 2])
                    args.update(kw)
                    ctx.case(('argument_types', pid, meth, n, m, tuple(pad), what), True)
                    ctx.count('argument_types/' + what)
                    try:
                        out = LW.propagate_beam(t, args['k'], args['distance'], args['dx'], args['wavelength'], propagation_type=name,
                                                zero_padding=args['zero_padding'], samples=args['samples']).detach().numpy()
                    except Exception:
                        ctx.count('argument_types/rejected: ' + what)
                        continue
                    if out.shape != ref.shape or not maxdiff(out, ref) <= 2e-3 * scale:
                        ctx.violation('torch %s with %s (padding switches %s, %dx%d field) returns a different field than the same call with lists and Python '
                                      'floats: shape %s vs %s, max difference %.3g' % (name, what, pad, n, m, out.shape, ref.shape, maxdiff(out, ref)),
                                      {'api': 'torch', 'method': meth, 'n': n, 'm': m, 'dx': dx, 'lam': lam, 'z': z, 'pad': pad, 'variant': what},
                                      {'api': 'torch', 'method': meth, 'what': 'argument_types', 'variant': what})
            try:
                refn = np.asarray(NW.propagate_beam(np.asarray(u, dtype=np.complex128), k, z, dx, lam, N_METHODS[meth]))
                outn = np.asarray(NW.propagate_beam(np.asarray(u, dtype=np.complex128), np.float64(k), np.float64(z), np.float64(dx), np.float64(lam), N_METHODS[meth]))
            except Exception:
                continue
            ctx.case(('argument_types', pid, 'numpy', meth, n, m), True)
            if outn.shape != refn.shape or not maxdiff(outn, refn) <= 1e-9 * max(1.0, float(np.max(np.abs(refn)))):
                ctx.violation('numpy %s with NumPy float64 scalars for k, distance, dx, wavelength differs from the call with Python floats' % N_METHODS[meth],
                              {'api': 'numpy', 'method': meth, 'n': n, 'm': m, 'dx': dx, 'lam': lam, 'z': z},
                              {'api': 'numpy', 'method': meth, 'what': 'argument_types'})
