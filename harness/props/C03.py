"""C03 – propagation is linear and shift-equivariant.
Correspondence shared with C01 (full outputs vs the model); monitors: superposition defect, zero -> zero and
roll-equivariance on the implementation for every method of both APIs and for propagator.__call__."""
import math
import numpy as np
import torch
from . import wavelib as W

TRUSTED = ['numpy.fft / torch.fft compute the DFT of OdakModel/Fourier.lean (validated through the pipeline correspondence)']
ASSUMPTIONS = ['shift-equivariance is checked for the convolution-type methods without Fourier-domain padding, as the property says']

T_ALL = ['Angular Spectrum', 'Bandlimited Angular Spectrum', 'Transfer Function Fresnel', 'Impulse Response Fresnel',
         'Seperable Impulse Response Fresnel', 'Incoherent Angular Spectrum', 'Fraunhofer', 'custom']
N_ALL = ['Angular Spectrum', 'Bandlimited Angular Spectrum', 'Transfer Function Fresnel', 'Impulse Response Fresnel', 'Fraunhofer']


def t_call(name, u, dx, lam, z, kernel=None, zp=(False, False, False), ap=1.):
    import odak.learn.wave as LW
    k = 2 * math.pi / lam
    r = LW.propagate_beam(torch.from_numpy(u), k, z, dx, lam, propagation_type=name, kernel=kernel,
                          zero_padding=list(zp), aperture=ap, samples=[2, 2, 2, 2])
    return r.detach().numpy().astype(np.complex128)


def n_call(name, u, dx, lam, z):
    import odak.wave as NW
    return np.asarray(NW.propagate_beam(u, 2 * math.pi / lam, z, dx, lam, name), dtype=np.complex128)


def run(ctx):
    rng = ctx.rng
    ctx.rule = ('pairs of random fields and complex scalars through every method of both APIs (torch: 8 propagation types incl. '
                'custom kernel, with and without spatial pad/crop; NumPy: 5), plus integer circular shifts; non-trivial = non-zero '
                'a, b and fields; distinct by (api, method, shape, padding, seed-derived scalars)')
    # correspondence (same as C01, smaller): the model has no normalisation stage, so any such change breaks it
    cases = []
    for (n, m) in [(3, 4), (5, 5), (6, 7), (8, 8), (2, 5)] + ([(a, b) for a in (4, 7, 9) for b in (3, 6)] if not ctx.quick else []):
        for api in ('torch', 'numpy'):
            for meth in ('as', 'tf', 'bl', 'ir'):
                for _ in range(20):
                    dx, lam, z, zc = W.rand_optics(rng)
                    if (meth == 'ir' and zc == 'zero') or (meth == 'bl' and not W.bl_margin_ok(n, m, dx, lam, z, api)):
                        continue
                    break
                cases.append((api, meth, n, m, dx, lam, z, W.rand_field(rng, n, m, 'gauss')))
    if ctx.drv_ok:
        outs = ctx.model.ask([W.model_line(c[0], c[1], c[7], c[4], c[5], c[6]) for c in cases])
        for c, o in zip(cases, outs):
            api, meth, n, m, dx, lam, z, u = c
            d = W.maxdiff(W.impl(api, meth, u, dx, lam, z), W.dec_field(o, n, m))
            ctx.case(('corr', api, meth, n, m), True)
            if not d <= W.tol(api) * max(1.0, float(np.max(np.abs(u)))) * (10 if meth == 'ir' else 1):
                ctx.alarm('correspondence', 'model and implementation differ by %.3g for %s %s %dx%d z=%g' % (d, api, meth, n, m, z))

    shapes = [(5, 6), (6, 5), (7, 7), (8, 8)] if ctx.quick else [(5, 6), (6, 5), (7, 7), (8, 8), (5, 9), (9, 5), (6, 6), (10, 7)]
    for (n, m) in shapes:
        for api, names in (('torch', T_ALL), ('numpy', N_ALL)):
            for name in names:
                pads = [(False, False, False)]
                if api == 'torch' and name not in ('Fraunhofer',):
                    pads.append((True, False, True))
                for zp in pads:
                    dx, lam, z, zc = W.rand_optics(rng, rng.choice(['near', 'far', 'neg']))
                    u, v = W.rand_field(rng, n, m, 'gauss'), W.rand_field(rng, n, m, rng.choice(['gauss', 'delta', 'real']))
                    a, b = complex(rng.gauss(0, 1), rng.gauss(0, 1)), complex(rng.gauss(0, 1), rng.gauss(0, 1))
                    kern = None
                    if name == 'custom':
                        kn, km = (2 * n, 2 * m) if zp[0] else (n, m)
                        kern = torch.from_numpy(W.rand_field(rng, kn, km, 'gauss'))
                    if api == 'torch':
                        f = lambda x: t_call(name, x, dx, lam, z, kern, zp)
                    else:
                        f = lambda x: n_call(name, x, dx, lam, z)
                    rec = {'api': api, 'method': name, 'n': n, 'm': m, 'dx': dx, 'lam': lam, 'z': z, 'zero_padding': list(zp),
                           'a': [a.real, a.imag], 'b': [b.real, b.imag], 'seed': ctx.seed}
                    try:
                        fu, fv, fw = f(u), f(v), f(a * u + b * v)
                        f0 = f(np.zeros((n, m), dtype=np.complex128))
                    except Exception as e:
                        ctx.violation('%s %s raised %r' % (api, name, e), rec, {'api': api, 'method': name, 'what': 'raises'})
                        continue
                    ctx.case((api, name, n, m, zp), True, rec)
                    ctx.count('%s/%s/%s' % (api, name, 'padcrop' if zp[0] else 'nopad'))
                    scale = max(1e-12, float(np.max(np.abs(fu))), float(np.max(np.abs(fv))))
                    d = W.maxdiff(fw, a * fu + b * fv) / scale
                    if not d <= (2e-3 if api == 'torch' else 1e-8):
                        ctx.violation('%s %s is not linear: |out(au+bv) - a out(u) - b out(v)| / scale = %.3g (%dx%d)' % (api, name, d, n, m),
                                      rec, {'api': api, 'method': name, 'what': 'superposition'})
                    if not (np.isfinite(f0).all() and np.max(np.abs(f0)) <= 1e-12):
                        ctx.violation('%s %s maps the zero field to a non-zero field' % (api, name), rec,
                                      {'api': api, 'method': name, 'what': 'zero_to_zero'})
                    # shift-equivariance for convolution-type methods (all but Fraunhofer), no padding
                    if name != 'Fraunhofer' and not zp[0]:
                        s, t = rng.randrange(0, n), rng.randrange(0, m)
                        fr = f(np.roll(u, (s, t), axis=(0, 1)))
                        d = W.maxdiff(fr, np.roll(fu, (s, t), axis=(0, 1))) / scale
                        ctx.case((api, name, n, m, 'shift'), s + t > 0)
                        if not d <= (2e-3 if api == 'torch' else 1e-8):
                            ctx.violation('%s %s is not shift-equivariant (shift %s, defect %.3g, %dx%d)' % (api, name, (s, t), d, n, m),
                                          dict(rec, shift=[s, t]), {'api': api, 'method': name, 'what': 'shift_equivariance'})

    from .genpipelines import check_generated_pipelines; check_generated_pipelines(ctx)   # pipelines regenerated from the source vs implementation

    # ---- propagator.__call__ (forward model object): default binary and non-binary apertures, first and repeated calls on one object
    import odak.learn.wave as LW
    for ptype in ('forward', 'back and forth'):
        for apkind in ('default', 'nonbinary', 'binary_random'):
            n, m = rng.choice([(6, 6), (5, 7), (8, 6)])
            lam, dxp = 0.5, 0.8
            if apkind == 'default':
                ap = None
            elif apkind == 'nonbinary':
                ap = torch.tensor([[rng.uniform(0.2, 1.0) for _ in range(m)] for _ in range(n)])
            else:
                ap = torch.tensor([[1.0 if rng.random() < 0.7 else 0.0 for _ in range(m)] for _ in range(n)])
            prop = LW.propagator(resolution=[n, m], wavelengths=[lam, lam * 1.2], pixel_pitch=dxp, number_of_frames=1,
                                 number_of_depth_layers=2, volume_depth=2.0, image_location_offset=1.0,
                                 propagation_type='Bandlimited Angular Spectrum', propagator_type=ptype,
                                 back_and_forth_distance=3.0, laser_channel_power=None, aperture=ap, aperture_size=None,
                                 method='conventional', device=torch.device('cpu'))
            u, v = W.rand_field(rng, n, m, 'gauss'), W.rand_field(rng, n, m, 'gauss')
            a, b = complex(rng.gauss(0, 1), rng.gauss(0, 1)), complex(rng.gauss(0, 1), rng.gauss(0, 1))
            f = lambda x: prop(torch.from_numpy(x).to(torch.complex64), channel_id=1, depth_id=1).detach().numpy().astype(np.complex128)
            # order matters: the first call builds the kernel, the later ones read the cache
            fw, fu, fv = f(a * u + b * v), f(u), f(v)
            fw2 = f(a * u + b * v)
            f0 = f(np.zeros((n, m), dtype=np.complex128))
            ctx.case(('propagator', ptype, apkind, n, m), True)
            ctx.count('propagator/%s/%s' % (ptype, apkind))
            scale = max(1e-12, float(np.max(np.abs(fu))), float(np.max(np.abs(fv))))
            d = max(W.maxdiff(fw, a * fu + b * fv), W.maxdiff(fw2, a * fu + b * fv)) / scale
            rec = {'ptype': ptype, 'aperture': apkind, 'n': n, 'm': m, 'seed': ctx.seed}
            if not d <= 5e-3:
                ctx.violation('propagator.__call__ (%s, %s aperture) is not linear across calls on one object: defect %.3g' % (ptype, apkind, d),
                              rec, {'api': 'torch', 'method': 'propagator', 'what': 'superposition', 'aperture': apkind})
            if not np.max(np.abs(f0)) <= 1e-12:
                ctx.violation('propagator.__call__ maps the zero field to a non-zero field', rec, {'api': 'torch', 'method': 'propagator', 'what': 'zero_to_zero'})
            s_, t_ = rng.randrange(0, n), rng.randrange(0, m)
            # the propagator pads spatially, so shift-equivariance holds for fields supported away from the border only: not checked here


def replay(ctx, rep):
    r = rep['replay']
    rng = ctx.rng
    n, m = r['n'], r['m']
    u, v = W.rand_field(rng, n, m, 'gauss'), W.rand_field(rng, n, m, 'gauss')
    a, b = complex(*r.get('a', [1, 0])), complex(*r.get('b', [1, 0]))
    if r['api'] == 'torch':
        kern = torch.from_numpy(W.rand_field(rng, n, m, 'gauss')) if r['method'] == 'custom' else None
        f = lambda x: t_call(r['method'], x, r['dx'], r['lam'], r['z'], kern, tuple(r.get('zero_padding', (False, False, False))))
    else:
        f = lambda x: n_call(r['method'], x, r['dx'], r['lam'], r['z'])
    fu, fv, fw = f(u), f(v), f(a * u + b * v)
    d = W.maxdiff(fw, a * fu + b * fv) / max(1e-12, float(np.max(np.abs(fu))))
    print('superposition defect %.3g' % d)
    return d <= 2e-3
