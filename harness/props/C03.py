"""C03 – propagation is linear and shift-equivariant.
Correspondence shared with C01 (full outputs vs the model); monitors: superposition defect, zero -> zero and
roll-equivariance on the implementation for every method of both APIs and for propagator.__call__."""
import math
import numpy as np
import torch
from . import wavelib as W

TRUSTED = ['numpy.fft / torch.fft compute the DFT of OdakModel/Fourier.lean (validated through the pipeline correspondence)']
ASSUMPTIONS = ['shift-equivariance is checked for the convolution-type methods without Fourier-domain padding, as the property says']

T_ALL = ['Angular Spectrum', 'Bandlimited Angular Spectrum', 'Transfer Function Fresnel', 'Impulse Response Fresnel',
         'Seperable Impulse Response Fresnel', 'Incoherent Angular Spectrum', 'Fraunhofer', 'custom']
N_ALL = ['Angular Spectrum', 'Bandlimited Angular Spectrum', 'Transfer Function Fresnel', 'Impulse Response Fresnel', 'Fraunhofer']


def t_call(name, u, dx, lam, z, kernel=None, zp=(False, False, False), ap=1.):
    import odak.learn.wave as LW
    k = 2 * math.pi / lam
    r = LW.propagate_beam(torch.from_numpy(u), k, z, dx, lam, propagation_type=name, kernel=kernel,
                          zero_padding=list(zp), aperture=ap, samples=[2, 2, 2, 2])
    return r.detach().numpy().astype(np.complex128)


def n_call(name, u, dx, lam, z):
    import odak.wave as NW
    return np.asarray(NW.propagate_beam(u, 2 * math.pi / lam, z, dx, lam, name), dtype=np.complex128)


def run(ctx):
    rng = ctx.rng
    ctx.rule = ('pairs of random fields and complex scalars through every method of both APIs (torch: 8 propagation types incl. '
                'custom kernel, with and without spatial pad/crop; NumPy: every type propagate_beam offers that runs here, and Fraunhofer followed by '
                'fraunhofer_equal_size_adjust), plus integer circular shifts (translation inside the window for Rayleigh-Sommerfeld); torch point_wise '
                '(non-negative amplitude weights), the point-wise impulse-response kernel (aperture field), propagator.reconstruct (complex hologram '
                'field, laser powers; frames x depths x channels); non-trivial = non-zero a, b and fields; distinct by (api, method, shape, padding, '
                'seed-derived scalars)')
    # correspondence (same as C01, smaller): the model has no normalisation stage, so any such change breaks it
    cases = []
    for (n, m) in [(3, 4), (5, 5), (6, 7), (8, 8), (2, 5)] + ([(a, b) for a in (4, 7, 9) for b in (3, 6)] if not ctx.quick else []):
        for api in ('torch', 'numpy'):
            for meth in ('as', 'tf', 'bl', 'ir'):
                for _ in range(20):
                    dx, lam, z, zc = W.rand_optics(rng)
                    if (meth == 'ir' and zc == 'zero') or (meth == 'bl' and not W.bl_margin_ok(n, m, dx, lam, z, api)):
                        continue
                    break
                cases.append((api, meth, n, m, dx, lam, z, W.rand_field(rng, n, m, 'gauss')))
    if ctx.drv_ok:
        outs = ctx.model.ask([W.model_line(c[0], c[1], c[7], c[4], c[5], c[6]) for c in cases])
        for c, o in zip(cases, outs):
            api, meth, n, m, dx, lam, z, u = c
            d = W.maxdiff(W.impl(api, meth, u, dx, lam, z), W.dec_field(o, n, m))
            ctx.case(('corr', api, meth, n, m), True)
            if not d <= W.tol(api) * max(1.0, float(np.max(np.abs(u)))) * (10 if meth == 'ir' else 1):
                ctx.alarm('correspondence', 'model and implementation differ by %.3g for %s %s %dx%d z=%g' % (d, api, meth, n, m, z))

    shapes = [(5, 6), (6, 5), (7, 7), (8, 8)] if ctx.quick else [(5, 6), (6, 5), (7, 7), (8, 8), (5, 9), (9, 5), (6, 6), (10, 7)]
    for (n, m) in shapes:
        for api, names in (('torch', T_ALL), ('numpy', N_ALL)):
            for name in names:
                pads = [(False, False, False)]
                if api == 'torch' and name not in ('Fraunhofer',):
                    pads.append((True, False, True))
                for zp in pads:
                    dx, lam, z, zc = W.rand_optics(rng, rng.choice(['near', 'far', 'neg']))
                    u, v = W.rand_field(rng, n, m, 'gauss'), W.rand_field(rng, n, m, rng.choice(['gauss', 'delta', 'real']))
                    a, b = complex(rng.gauss(0, 1), rng.gauss(0, 1)), complex(rng.gauss(0, 1), rng.gauss(0, 1))
                    kern = None
                    if name == 'custom':
                        kn, km = (2 * n, 2 * m) if zp[0] else (n, m)
                        kern = torch.from_numpy(W.rand_field(rng, kn, km, 'gauss'))
                    if api == 'torch':
                        f = lambda x: t_call(name, x, dx, lam, z, kern, zp)
                    else:
                        f = lambda x: n_call(name, x, dx, lam, z)
                    rec = {'api': api, 'method': name, 'n': n, 'm': m, 'dx': dx, 'lam': lam, 'z': z, 'zero_padding': list(zp),
                           'a': [a.real, a.imag], 'b': [b.real, b.imag], 'seed': ctx.seed}
                    try:
                        fu, fv, fw = f(u), f(v), f(a * u + b * v)
                        f0 = f(np.zeros((n, m), dtype=np.complex128))
                    except Exception as e:
                        ctx.violation('%s %s raised %r' % (api, name, e), rec, {'api': api, 'method': name, 'what': 'raises'})
                        continue
                    ctx.case((api, name, n, m, zp), True, rec)
                    ctx.count('%s/%s/%s' % (api, name, 'padcrop' if zp[0] else 'nopad'))
                    scale = max(1e-12, float(np.max(np.abs(fu))), float(np.max(np.abs(fv))))
                    d = W.maxdiff(fw, a * fu + b * fv) / scale
                    if not d <= (2e-3 if api == 'torch' else 1e-8):
                        ctx.violation('%s %s is not linear: |out(au+bv) - a out(u) - b out(v)| / scale = %.3g (%dx%d)' % (api, name, d, n, m),
                                      rec, {'api': api, 'method': name, 'what': 'superposition'})
                    if not (np.isfinite(f0).all() and np.max(np.abs(f0)) <= 1e-12):
                        ctx.violation('%s %s maps the zero field to a non-zero field' % (api, name), rec,
                                      {'api': api, 'method': name, 'what': 'zero_to_zero'})
                    # shift-equivariance for convolution-type methods (all but Fraunhofer), no padding
                    if name != 'Fraunhofer' and not zp[0]:
                        s, t = rng.randrange(0, n), rng.randrange(0, m)
                        fr = f(np.roll(u, (s, t), axis=(0, 1)))
                        d = W.maxdiff(fr, np.roll(fu, (s, t), axis=(0, 1))) / scale
                        ctx.case((api, name, n, m, 'shift'), s + t > 0)
                        if not d <= (2e-3 if api == 'torch' else 1e-8):
                            ctx.violation('%s %s is not shift-equivariant (shift %s, defect %.3g, %dx%d)' % (api, name, (s, t), d, n, m),
                                          dict(rec, shift=[s, t]), {'api': api, 'method': name, 'what': 'shift_equivariance'})

    W.storage_independence(ctx, 'C03')
    W.argument_types(ctx, 'C03')
    buffer_reuse(ctx)
    from .genpipelines import check_generated_pipelines; check_generated_pipelines(ctx)   # pipelines regenerated from the source vs implementation
    from .genpipelinesmore import check_generated_pipelines_more; check_generated_pipelines_more(ctx)   # Generated/PipelinesMore.lean (NumPy fraunhofer_inverse, rayleigh_sommerfeld, equal size adjust)

    # ---- propagator.__call__ (forward model object): default binary and non-binary apertures, first and repeated calls on one object
    import odak.learn.wave as LW
    for ptype in ('forward', 'back and forth'):
        for apkind in ('default', 'nonbinary', 'binary_random'):
            n, m = rng.choice([(6, 6), (5, 7), (8, 6)])
            lam, dxp = 0.5, 0.8
            if apkind == 'default':
                ap = None
            elif apkind == 'nonbinary':
                ap = torch.tensor([[rng.uniform(0.2, 1.0) for _ in range(m)] for _ in range(n)])
            else:
                ap = torch.tensor([[1.0 if rng.random() < 0.7 else 0.0 for _ in range(m)] for _ in range(n)])
            prop = LW.propagator(resolution=[n, m], wavelengths=[lam, lam * 1.2], pixel_pitch=dxp, number_of_frames=1,
                                 number_of_depth_layers=2, volume_depth=2.0, image_location_offset=1.0,
                                 propagation_type='Bandlimited Angular Spectrum', propagator_type=ptype,
                                 back_and_forth_distance=3.0, laser_channel_power=None, aperture=ap, aperture_size=None,
                                 method='conventional', device=torch.device('cpu'))
            u, v = W.rand_field(rng, n, m, 'gauss'), W.rand_field(rng, n, m, 'gauss')
            a, b = complex(rng.gauss(0, 1), rng.gauss(0, 1)), complex(rng.gauss(0, 1), rng.gauss(0, 1))
            f = lambda x: prop(torch.from_numpy(x).to(torch.complex64), channel_id=1, depth_id=1).detach().numpy().astype(np.complex128)
            # order matters: the first call builds the kernel, the later ones read the cache
            fw, fu, fv = f(a * u + b * v), f(u), f(v)
            fw2 = f(a * u + b * v)
            f0 = f(np.zeros((n, m), dtype=np.complex128))
            ctx.case(('propagator', ptype, apkind, n, m), True)
            ctx.count('propagator/%s/%s' % (ptype, apkind))
            scale = max(1e-12, float(np.max(np.abs(fu))), float(np.max(np.abs(fv))))
            d = max(W.maxdiff(fw, a * fu + b * fv), W.maxdiff(fw2, a * fu + b * fv)) / scale
            rec = {'ptype': ptype, 'aperture': apkind, 'n': n, 'm': m, 'seed': ctx.seed}
            if not d <= 5e-3:
                ctx.violation('propagator.__call__ (%s, %s aperture) is not linear across calls on one object: defect %.3g' % (ptype, apkind, d),
                              rec, {'api': 'torch', 'method': 'propagator', 'what': 'superposition', 'aperture': apkind})
            if not np.max(np.abs(f0)) <= 1e-12:
                ctx.violation('propagator.__call__ maps the zero field to a non-zero field', rec, {'api': 'torch', 'method': 'propagator', 'what': 'zero_to_zero'})
            s_, t_ = rng.randrange(0, n), rng.randrange(0, m)
            # the propagator pads spatially, so shift-equivariance holds for fields supported away from the border only: not checked here
    more_numpy_types(ctx)
    point_wise_cases(ctx)
    reconstruct_cases(ctx)


# ======================================================================================================================
#  the remaining NumPy propagation types, fraunhofer_equal_size_adjust, torch point-wise routines, propagator.reconstruct
# ======================================================================================================================

N_MORE = ['Rayleigh-Sommerfeld', 'Fraunhofer Inverse', 'Fraunhofer + equal size adjust', 'Bandextended Angular Spectrum',
          'Adaptive Sampling Angular Spectrum']
# tolerance of the superposition / shift defect relative to the output scale: float64 paths 1e-8 as above;
# Rayleigh-Sommerfeld accumulates its result in a complex64 array (float32 path); the NUFFT types run at eps = 1e-12
N_TOL = {'Rayleigh-Sommerfeld': 5e-5, 'Bandextended Angular Spectrum': 1e-7, 'Adaptive Sampling Angular Spectrum': 1e-7}


def n_more_call(name, u, dx, lam, z):
    import odak.wave as NW
    if name == 'Fraunhofer + equal size adjust':
        return np.asarray(NW.fraunhofer_equal_size_adjust(NW.propagate_beam(u, 2 * math.pi / lam, z, dx, lam, 'Fraunhofer'), z, dx, lam), dtype=np.complex128)
    return np.asarray(NW.propagate_beam(u, 2 * math.pi / lam, z, dx, lam, name), dtype=np.complex128)


def superposition_defect(f, u, v, a, b):
    fu, fv, fw = f(u), f(v), f(a * u + b * v)
    scale = max(1e-12, float(np.max(np.abs(fu))), float(np.max(np.abs(fv))))
    return W.maxdiff(fw, a * fu + b * fv) / scale, fu, scale


def more_numpy_types(ctx):
    rng = ctx.rng
    shapes = [(5, 5), (6, 6), (8, 8), (6, 8), (7, 5)] if ctx.quick else [(5, 5), (6, 6), (8, 8), (6, 8), (7, 5), (9, 9), (10, 6), (12, 12)]
    unavailable = set()
    for (n, m) in shapes:
        for name in N_MORE:
            if name in unavailable:
                continue
            for zc in (('near', 'neg') if ctx.quick else ('near', 'far', 'neg', 'negfar')):
                dx, lam, z, _ = W.rand_optics(rng, zc)
                if name == 'Fraunhofer + equal size adjust':
                    z = rng.uniform(1.2, 2.4) * max(n, m) * dx * dx / lam      # the adjusted window (l1 / l2 of the side, >= 2 samples) fits into the field
                u, v = W.rand_field(rng, n, m, 'gauss'), W.rand_field(rng, n, m, rng.choice(['gauss', 'delta', 'real']))
                a, b = complex(rng.gauss(0, 1), rng.gauss(0, 1)), complex(rng.gauss(0, 1), rng.gauss(0, 1))
                f = lambda x: n_more_call(name, x, dx, lam, z)
                rec = {'api': 'numpy', 'method': name, 'n': n, 'm': m, 'dx': dx, 'lam': lam, 'z': z, 'a': [a.real, a.imag], 'b': [b.real, b.imag],
                       'u': W.enc_field(u), 'v': W.enc_field(v)}
                try:
                    d, fu, scale = superposition_defect(f, u, v, a, b)
                    f0 = f(np.zeros((n, m), dtype=np.complex128))
                except Exception as e:
                    if name in ('Bandextended Angular Spectrum', 'Adaptive Sampling Angular Spectrum') and isinstance(e, (UnboundLocalError, ImportError, NameError)):
                        unavailable.add(name)
                        ctx.note('NumPy %r needs the finufft package, which is not installed here: not exercised (%r)' % (name, e))
                        ctx.count('numpy/%s/unavailable (finufft missing)' % name)
                        break
                    if name == 'Rayleigh-Sommerfeld' and n != m:
                        ctx.count('numpy/Rayleigh-Sommerfeld/rejected: non-square field (%s)' % type(e).__name__)
                        break
                    ctx.violation('numpy %s raised %r' % (name, e), rec, {'api': 'numpy', 'method': name, 'what': 'raises'})
                    continue
                ctx.case(('numpy', name, n, m, zc), True, rec if len(ctx.samples) < 6 else None)
                ctx.count('numpy/%s/%s' % (name, 'square' if n == m else 'non-square'))
                tol = N_TOL.get(name, 1e-8)
                if not (np.isfinite(fu).all() and d <= tol):
                    ctx.violation('numpy %s is not linear: |out(au+bv) - a out(u) - b out(v)| / scale = %.3g (%dx%d, z = %g)' % (name, d, n, m, z),
                                  rec, {'api': 'numpy', 'method': name, 'what': 'superposition'})
                if not (np.isfinite(f0).all() and np.max(np.abs(f0)) <= 1e-12):
                    ctx.violation('numpy %s maps the zero field to a non-zero field' % name, rec, {'api': 'numpy', 'method': name, 'what': 'zero_to_zero'})
                if name in ('Bandextended Angular Spectrum', 'Adaptive Sampling Angular Spectrum'):
                    # convolution-type (a transfer function applied between a forward and an inverse transform): circular whole-pixel shifts
                    s, t = rng.randrange(0, n), rng.randrange(0, m)
                    d2 = W.maxdiff(f(np.roll(u, (s, t), axis=(0, 1))), np.roll(fu, (s, t), axis=(0, 1))) / scale
                    ctx.case(('numpy', name, n, m, 'shift'), s + t > 0)
                    if not d2 <= tol:
                        ctx.violation('numpy %s is not shift-equivariant (shift %s, defect %.3g, %dx%d)' % (name, (s, t), d2, n, m),
                                      dict(rec, shift=[s, t]), {'api': 'numpy', 'method': name, 'what': 'shift_equivariance'})
                if name == 'Rayleigh-Sommerfeld':
                    # a direct superposition integral over the window (no wrap-around): translating a field that stays inside the window
                    # translates the output where both windows overlap
                    s, t = rng.randrange(0, max(1, n // 2)), rng.randrange(0, max(1, m // 2))
                    w0 = np.zeros((n, m), dtype=np.complex128)
                    w0[:n - s, :m - t] = u[:n - s, :m - t]
                    w1 = np.zeros((n, m), dtype=np.complex128)
                    w1[s:, t:] = w0[:n - s, :m - t]
                    o0, o1 = f(w0), f(w1)
                    d2 = W.maxdiff(o1[s:, t:], o0[:n - s, :m - t]) / max(1e-12, float(np.max(np.abs(o0))))
                    ctx.case(('numpy', name, n, m, 'shift'), s + t > 0)
                    if not d2 <= tol:
                        ctx.violation('numpy Rayleigh-Sommerfeld is not translation-equivariant on the overlap of the windows (shift %s, defect %.3g, %dx%d)'
                                      % ((s, t), d2, n, m), dict(rec, shift=[s, t]), {'api': 'numpy', 'method': name, 'what': 'shift_equivariance'})


def point_wise_cases(ctx):
    """point_wise: the hologram is the superposition of the sub-holograms of the target's points, i.e. linear in the point amplitudes
    sqrt(target) (non-negative weights: the target is an intensity).  get_point_wise_impulse_response_fresnel_kernel: complex-linear in the
    aperture field for fixed aperture / target points."""
    import odak.learn.wave as LW
    rng = ctx.rng
    dev = torch.device('cpu')
    for (n, m) in ([(6, 6), (5, 8), (9, 7)] if ctx.quick else [(6, 6), (5, 8), (9, 7), (12, 12), (8, 5)]):
        for lens in (401, 3):
            dx, lam, z, _ = W.rand_optics(rng, rng.choice(['near', 'far', 'neg']))
            A = np.array([[rng.uniform(0, 1) for _ in range(m)] for _ in range(n)]); B = np.array([[rng.uniform(0, 1) if rng.random() < 0.5 else 0.0 for _ in range(m)] for _ in range(n)])
            a, b = rng.uniform(0.1, 0.6), rng.uniform(0.1, 0.4)
            f = lambda amp: LW.point_wise(torch.tensor(amp ** 2, dtype=torch.float64), lam, z, dx, dev, lens_size=lens).detach().numpy().astype(np.complex128)
            rec = {'api': 'torch', 'method': 'point_wise', 'n': n, 'm': m, 'dx': dx, 'lam': lam, 'z': z, 'lens_size': lens, 'a': a, 'b': b,
                   'A': A.tolist(), 'B': B.tolist()}
            try:
                d, fu, scale = superposition_defect(f, A, B, a, b)
                f0 = f(np.zeros((n, m)))
            except Exception as e:
                ctx.violation('torch point_wise raised %r' % e, rec, {'api': 'torch', 'method': 'point_wise', 'what': 'raises'})
                continue
            ctx.case(('point_wise', n, m, lens), True, None)
            ctx.count('torch/point_wise/lens_size=%d' % lens)
            if fu.shape != (n, m) or not np.isfinite(fu).all() or not d <= 2e-3:
                ctx.violation('torch point_wise is not linear in the point amplitudes sqrt(target): defect %.3g, output %s for a %dx%d target'
                              % (d, fu.shape, n, m), rec, {'api': 'torch', 'method': 'point_wise', 'what': 'superposition'})
            if not np.max(np.abs(f0)) <= 1e-12:
                ctx.violation('torch point_wise maps the zero target to a non-zero hologram', rec, {'api': 'torch', 'method': 'point_wise', 'what': 'zero_to_zero'})
    for (rx, ry, ma) in ([(4, 5, 6), (3, 3, 1), (6, 4, 9)] if ctx.quick else [(4, 5, 6), (3, 3, 1), (6, 4, 9), (8, 8, 12), (5, 7, 3)]):
        for factor in (1, 2):
            lam, dist, pitch = 0.5, rng.choice([-1, 1]) * rng.uniform(2.0, 8.0), 0.8
            npts = rx * ry * factor * factor
            ap = torch.tensor([[rng.uniform(-1, 1) * pitch, rng.uniform(-1, 1) * pitch, 0.0] for _ in range(ma)], dtype=torch.float64)
            tp = torch.tensor([[(i - rx * factor / 2) * pitch / factor, (j - ry * factor / 2) * pitch / factor, dist] for i in range(rx * factor) for j in range(ry * factor)],
                              dtype=torch.float64)
            F = lambda: np.array([[complex(rng.gauss(0, 1), rng.gauss(0, 1)) for _ in range(ma)]])
            u, v = F(), F()
            a, b = complex(rng.gauss(0, 1), rng.gauss(0, 1)), complex(rng.gauss(0, 1), rng.gauss(0, 1))
            f = lambda fld: LW.get_point_wise_impulse_response_fresnel_kernel(aperture_points=ap, aperture_field=torch.tensor(fld, dtype=torch.complex128),
                                                                               target_points=tp, resolution=[rx, ry], resolution_factor=factor, wavelength=lam,
                                                                               distance=dist, randomization=False).detach().numpy().astype(np.complex128)
            rec = {'api': 'torch', 'method': 'point_wise_kernel', 'resolution': [rx, ry], 'resolution_factor': factor, 'aperture_points': ma, 'distance': dist,
                   'a': [a.real, a.imag], 'b': [b.real, b.imag]}
            try:
                d, fu, scale = superposition_defect(f, u, v, a, b)
                f0 = f(np.zeros((1, ma), dtype=np.complex128))
            except Exception as e:
                ctx.violation('get_point_wise_impulse_response_fresnel_kernel raised %r' % e, rec, {'api': 'torch', 'method': 'point_wise_kernel', 'what': 'raises'})
                continue
            ctx.case(('point_wise_kernel', rx, ry, ma, factor), True, None)
            ctx.count('torch/point_wise_kernel/%d aperture points' % ma)
            if fu.shape != (rx * factor, ry * factor) or not np.isfinite(fu).all() or not d <= 1e-9:
                ctx.violation('get_point_wise_impulse_response_fresnel_kernel is not linear in the aperture field: defect %.3g, output %s' % (d, fu.shape), rec,
                              {'api': 'torch', 'method': 'point_wise_kernel', 'what': 'superposition'})
            if not np.max(np.abs(f0)) <= 1e-12:
                ctx.violation('get_point_wise_impulse_response_fresnel_kernel maps the zero aperture field to a non-zero response', rec,
                              {'api': 'torch', 'method': 'point_wise_kernel', 'what': 'zero_to_zero'})


def reconstruct_cases(ctx):
    """propagator.reconstruct(get_complex=True): frame f, depth d, channel c holds laser_power[f][c] * P_{d,c}(amplitude * exp(i phase)) - complex-linear
    in the hologram field amplitude * exp(i phase), linear in the laser powers; the intensities are its squared moduli; the kernels it used
    (get_kernels) do not depend on the fields that went through"""
    import odak.learn.wave as LW
    rng = ctx.rng
    for ptype in ('forward', 'back and forth'):
        for method in ('conventional', 'multi-color'):
            for (n, m) in ([(6, 6), (5, 7)] if ctx.quick else [(6, 6), (5, 7), (8, 6), (9, 9)]):
                Fr, Ch, Dp = rng.choice([(1, 1, 1), (2, 2, 2), (2, 3, 1), (3, 3, 2)])
                wl = [0.5, 0.6, 0.45][:Ch]
                lp = torch.tensor([[rng.uniform(0.2, 1.0) for _ in range(Ch)] for _ in range(Fr)])

                def make():
                    pr = LW.propagator(resolution=[n, m], wavelengths=wl, pixel_pitch=0.8, number_of_frames=Fr, number_of_depth_layers=Dp, volume_depth=2.0,
                                       image_location_offset=1.0, propagation_type=rng.choice(['Bandlimited Angular Spectrum', 'Angular Spectrum', 'Transfer Function Fresnel']),
                                       propagator_type=ptype, back_and_forth_distance=3.0, method=method, device=torch.device('cpu'))
                    return pr
                prop = make()
                prop.set_laser_powers(lp.clone())
                power = prop.get_laser_powers().detach().numpy().astype(np.float64)

                def f(w, pr=prop):
                    amp = torch.tensor(np.abs(w), dtype=torch.float32).unsqueeze(0).repeat(Ch, 1, 1)
                    ph = torch.tensor(np.angle(w), dtype=torch.float32).unsqueeze(0).repeat(Fr, 1, 1)
                    return pr.reconstruct(ph, amplitude=amp, get_complex=True).detach().numpy().astype(np.complex128)
                u, v = W.rand_field(rng, n, m, 'gauss'), W.rand_field(rng, n, m, 'gauss')
                a, b = complex(rng.gauss(0, 1), rng.gauss(0, 1)), complex(rng.gauss(0, 1), rng.gauss(0, 1))
                rec = {'api': 'torch', 'method': 'propagator.reconstruct', 'ptype': ptype, 'hologram_type': method, 'n': n, 'm': m, 'frames': Fr, 'channels': Ch, 'depths': Dp,
                       'propagation_type': prop.propagation_type}
                try:
                    fw = f(a * u + b * v)                       # first pass builds the kernels, the later ones read the cache
                    d, fu, scale = superposition_defect(f, u, v, a, b)
                    d = max(d, W.maxdiff(fw, f(a * u + b * v)) / scale)
                    f0 = f(np.zeros((n, m), dtype=np.complex128))
                    amp = torch.tensor(np.abs(u), dtype=torch.float32).unsqueeze(0).repeat(Ch, 1, 1)
                    ph = torch.tensor(np.angle(u), dtype=torch.float32).unsqueeze(0).repeat(Fr, 1, 1)
                    inten = prop.reconstruct(ph, amplitude=amp).detach().numpy().astype(np.float64)
                    ka, kp = [x.detach().numpy() for x in prop.get_kernels()]
                except Exception as e:
                    ctx.violation('propagator.reconstruct raised %r' % e, rec, {'api': 'torch', 'method': 'propagator.reconstruct', 'what': 'raises'})
                    continue
                ctx.case(('reconstruct', ptype, method, n, m, Fr, Ch, Dp), True, rec if len(ctx.samples) < 6 else None)
                ctx.count('propagator.reconstruct/%s/%s/%dx%dx%d' % (ptype, method, Fr, Dp, Ch))
                if fu.shape != (Fr, Dp, Ch, n, m) or not np.isfinite(fu).all() or not d <= 5e-3:
                    ctx.violation('propagator.reconstruct(get_complex=True) is not linear in the hologram field amplitude * exp(i phase): defect %.3g (%s, %s, output %s)'
                                  % (d, ptype, method, fu.shape), rec, {'api': 'torch', 'method': 'propagator.reconstruct', 'what': 'superposition'})
                    continue
                if not np.max(np.abs(f0)) <= 1e-12:
                    ctx.violation('propagator.reconstruct maps the zero field to a non-zero field', rec, {'api': 'torch', 'method': 'propagator.reconstruct', 'what': 'zero_to_zero'})
                if W.maxdiff(inten, np.abs(fu) ** 2) > 5e-4 * max(1.0, float(np.max(np.abs(fu) ** 2))):
                    ctx.violation('propagator.reconstruct: the intensities differ from the squared moduli of the complex reconstruction by %.3g'
                                  % W.maxdiff(inten, np.abs(fu) ** 2), rec, {'api': 'torch', 'method': 'propagator.reconstruct', 'what': 'intensity_vs_complex'})
                # linear in the laser powers: frame f, channel c equals power[f][c] times the unit-power reconstruction of channel c
                unit = LW.propagator(resolution=[n, m], wavelengths=wl, pixel_pitch=0.8, number_of_frames=Fr, number_of_depth_layers=Dp, volume_depth=2.0, image_location_offset=1.0,
                                     propagation_type=prop.propagation_type, propagator_type=ptype, back_and_forth_distance=3.0, method='conventional',
                                     laser_channel_power=torch.ones(Fr, Ch), device=torch.device('cpu'))
                fone = f(u, unit)
                kb, _ = [x.detach().numpy() for x in unit.get_kernels()]
                dp = max(W.maxdiff(fu[fr, :, c], power[fr, c] * fone[fr, :, c]) for fr in range(Fr) for c in range(Ch)) / scale
                if not dp <= 5e-3:
                    ctx.violation('propagator.reconstruct is not proportional to the laser powers (defect %.3g)' % dp, rec,
                                  {'api': 'torch', 'method': 'propagator.reconstruct', 'what': 'laser_power'})
                if ka.shape != kb.shape or not np.allclose(ka, kb, atol=1e-5 * max(1.0, float(np.max(np.abs(kb))))):
                    ctx.violation('propagator.get_kernels: kernels of two propagators with the same settings differ after different fields went through '
                                  '(the kernel depends on the input)', rec, {'api': 'torch', 'method': 'propagator.get_kernels', 'what': 'input_independent_kernel'})


def replay(ctx, rep):
    r = rep['replay']
    rng = ctx.rng
    if r.get('method') in N_MORE:
        u, v = W.dec_field(r['u'], r['n'], r['m']), W.dec_field(r['v'], r['n'], r['m'])
        d, _, _ = superposition_defect(lambda x: n_more_call(r['method'], x, r['dx'], r['lam'], r['z']), u, v, complex(*r['a']), complex(*r['b']))
        print('superposition defect %.3g' % d)
        return d <= N_TOL.get(r['method'], 1e-8)
    if 'n' not in r or r.get('method') in ('point_wise', 'point_wise_kernel', 'propagator.reconstruct'):
        print('re-observation: run ./check C03 (method %s)' % r.get('method'))
        return True
    n, m = r['n'], r['m']
    u, v = W.rand_field(rng, n, m, 'gauss'), W.rand_field(rng, n, m, 'gauss')
    a, b = complex(*r.get('a', [1, 0])), complex(*r.get('b', [1, 0]))
    if r['api'] == 'torch':
        kern = torch.from_numpy(W.rand_field(rng, n, m, 'gauss')) if r['method'] == 'custom' else None
        f = lambda x: t_call(r['method'], x, r['dx'], r['lam'], r['z'], kern, tuple(r.get('zero_padding', (False, False, False))))
    else:
        f = lambda x: n_call(r['method'], x, r['dx'], r['lam'], r['z'])
    fu, fv, fw = f(u), f(v), f(a * u + b * v)
    d = W.maxdiff(fw, a * fu + b * fv) / max(1e-12, float(np.max(np.abs(fu))))
    print('superposition defect %.3g' % d)
    return d <= 2e-3


def buffer_reuse(ctx):
    """ONE field tensor serves several calls and is updated IN PLACE between them (a preallocated frame buffer: buf.mul_(a), buf.add_(b v), buf.zero_(),
    buf.copy_(roll(u))): every call must propagate what the buffer holds NOW.  out(a u + b v) = a out(u) + b out(v) and zero -> zero and the shift law are
    statements about values, not about tensor objects."""
    import odak.learn.wave as LW
    rng = ctx.rng
    k = 2 * math.pi / 0.5
    for name in ('Angular Spectrum', 'Bandlimited Angular Spectrum', 'Transfer Function Fresnel', 'Impulse Response Fresnel', 'custom'):
        for (n, m) in ((6, 6), (5, 7)):
            u = torch.from_numpy(W.rand_field(rng, n, m, 'gauss')).to(torch.complex64)
            v = torch.from_numpy(W.rand_field(rng, n, m, 'gauss')).to(torch.complex64)
            a, b = complex(rng.uniform(-1, 1), rng.uniform(-1, 1)), complex(rng.uniform(-1, 1), rng.uniform(-1, 1))
            kern = torch.exp(1j * torch.rand(n, m) * 6.28).to(torch.complex64) if name == 'custom' else None
            f = lambda t: LW.propagate_beam(t, k, 1.3, 0.8, 0.5, propagation_type=name, kernel=kern, zero_padding=[False, False, False], samples=[2, 2, 2, 2])
            ctx.case(('buffer_reuse', name, n, m), True)
            ctx.count('buffer_updated_in_place/' + name)
            try:
                ou, ov = f(u.clone()), f(v.clone())
                buf = u.clone()
                o1 = f(buf)
                buf.mul_(a)
                o2 = f(buf)
                buf.add_(b * v)
                o3 = f(buf)
                buf.zero_()
                o4 = f(buf)
                buf.copy_(torch.roll(u, shifts=(1, 2), dims=(-2, -1)))
                o5 = f(buf)
            except Exception as e:
                ctx.note('buffer reuse: %s raised %r' % (name, e))
                continue
            sc = max(1.0, float(ou.abs().max()), float(ov.abs().max()))
            fails = []
            if float((o1 - ou).abs().max()) > 1e-4 * sc:
                fails.append('first call differs from a fresh tensor')
            if float((o2 - a * ou).abs().max()) > 1e-3 * sc:
                fails.append('after buf *= a the output is not a out(u) (defect %.3g)' % float((o2 - a * ou).abs().max()))
            if float((o3 - (a * ou + b * ov)).abs().max()) > 2e-3 * sc:
                fails.append('after buf += b v the output is not a out(u) + b out(v) (defect %.3g)' % float((o3 - (a * ou + b * ov)).abs().max()))
            if float(o4.abs().max()) > 1e-6 * sc:
                fails.append('after buf.zero_() the output is not zero (max %.3g)' % float(o4.abs().max()))
            if name != 'custom' and float((o5 - torch.roll(ou, shifts=(1, 2), dims=(-2, -1))).abs().max()) > 2e-3 * sc:
                fails.append('after buf.copy_(roll(u)) the output is not roll(out(u))')
            if fails:
                ctx.violation('torch %s with ONE field tensor updated in place between calls: %s' % (name, '; '.join(fails)),
                              {'method': name, 'n': n, 'm': m, 'what': 'buffer_reuse'}, {'api': 'torch', 'method': name, 'what': 'buffer_updated_in_place'})
