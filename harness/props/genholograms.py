"""Executable tie of lean/OdakModel/Generated/Holograms.lean (the output of harness/translate/holograms.py): the regenerated BODIES of
torch `gerchberg_saxton`, NumPy `gerchberg_saxton` and torch `shift_w_double_phase` are evaluated at Float by the driver
(lean/OdakModel/Exec/OpsGenHolo.lean), with the model's own propagation as the primitive `prop`, and compared with what the real
functions of /repo return:

  * torch / NumPy Gerchberg-Saxton: hologram AND reconstruction, 1-3 iterations, distances of either sign, two propagation types,
    even / odd / non-square sides (NumPy: even sides only - finding F30), the random start phase of the NumPy routine replayed through
    NumPy's seeded RNG;
  * `shift_w_double_phase`: the returned phase-only hologram, with and without the blur, depth shifts of either sign, even / odd sides.
    Phases are compared modulo 2 pi per pixel (a sample on the branch cut of `atan2` may come out as +pi in float32 and -pi in
    float64) and modulo the common constant that such a flip adds to the subtracted mean.

A disagreement is a broken correspondence (translator or model), reported as an alarm, never as a violation."""
import logging
import math
import warnings
import numpy as np
import torch
from ..lib.core import f2b, b2f
from . import wavelib as W

logging.disable(logging.WARNING)
warnings.filterwarnings('ignore')


def fl(xs):
    return ' '.join(str(f2b(float(x))) for x in np.asarray(xs, dtype=np.float64).reshape(-1))


def field_of(toks, n, m):
    a = np.array([b2f(t) for t in toks], dtype=np.float64).reshape(n, m, 2)
    return a[..., 0] + 1j * a[..., 1]


def check_generated_holograms(ctx):
    import odak.learn.wave as LW
    import odak.wave as NW
    rng = ctx.rng
    lam, dx = 0.5, 0.8
    checked = set()

    def alarm(tag, text, rec):
        ctx.alarm('correspondence', 'generated %s: %s (%s)' % (tag, text, rec))

    # ---------------------------------------------------------------- torch gerchberg_saxton
    shapes = [(6, 6), (5, 6), (6, 5), (7, 7)] if ctx.quick else [(6, 6), (5, 6), (6, 5), (7, 7), (8, 6), (9, 8)]
    for (h, w) in shapes:
        for n_it in (1, 2, 3):
            z = rng.choice([1, -1]) * rng.uniform(0.5, 4)
            name, mi = rng.choice([('Transfer Function Fresnel', 1), ('Angular Spectrum', 0)])
            amp = np.array([[rng.uniform(0.4, 1.0) for _ in range(w)] for _ in range(h)])
            ph = np.array([[rng.uniform(-3, 3) for _ in range(w)] for _ in range(h)])
            field = amp * np.exp(1j * ph)
            rec = {'routine': 'torch gerchberg_saxton', 'h': h, 'w': w, 'iterations': n_it, 'distance': z, 'method': name}
            ctx.case(('gen', 'gs_torch', h, w, n_it, round(z, 6), name), True)
            ctx.count('generated/gerchberg_saxton torch')
            checked.add('gerchberg_saxton torch')
            holo, recon = LW.gerchberg_saxton(torch.tensor(field, dtype=torch.complex128), n_it, z, dx, lam, propagation_type=name)
            hn, rn = holo.numpy().astype(np.complex128), recon.numpy().astype(np.complex128)
            if not ctx.drv_ok:
                continue
            out = ctx.model.ask(['gh_gs_torch %d %d %d %d %d %d %d %s' % (mi, h, w, f2b(dx), f2b(lam), f2b(z), n_it, W.enc_field(field))])[0].split()
            if len(out) != 4 * h * w:
                alarm('torch gerchberg_saxton', 'driver answered %r' % ' '.join(out)[:80], rec)
                continue
            mh, mr = field_of(out[:2 * h * w], h, w), field_of(out[2 * h * w:], h, w)
            scale = max(1.0, float(np.max(np.abs(hn))), float(np.max(np.abs(rn))))
            tol = 2e-3 * scale * n_it
            if W.maxdiff(hn, mh) > tol or W.maxdiff(rn, mr) > tol:
                alarm('torch gerchberg_saxton', 'hologram differs by %.3g, reconstruction by %.3g' % (W.maxdiff(hn, mh), W.maxdiff(rn, mr)), rec)
    # ---------------------------------------------------------------- NumPy gerchberg_saxton (even sides)
    for (h, w) in ([(4, 4), (4, 6), (6, 4)] if ctx.quick else [(4, 4), (4, 6), (6, 4), (8, 6), (6, 8)]):
        for n_it in (1, 2, 3):
            z = rng.choice([1, -1]) * rng.uniform(0.5, 4)
            name, mi = rng.choice([('Transfer Function Fresnel', 1), ('Angular Spectrum', 0), ('IR Fresnel', 2)])
            amp = np.array([[rng.uniform(0.4, 1.0) for _ in range(w)] for _ in range(h)])
            field = amp * np.exp(1j * np.array([[rng.uniform(-3, 3) for _ in range(w)] for _ in range(h)]))
            seed = rng.randrange(10 ** 6)
            np.random.seed(seed)
            rp = np.pi * np.random.random((2 * h, 2 * w))
            rec = {'routine': 'numpy gerchberg_saxton', 'h': h, 'w': w, 'iterations': n_it, 'distance': z, 'method': name, 'np_seed': seed}
            ctx.case(('gen', 'gs_numpy', h, w, n_it, round(z, 6), name), True)
            ctx.count('generated/gerchberg_saxton numpy')
            checked.add('gerchberg_saxton numpy')
            np.random.seed(seed)
            try:
                holo, recon = NW.gerchberg_saxton(field.copy(), n_it, z, dx, lam, propagation_type=name)
            except Exception as e:
                alarm('numpy gerchberg_saxton', 'the routine raised %r' % e, rec)
                continue
            hn, rn = np.asarray(holo, dtype=np.complex128), np.asarray(recon, dtype=np.complex128)
            if not ctx.drv_ok:
                continue
            out = ctx.model.ask(['gh_gs_numpy %d %d %d %d %d %d %d %s %s' % (mi, h, w, f2b(dx), f2b(lam), f2b(z), n_it, W.enc_field(field), fl(rp))])[0].split()
            try:
                R, C = int(out[0]), int(out[1])
                mh, mr = field_of(out[2:2 + 2 * R * C], R, C), field_of(out[2 + 2 * R * C:], R, C)
            except (ValueError, IndexError):
                alarm('numpy gerchberg_saxton', 'driver answered %r' % ' '.join(out)[:80], rec)
                continue
            if hn.shape != (R, C) or rn.shape != (R, C):
                alarm('numpy gerchberg_saxton', 'returns shapes %s, %s; the regenerated definition %d x %d' % (hn.shape, rn.shape, R, C), rec)
                continue
            scale = max(1.0, float(np.max(np.abs(rn))))
            tol = 1e-6 * scale * n_it
            if W.maxdiff(hn, mh) > tol or W.maxdiff(rn, mr) > tol:
                alarm('numpy gerchberg_saxton', 'hologram differs by %.3g, reconstruction by %.3g' % (W.maxdiff(hn, mh), W.maxdiff(rn, mr)), rec)
    # ---------------------------------------------------------------- NumPy gerchberg_saxton_3d (even sides, 'no constraint')
    for (h, w, planes) in ([(4, 4, 2), (4, 6, 3)] if ctx.quick else [(4, 4, 2), (4, 6, 3), (6, 4, 1), (6, 6, 2)]):
        for n_it in (1, 2):
            name, mi = rng.choice([('Transfer Function Fresnel', 1), ('Angular Spectrum', 0), ('IR Fresnel', 2)])
            dists = [rng.choice([1, -1]) * rng.uniform(0.5, 4) for _ in range(planes)]
            fields = [np.array([[rng.uniform(0.4, 1.0) for _ in range(w)] for _ in range(h)]) *
                      np.exp(1j * np.array([[rng.uniform(-3, 3) for _ in range(w)] for _ in range(h)])) for _ in range(planes)]
            seed = rng.randrange(10 ** 6)
            np.random.seed(seed)
            rp = np.pi * np.random.random((2 * h, 2 * w))
            rec = {'routine': 'numpy gerchberg_saxton_3d', 'h': h, 'w': w, 'planes': planes, 'iterations': n_it, 'distances': dists, 'method': name,
                   'np_seed': seed}
            ctx.case(('gen', 'gs3d', h, w, planes, n_it, name), True)
            ctx.count('generated/gerchberg_saxton_3d numpy')
            checked.add('gerchberg_saxton_3d numpy')
            np.random.seed(seed)
            try:
                holo = NW.gerchberg_saxton_3d([f.copy() for f in fields], n_it, list(dists), dx, lam, propagation_type=name)
            except Exception as e:
                alarm('numpy gerchberg_saxton_3d', 'the routine raised %r' % e, rec)
                continue
            hn = np.asarray(holo, dtype=np.complex128)
            if not ctx.drv_ok:
                continue
            out = ctx.model.ask(['gh_gs3d %d %d %d %d %d %d %d %s %s %s' % (mi, planes, h, w, f2b(dx), f2b(lam), n_it, fl(dists),
                                 ' '.join(W.enc_field(f) for f in fields), fl(rp))])[0].split()
            try:
                R, C = int(out[0]), int(out[1])
                mh = field_of(out[2:], R, C)
            except (ValueError, IndexError):
                alarm('numpy gerchberg_saxton_3d', 'driver answered %r' % ' '.join(out)[:80], rec)
                continue
            # the plane holograms are accumulated in a complex64 array by the source: single-precision tolerance
            if hn.shape != (R, C) or W.maxdiff(hn, mh) > 5e-6 * planes * n_it:
                alarm('numpy gerchberg_saxton_3d', 'shape %s vs %d x %d, hologram differs by %.3g' % (hn.shape, R, C, W.maxdiff(hn, mh) if hn.shape == (R, C) else -1), rec)
    # ---------------------------------------------------------------- shift_w_double_phase
    for (h, w) in ([(6, 6), (5, 6), (7, 8)] if ctx.quick else [(6, 6), (5, 6), (7, 8), (7, 5), (8, 8), (9, 6)]):      # sides >= 5: a last axis < 5 is read as channels
        for blur in (1, 0):
            d = rng.choice([1, -1]) * rng.uniform(0.5, 3)
            name, mi = rng.choice([('Transfer Function Fresnel', 1), ('Angular Spectrum', 0)])
            L, sigma = (rng.choice([3, 4]), rng.uniform(0.4, 0.9)) if blur else (rng.choice([0, 4]), 0.0)
            phase = np.array([[rng.uniform(0, 6.28) for _ in range(w)] for _ in range(h)]).astype(np.float32).astype(np.float64)
            rec = {'routine': 'shift_w_double_phase', 'h': h, 'w': w, 'depth_shift': d, 'method': name, 'kernel_length': L, 'sigma': sigma}
            ctx.case(('gen', 'shift', h, w, blur, round(d, 6), name), True)
            ctx.count('generated/shift_w_double_phase %s' % ('with blur' if blur else 'without blur'))
            checked.add('shift_w_double_phase')
            out = LW.shift_w_double_phase(torch.tensor(phase, dtype=torch.float32), d, dx, lam, propagation_type=name, kernel_length=L, sigma=sigma)
            on = out.detach().numpy().astype(np.float64)
            if not ctx.drv_ok:
                continue
            mo = ctx.model.ask(['gh_shift %d %d %d %d %d %d %d %d %d %s' % (blur, mi, h, w, f2b(dx), f2b(lam), f2b(d), L, f2b(sigma), fl(phase))])[0].split()
            try:
                mn = np.array([b2f(t) for t in mo], dtype=np.float64).reshape(h, w)
            except ValueError:
                alarm('shift_w_double_phase', 'driver answered %r' % ' '.join(mo)[:80], rec)
                continue
            if on.shape != (h, w) or not (np.isfinite(on).all() and np.isfinite(mn).all()):
                alarm('shift_w_double_phase', 'shape %s / non-finite values' % (on.shape,), rec)
                continue
            diff = on - mn
            c = float(np.median(diff))                           # the common constant: 2 pi k / (h w) from k branch-cut flips
            k = c * h * w / (2 * math.pi)
            wrapped = (diff - c + math.pi) % (2 * math.pi) - math.pi
            if abs(k - round(k)) > 0.05 or float(np.max(np.abs(wrapped))) > 2e-2:
                alarm('shift_w_double_phase', 'phases differ by up to %.3g (common constant %.3g = %.3f x 2 pi / (h w))'
                      % (float(np.max(np.abs(wrapped))), c, k), rec)
    ctx.extra.setdefault('generated_hologram_definitions_checked', sorted(checked))
