"""Executable tie of the REGENERATED pipelines (OdakModel/Generated/Pipelines.lean, written by harness/translate/pipelines.py from the
current source) to the implementation: the generated definitions are evaluated at Float by the model driver (ops gp_* of
OdakModel/Exec/OpsGenPipe.lean) and compared with

* torch `custom(field, kernel, zero_padding, aperture)` on 2-D fields of every parity, square and non-square, with random complex
  kernels and non-binary apertures, with and without Fourier-domain padding (`gp_custom`, `gp_custom_pad`);
* torch `custom` on STACKS `[k x n x m]`, k = 2, 3 (and 4, 5 in the thorough tier): `fftshift` / `ifftshift` are called without
  `dim`, so the batch axis is rolled as well (`gp_custom_stack` = `Gen.customStackT`);
* torch `propagate_beam` for every `zero_padding` combination and every modelled propagation type incl. 'custom', 'Fraunhofer',
  'Incoherent Angular Spectrum', a type string that matches no branch, with an apodised aperture (`gp_beam`);
* `get_propagation_kernel` (dispatch + the FFT part of the impulse-response and incoherent kernels) (`gp_kernel`);
* NumPy `propagate_beam`, five methods (`gp_np`);
* `propagator.__call__` call sequences: outputs and cache flags (`gp_prop_seq` = `Gen.propagatorCallT` iterated) and the call order
  of `propagator.reconstruct` (`gp_reconstruct` = `Gen.reconstructCallsT`).

A disagreement means the translator mis-read the source (or the source does something the model's primitives do not):
`ctx.alarm('correspondence', …)`."""
import math
import numpy as np
import torch
from . import wavelib as W

NP_TOL = 1e-9
CODES = {'Angular Spectrum': 0, 'Bandlimited Angular Spectrum': 1, 'Transfer Function Fresnel': 2, 'Impulse Response Fresnel': 3,
         'custom': 4, 'Fraunhofer': 5, 'Incoherent Angular Spectrum': 6, 'no such propagation type': 7}
SAMPLES = (2, 3, 2, 1)


def _alarm(ctx, what):
    ctx.alarm('correspondence', 'generated pipeline model (Generated/Pipelines.lean): ' + what)


def _apod(rng, n, m):
    return np.array([[rng.uniform(0.2, 1.0) for _ in range(m)] for _ in range(n)], dtype=np.float64)


def _cmp(ctx, tag, impl, line, shape, tol, detail):
    ctx.case(('generated-pipeline',) + tag, True)
    ctx.count('generated-pipeline/' + '/'.join(str(t) for t in tag[:2]))
    if line in ('bad-op', 'bad-args'):
        _alarm(ctx, 'the model driver does not know the op for %s (%s)' % (tag, line))
        return
    if line.strip() == 'none':
        _alarm(ctx, '%s: the model raises / is undefined where the implementation returns a field (%s)' % (tag, detail))
        return
    toks = line.split()
    if len(toks) != 2 * int(np.prod(shape)):
        _alarm(ctx, '%s: the model returns %d numbers, the implementation a field of shape %s (%s)' % (tag, len(toks), shape, detail))
        return
    if tuple(impl.shape) != tuple(shape):
        _alarm(ctx, '%s: the implementation returns shape %s, the model %s (%s)' % (tag, impl.shape, shape, detail))
        return
    xs = np.array([W.b2f(t) for t in toks], dtype=np.float64).reshape(tuple(shape) + (2,))
    mod = xs[..., 0] + 1j * xs[..., 1]
    scale = max(1.0, float(np.max(np.abs(np.nan_to_num(impl)))) if impl.size else 1.0)
    d = W.maxdiff(impl, mod)
    ctx.extra.setdefault('max_generated_pipeline_impl_difference', {})
    key = '/'.join(str(t) for t in tag[:2])
    ctx.extra['max_generated_pipeline_impl_difference'][key] = max(ctx.extra['max_generated_pipeline_impl_difference'].get(key, 0.0), d / scale)
    if not d <= tol * scale:
        _alarm(ctx, '%s differs from the implementation by %.3g (scale %.3g; %s)' % (tag, d, scale, detail))


def check_custom(ctx):
    import odak.learn.wave as LW
    rng = ctx.rng
    shapes = [(1, 1), (2, 2), (3, 3), (2, 3), (3, 2), (4, 5), (5, 4), (5, 5), (6, 7), (7, 6), (8, 8), (1, 6), (6, 1), (7, 9)]
    if not ctx.quick:
        shapes += [(a, b) for a in range(1, 10) for b in range(1, 10) if (a, b) not in shapes]
    lines, cases = [], []
    for (n, m) in shapes:
        u, H = W.rand_field(rng, n, m, 'gauss'), W.rand_field(rng, n, m, 'gauss')
        A = _apod(rng, n, m)
        body = '%d %d %s %s %s' % (n, m, W.enc_field(u), W.enc_field(H), W.enc_field(A.astype(np.complex128)))
        lines.append('gp_custom ' + body)
        cases.append((('custom', 'no-pad', n, m), (n, m), lambda u=u, H=H, A=A: LW.custom(torch.from_numpy(u), torch.from_numpy(H), zero_padding=False,
                                                                                          aperture=torch.from_numpy(A))))
        lines.append('gp_custom_ones %d %d %s %s' % (n, m, W.enc_field(u), W.enc_field(A.astype(np.complex128))))
        cases.append((('custom', 'kernel-None', n, m), (n, m), lambda u=u, A=A: LW.custom(torch.from_numpy(u), None, zero_padding=False,
                                                                                        aperture=torch.from_numpy(A))))
        if n >= 5 and m >= 5:                                            # zero_pad reads a last axis < 5 as channels
            lines.append('gp_custom_pad ' + body)
            cases.append((('custom', 'fourier-pad', n, m), (2 * n, 2 * m),
                          lambda u=u, H=H, A=A: LW.custom(torch.from_numpy(u), torch.from_numpy(H), zero_padding=True, aperture=torch.from_numpy(A))))
    # stacks: the shifts are called without dim -> the batch axis rolls too
    ks = (2, 3) if ctx.quick else (1, 2, 3, 4, 5)
    for k in ks:
        for (n, m) in [(4, 5), (5, 5), (6, 7), (3, 3)] + ([(2, 3), (7, 6), (8, 8)] if not ctx.quick else []):
            us = np.stack([W.rand_field(rng, n, m, 'gauss') for _ in range(k)])
            H = W.rand_field(rng, n, m, 'gauss')
            A = _apod(rng, n, m)
            lines.append('gp_custom_stack %d %d %d %s %s %s' % (k, n, m, ' '.join(W.enc_field(u) for u in us), W.enc_field(H),
                                                                 W.enc_field(A.astype(np.complex128))))
            cases.append((('custom', 'stack', k, n, m), (k, n, m),
                          lambda us=us, H=H, A=A: LW.custom(torch.from_numpy(us), torch.from_numpy(H), aperture=torch.from_numpy(A))))
    outs = ctx.model.ask(lines)
    for (tag, shape, f), o in zip(cases, outs):
        try:
            r = f().detach().numpy().astype(np.complex128)
        except Exception as e:
            _alarm(ctx, 'implementation raised %r for %s' % (e, tag))
            continue
        _cmp(ctx, tag, r, o, shape, 1e-9 * max(1, shape[-1] * shape[-2]), 'random kernel, apodised aperture')


def _beam_line(flags, code, n, m, dx, lam, k, z, u, A, K):
    ps = ' '.join(str(W.f2b(p)) for p in (dx, lam, k, z))
    return 'gp_beam %d %d %d %d %d %d %s %d %d %d %d %s %s %s' % (
        int(flags[0]), int(flags[1]), int(flags[2]), code, n, m, ps, SAMPLES[0], SAMPLES[1], SAMPLES[2], SAMPLES[3],
        W.enc_field(u), W.enc_field(A.astype(np.complex128)), W.enc_field(K))


def check_propagate_beam(ctx):
    import odak.learn.wave as LW
    rng = ctx.rng
    lines, cases = [], []
    names = ['Angular Spectrum', 'Bandlimited Angular Spectrum', 'Transfer Function Fresnel', 'custom', 'Fraunhofer',
             'Incoherent Angular Spectrum', 'Impulse Response Fresnel', 'no such propagation type']
    sizes = [(5, 6), (6, 5), (7, 7)] if ctx.quick else [(5, 6), (6, 5), (7, 7), (5, 5), (6, 6), (8, 5), (9, 6)]
    for flags in [(a, b, c) for a in (False, True) for b in (False, True) for c in (False, True)]:
        for name in names:
            for (n, m) in sizes:
                if name == 'Impulse Response Fresnel' and (n, m) != sizes[0]:
                    continue
                if name == 'no such propagation type' and (n, m) != sizes[0]:
                    continue
                fn, fm = (2 * n, 2 * m) if flags == (False, False, True) else (n, m)   # crop of an un-padded field: even sides in the model
                kn, km = (2 * fn, 2 * fm) if flags[0] else (fn, fm)
                for _ in range(30):
                    dx, lam, z, zc = W.rand_optics(rng, rng.choice(['near', 'far', 'neg']))
                    if name == 'Bandlimited Angular Spectrum' and not W.bl_margin_ok(kn, km, dx, lam, z, 'torch'):
                        continue
                    if name in ('Impulse Response Fresnel', 'Fraunhofer') and abs(z) < 0.5:
                        continue
                    break
                k = 2 * math.pi / lam
                u = W.rand_field(rng, fn, fm, 'gauss')
                A = _apod(rng, kn, km)
                K = W.rand_field(rng, kn, km, 'gauss')
                lines.append(_beam_line(flags, CODES[name], n, m, dx, lam, k, z, u, A, K))
                cases.append((flags, name, fn, fm, dx, lam, k, z, u, A, K))
    outs = ctx.model.ask(lines)
    for (flags, name, fn, fm, dx, lam, k, z, u, A, K), o in zip(cases, outs):
        tag = ('propagate_beam', name, ''.join('T' if f else 'F' for f in flags), fn, fm)
        detail = 'dx=%g lam=%g z=%g' % (dx, lam, z)
        try:
            r = LW.propagate_beam(torch.from_numpy(u), k, z, dx, lam, propagation_type=name, kernel=torch.from_numpy(K),
                                  zero_padding=list(flags), aperture=torch.from_numpy(A), scale=1, samples=list(SAMPLES))
            r = r.detach().numpy().astype(np.complex128)
        except (AssertionError, Exception) as e:
            r = None
            err = e
        ctx.case(('generated-pipeline',) + tag, True)
        if name == 'no such propagation type':
            if r is not None or o.strip() != 'none':
                _alarm(ctx, 'unknown propagation type: implementation %s, model %s' % ('returns' if r is not None else 'raises', o[:20]))
            continue
        if r is None:
            _alarm(ctx, 'implementation raised %r for %s' % (err, tag))
            continue
        if name == 'Fraunhofer' and flags[1]:
            # the implementation ignores zero_padding[1] for Fraunhofer; the 2n x 2m-typed generated definition leaves that branch out
            if o.strip() != 'none':
                _alarm(ctx, '%s: expected the model to leave the branch out' % (tag,))
            continue
        tol = W.TOL_T * (20 if name in ('Impulse Response Fresnel', 'Incoherent Angular Spectrum') else 2)
        _cmp(ctx, tag, r, o, r.shape, tol, detail)


def check_kernels(ctx):
    import odak.learn.wave as LW
    rng = ctx.rng
    lines, cases = [], []
    for (n, m) in [(4, 5), (5, 4), (6, 6)] + ([(3, 3), (7, 8)] if not ctx.quick else []):
        for name in ('Angular Spectrum', 'Bandlimited Angular Spectrum', 'Transfer Function Fresnel', 'Impulse Response Fresnel',
                     'Incoherent Angular Spectrum'):
            for _ in range(30):
                dx, lam, z, zc = W.rand_optics(rng, rng.choice(['near', 'far', 'neg']))
                if name == 'Bandlimited Angular Spectrum' and not W.bl_margin_ok(n, m, dx, lam, z, 'torch'):
                    continue
                if name == 'Impulse Response Fresnel' and abs(z) < 0.5:
                    continue
                break
            lines.append('gp_kernel %d %d %d %s %d %d %d %d' % ((CODES[name], n, m, ' '.join(str(W.f2b(p)) for p in (dx, lam, z))) + SAMPLES))
            cases.append((name, n, m, dx, lam, z))
    outs = ctx.model.ask(lines)
    for (name, n, m, dx, lam, z), o in zip(cases, outs):
        try:
            H = LW.get_propagation_kernel(nu=n, nv=m, dx=dx, wavelength=lam, distance=z, propagation_type=name, scale=1,
                                          samples=list(SAMPLES)).detach().numpy().astype(np.complex128).reshape(n, m)
        except Exception as e:
            _alarm(ctx, 'get_propagation_kernel raised %r for %s' % (e, name))
            continue
        _cmp(ctx, ('get_propagation_kernel', name, n, m), H, o, (n, m),
             W.TOL_T * (20 if name in ('Impulse Response Fresnel', 'Incoherent Angular Spectrum') else 1), 'dx=%g lam=%g z=%g' % (dx, lam, z))


def check_numpy(ctx):
    import odak.wave as OW
    rng = ctx.rng
    lines, cases = [], []
    shapes = [(2, 2), (3, 3), (4, 5), (5, 4), (6, 7), (7, 6), (1, 6), (8, 8)] if ctx.quick else W.shapes(ctx)
    for (n, m) in shapes:
        for name in ('Angular Spectrum', 'Bandlimited Angular Spectrum', 'Transfer Function Fresnel', 'Impulse Response Fresnel', 'Fraunhofer'):
            for _ in range(30):
                dx, lam, z, zc = W.rand_optics(rng, rng.choice(['near', 'far', 'neg']))
                if name == 'Bandlimited Angular Spectrum' and not W.bl_margin_ok(n, m, dx, lam, z, 'numpy'):
                    continue
                break
            k = 2 * math.pi / lam
            u = W.rand_field(rng, n, m, 'gauss')
            lines.append('gp_np %d %d %d %s %s' % (CODES[name], n, m, ' '.join(str(W.f2b(p)) for p in (dx, lam, k, z)), W.enc_field(u)))
            cases.append((name, n, m, dx, lam, k, z, u))
    outs = ctx.model.ask(lines)
    for (name, n, m, dx, lam, k, z, u), o in zip(cases, outs):
        try:
            r = np.asarray(OW.propagate_beam(u, k, z, dx, lam, name), dtype=np.complex128)
        except Exception as e:
            _alarm(ctx, 'NumPy propagate_beam raised %r for %s' % (e, name))
            continue
        _cmp(ctx, ('numpy propagate_beam', name, n, m), r, o, (n, m), NP_TOL * max(1, n * m), 'dx=%g lam=%g z=%g' % (dx, lam, z))


def check_propagator(ctx):
    from . import C06
    rng = ctx.rng
    for it in range(4 if ctx.quick else 40):
        cfg = C06.make_cfg(rng)
        h, w = cfg['h'], cfg['w']
        ap = C06.aperture_of(cfg, rng)
        keys = [(rng.randrange(len(cfg['dists'])), rng.randrange(len(cfg['lams']))) for _ in range(rng.randint(2, 7))]
        keys.append(keys[0])                                           # at least one repeated key: a cache hit
        ops = [(d, c, W.rand_field(rng, h, w, 'gauss')) for (d, c) in keys]
        try:
            res, p = C06.run_impl(cfg, ap, ops)
        except Exception as e:
            _alarm(ctx, 'propagator raised %r' % e)
            continue
        line = C06.model_line(cfg, p.aperture.numpy(), ops).replace('prop_seq', 'gp_prop_seq', 1)
        out = ctx.model.ask([line])[0]
        ctx.case(('generated-pipeline', 'propagator', cfg['back'], cfg['method'], h, w, tuple(keys), cfg['aperture']), True)
        ctx.count('generated-pipeline/propagator/%s' % ('back_and_forth' if cfg['back'] else 'forward'))
        toks = out.split()
        stride = 1 + 2 * h * w
        if out in ('bad-op', 'bad-args') or 'none' in toks or len(toks) != stride * len(ops):
            _alarm(ctx, 'propagator.__call__ sequence: unexpected model answer %r' % out[:40])
            continue
        margin = cfg['method'] != 2 or all(W.bl_margin_ok(2 * h, 2 * w, cfg['dx'], lam, z, 'torch')
                                            for lam in cfg['lams'] for z in cfg['dists'] + [cfg['z0']])
        for k_op in range(len(ops)):
            flag = toks[k_op * stride] == '1'
            mo = W.dec_field(' '.join(toks[k_op * stride + 1:(k_op + 1) * stride]), h, w)
            if flag != res[k_op][0]:
                _alarm(ctx, 'propagator.__call__: cache decision differs at op %d of %s: model %s, implementation %s' % (k_op, keys, flag, res[k_op][0]))
                break
            scale = max(1.0, float(np.max(np.abs(mo))))
            if margin and W.maxdiff(res[k_op][1], mo) > 2e-3 * scale:
                _alarm(ctx, 'propagator.__call__: op %d of %s (%s): implementation and model differ by %.3g'
                       % (k_op, keys, {kk: cfg[kk] for kk in ('back', 'method', 'h', 'w', 'aperture')}, W.maxdiff(res[k_op][1], mo)))
                break
    # reconstruct: order of the calls and which (frame, channel) each field belongs to
    import odak.learn.wave as LW
    for (frames, depths, channels) in [(2, 2, 3), (1, 3, 2)]:
        log = []

        class Rec(LW.propagator):
            def __call__(self, input_field, channel_id, depth_id):
                log.append((int(depth_id), int(channel_id), input_field.detach().clone()))
                return LW.propagator.__call__(self, input_field, channel_id, depth_id)
        h, w = 5, 6
        p = Rec(resolution=[h, w], wavelengths=[0.5 + 0.05 * c for c in range(channels)], pixel_pitch=0.8, number_of_frames=frames,
                number_of_depth_layers=depths, volume_depth=2.0, image_location_offset=1.0, propagation_type='Angular Spectrum',
                propagator_type='forward', device=torch.device('cpu'),
                laser_channel_power=torch.tensor([[0.3 + 0.1 * (f * channels + c) for c in range(channels)] for f in range(frames)]))
        phases = torch.tensor(np.array([[[rng.uniform(0, 6.0) for _ in range(w)] for _ in range(h)] for _ in range(frames)], dtype=np.float32))
        try:
            p.reconstruct(phases)
        except Exception as e:
            _alarm(ctx, 'propagator.reconstruct raised %r' % e)
            continue
        o = ctx.model.ask(['gp_reconstruct %d %d %d' % (frames, depths, channels)])[0]
        ctx.case(('generated-pipeline', 'reconstruct', frames, depths, channels), True)
        ctx.count('generated-pipeline/reconstruct')
        try:
            xs = [int(t) for t in o.split()]
        except ValueError:
            _alarm(ctx, 'reconstruct: unexpected model answer %r' % o[:40])
            continue
        calls = [tuple(xs[i:i + 4]) for i in range(0, len(xs), 4)]
        if [(d, c) for (d, c, _, _) in calls] != [(d, c) for (d, c, _) in log]:
            _alarm(ctx, 'reconstruct calls __call__ in the order %s, the generated model lists %s'
                   % ([(d, c) for (d, c, _) in log], [(d, c) for (d, c, _, _) in calls]))
            continue
        for i in range(len(calls)):
            for j in range(i):
                same_model = calls[i][2:] == calls[j][2:]
                same_impl = bool(torch.equal(log[i][2], log[j][2]))
                if same_model != same_impl:
                    _alarm(ctx, 'reconstruct: calls %d and %d receive %s fields, the generated model says %s'
                           % (j, i, 'equal' if same_impl else 'different', 'equal' if same_model else 'different'))
                    return


def check_generated_pipelines(ctx):
    if not ctx.drv_ok:
        return
    for f in (check_custom, check_propagate_beam, check_kernels, check_numpy, check_propagator):
        try:
            f(ctx)
        except Exception as e:                               # a crash of the comparison is an alarm of its own, never silent
            import traceback
            ctx.alarm('harness', 'generated-pipeline check %s crashed: %s' % (f.__name__, traceback.format_exc()[-800:]))
