"""C15 – colour conversions invert each other and match the published standards.
Correspondence: every conversion of odak.learn.perception.color_conversion vs the regenerated per-pixel Lean functions
(and the hand-written HSV model); monitors: round trips, white/grey points, monotonic transfer curves, the opponent table,
independent reference formulas (BT.601, IEC 61966-2-1, CIE Lab D65)."""
import logging
import math
import warnings
import numpy as np
import torch
from ..lib.core import f2b, b2f

logging.disable(logging.WARNING)
warnings.filterwarnings('ignore')

TRUSTED = ['per-pixel functions are regenerated from the source by harness/translate/colour.py (symbolic tensor interpreter); '
           'image layout handling (NCHW / HWC, batch), HSV and the LMS pipeline are regenerated at the tensor level by '
           'harness/translate/colourtensors.py and proved to be the per-pixel functions at every pixel (C15_gen_layout_*); the tensor '
           'semantics of lean/OdakModel/TensorPrelude.lean (reshape, permute, matmul, broadcasting, max, gather) are trusted and compared '
           'with torch on whole images by harness/props/gencolour.py',
           'torch.pinverse of an invertible matrix is its inverse']
ASSUMPTIONS = ['float32 API: tolerance 2e-5 absolute on [0,1] values, 2e-3 on Lab values; in-gamut colours']


def fl(xs):
    return ' '.join(str(f2b(float(x))) for x in xs)


def colours(ctx):
    rng = ctx.rng
    cs = [(0, 0, 0), (1, 1, 1), (1, 0, 0), (0, 1, 0), (0, 0, 1), (1, 1, 0), (0, 1, 1), (1, 0, 1), (0.5, 0.5, 0.5), (0.2, 0.2, 0.2),
          (0.04045, 0.04045, 0.04045), (0.04045 + 1e-6, 0.0031308, 0.0031308 + 1e-7), (0.04044, 0.04046, 0.5),
          (1, 0.5, 0.5), (0.5, 1, 0.5), (0.5, 0.5, 1), (0.3, 0.3, 0.7), (0.7, 0.3, 0.3), (1e-4, 2e-4, 3e-4)]
    for _ in range(ctx.n(200, 4000)):
        cs.append(tuple(rng.random() for _ in range(3)))
    # ties and near-ties (0 .. 64 float32 ulps) between two channels, in every channel order and with every channel dominant: the hue sits on a
    # sector border (k pi / 3, incl. the wrap 0 = 2 pi), where the arg-max switches and the float modulo may return the period itself
    for dom in range(3):
        for (big, small) in ((0.5, 0.01), (0.9, 0.3), (1.0, 0.0), (0.25, 0.2)):
            for ulps in (0, 1, 2, 5, 17, 64):
                for which in (0, 1):
                    c = [small, small, small]
                    c[dom] = big
                    others = [i for i in range(3) if i != dom]
                    v = np.float32(small)
                    for _u in range(ulps):
                        v = np.nextafter(v, np.float32(1.0))
                    c[others[which]] = float(v)
                    cs.append(tuple(c))
    for _ in range(ctx.n(30, 300)):   # gamut boundary
        c = [rng.random() for _ in range(3)]
        c[rng.randrange(3)] = rng.choice([0.0, 1.0])
        cs.append(tuple(c))
    return [tuple(float(np.float32(x)) for x in c) for c in cs]


def img(cs):
    """colours -> NCHW image 1 x 3 x 1 x K"""
    a = np.array(cs, dtype=np.float32).T.reshape(1, 3, 1, len(cs))
    return torch.from_numpy(a.copy())


def unimg(t):
    return t.detach().numpy().astype(np.float64).reshape(3, -1).T


def ref_srgb_to_linear(x):
    x = np.asarray(x, dtype=np.float64)
    return np.where(x > 0.04045, ((x + 0.055) / 1.055) ** 2.4, x / 12.92)


def ref_lab(c):
    lin = ref_srgb_to_linear(c)
    M = np.array([[0.4124564, 0.3575761, 0.1804375], [0.2126729, 0.7151522, 0.0721750], [0.0193339, 0.1191920, 0.9503041]])
    xyz = lin @ M.T / np.array([0.95047, 1.0, 1.08883])
    d = 6 / 29
    f = np.where(xyz > d ** 3, np.cbrt(xyz), xyz / (3 * d * d) + 4 / 29)
    return np.stack([116 * f[:, 1] - 16, 500 * (f[:, 0] - f[:, 1]), 200 * (f[:, 1] - f[:, 2])], axis=1)


def run(ctx):
    import odak.learn.perception.color_conversion as CC
    rng = ctx.rng
    ctx.rule = ('random in-gamut colours plus primaries, greys, gamut boundary and the piecewise thresholds +- 1e-6, as 1x3x1xK '
                'images, batches of 2-3 and 3xHxW images; non-trivial = not black/white; distinct by colour')
    cs = colours(ctx)
    K = len(cs)
    x = img(cs)
    for c in cs:
        ctx.case(('c',) + c, c not in ((0, 0, 0), (1, 1, 1)), {'colour': c} if len(ctx.samples) < 5 else None)
    ops = ['rgb2ycrcb', 'lin2xyz', 'srgb2lab', 'rgb2hsv', 'opponent']
    lines = []
    for c in cs:
        for op in ops:
            lines.append('%s %s' % (op, fl(c)))
        for ch in c:
            lines.append('srgb2lin %d' % f2b(ch))
            lines.append('lin2srgb %d' % f2b(ch))
    outs = ctx.model.ask(lines) if ctx.drv_ok else None

    ycc = unimg(CC.rgb_2_ycrcb(x)); ycc_back = unimg(CC.ycrcb_2_rgb(CC.rgb_2_ycrcb(x)))
    lin = unimg(CC.rgb_to_linear_rgb(x)); lin_back = unimg(CC.linear_rgb_to_rgb(CC.rgb_to_linear_rgb(x)))
    srgb_of = unimg(CC.linear_rgb_to_rgb(x))
    xyz = unimg(CC.linear_rgb_to_xyz(x)); xyz_back = unimg(CC.xyz_to_linear_rgb(CC.linear_rgb_to_xyz(x)))
    hsv = unimg(CC.rgb_to_hsv(x)); hsv_back = unimg(CC.hsv_to_rgb(CC.rgb_to_hsv(x)))
    x3 = x.reshape(3, 1, K)
    lab = CC.srgb_to_lab(x3).detach().numpy().astype(np.float64).reshape(3, K).T
    lab_back = CC.lab_to_srgb(CC.srgb_to_lab(x3)).detach().numpy().astype(np.float64).reshape(3, K).T
    prim = torch.eye(3).repeat_interleave(101, dim=1)[:, :301] * 0.5 + torch.rand(3, 301, generator=torch.Generator().manual_seed(ctx.seed)) * 0.5
    hvs = CC.display_color_hvs(read_spectrum='tensor', primaries_spectrum=prim)
    opp = unimg(hvs.second_to_third_stage(x))
    lms = hvs.primaries_to_lms(x)
    lms_back = unimg(hvs.lms_to_primaries(lms).float())
    C = np.array(cs, dtype=np.float64)
    # the display model after its matrix was rebuilt through the public construct_matrix_lms (another observer's cone fundamentals; re-measured primaries):
    # primaries -> LMS -> primaries is still the identity, and the forward direction uses the rebuilt matrix
    try:
        hv2 = CC.display_color_hvs(read_spectrum='tensor', primaries_spectrum=prim.clone())
        before_m = hv2.lms_tensor.clone()
        gg = torch.Generator().manual_seed(ctx.seed + 3)
        l2, m2, s2 = [(r_ * (0.6 + 0.8 * torch.rand(r_.shape, generator=gg))) for r_ in (hv2.l_normalized, hv2.m_normalized, hv2.s_normalized)]
        hv2.construct_matrix_lms(l2, m2, s2)
        changed_m = float((hv2.lms_tensor - before_m).abs().max())
        rt = unimg(hv2.lms_to_primaries(hv2.primaries_to_lms(x)).float())
        ctx.case(('hvs_rebuilt', round(changed_m, 6)), True)
        ctx.count('display_color_hvs/matrix rebuilt with other cone fundamentals')
        if changed_m > 1e-3 and np.max(np.abs(rt - np.array(cs, dtype=np.float64))) > 2e-3:
            ctx.violation('display_color_hvs after construct_matrix_lms(other cone fundamentals): primaries -> LMS -> primaries is off by %.3g (the matrix changed by %.3g)'
                          % (float(np.max(np.abs(rt - np.array(cs, dtype=np.float64)))), changed_m), {'what': 'hvs_rebuilt'}, {'what': 'lms_roundtrip', 'rebuilt': True})
    except AttributeError:
        ctx.count('display_color_hvs/rebuild not available')

    def viol(what, i, got, want, tol):
        ctx.violation('%s for colour %s: got %s, expected %s (tolerance %g)' % (what, cs[i], np.round(got, 6).tolist(), np.round(want, 6).tolist(), tol),
                      {'colour': list(cs[i]), 'what': what}, {'what': what})

    def check_all(what, got, want, tol):
        d = np.max(np.abs(got - want), axis=1)
        bad = np.argwhere(~(d <= tol)).reshape(-1)
        if len(bad):
            viol(what, int(bad[0]), got[bad[0]], want[bad[0]], tol)

    # ---- round trips
    check_all('ycrcb_roundtrip', ycc_back, C, 3e-3)
    check_all('srgb_roundtrip', lin_back, C, 2e-5)
    check_all('xyz_roundtrip', xyz_back, C, 2e-5)
    check_all('hsv_roundtrip', hsv_back, C, 2e-5)
    check_all('lab_roundtrip', lab_back, C, 2e-3)
    check_all('lms_roundtrip', lms_back, C, 2e-3)
    # ---- published formulas
    check_all('bt601_luma', ycc[:, :1], (C @ np.array([0.299, 0.587, 0.114])).reshape(-1, 1), 2e-6)
    check_all('srgb_transfer_iec61966', lin, ref_srgb_to_linear(C), 2e-6)
    M = np.array([[0.412453, 0.357580, 0.180423], [0.212671, 0.715160, 0.072169], [0.019334, 0.119193, 0.950227]])
    check_all('xyz_d65_matrix', xyz, C @ M.T, 2e-6)
    check_all('lab_cie_d65', lab, ref_lab(C), 0.05)
    check_all('opponent_table', opp, np.stack([C[:, 1] + C[:, 2] - C[:, 0], C[:, 0] + C[:, 2] - C[:, 1], C.sum(1)], axis=1), 1e-5)
    # ---- white / grey
    w = cs.index((1.0, 1.0, 1.0))
    if abs(ycc[w, 0] - 1) > 1e-5 or abs(xyz[w, 1] - 1) > 1e-5:
        viol('white_Y', w, np.array([ycc[w, 0], xyz[w, 1]]), np.array([1.0, 1.0]), 1e-5)
    if abs(lab[w, 0] - 100) > 1e-2 or abs(lab[w, 1]) > 1e-2 or abs(lab[w, 2]) > 1e-2:
        viol('white_lab', w, lab[w], np.array([100.0, 0, 0]), 1e-2)
    for i, c in enumerate(cs):
        if c[0] == c[1] == c[2]:
            if abs(ycc[i, 1] - 0.5) > 1e-5 or abs(ycc[i, 2] - 0.5) > 1e-5:
                viol('grey_zero_chroma', i, ycc[i], np.array([c[0], 0.5, 0.5]), 1e-5)
            if abs(hsv[i, 1]) > 1e-5 or abs(hsv[i, 0]) > 1e-5:
                viol('grey_zero_saturation', i, hsv[i], np.array([0, 0, c[0]]), 1e-5)
            if c[0] > 0 and (abs(lab[i, 1]) > 2e-2 or abs(lab[i, 2]) > 2e-2):
                viol('grey_lab_neutral', i, lab[i], np.array([lab[i, 0], 0, 0]), 2e-2)
    if np.any(hsv[:, 0] < 0) or np.any(hsv[:, 0] >= 2 * math.pi + 1e-6):
        i = int(np.argmax((hsv[:, 0] < 0) | (hsv[:, 0] >= 2 * math.pi + 1e-6)))
        viol('hue_range', i, hsv[i], np.array([0, 0, 0]), 0)
    # ---- monotonic and continuous transfer curves
    grid = torch.linspace(0, 1, ctx.n(2001, 20001), dtype=torch.float32).reshape(1, 1, 1, -1).repeat(1, 3, 1, 1)
    for name, f in (('srgb_to_linear', CC.rgb_to_linear_rgb), ('linear_to_srgb', CC.linear_rgb_to_rgb)):
        y = f(grid)[0, 0, 0].numpy().astype(np.float64)
        dy = np.diff(y)
        if np.any(dy < -1e-7):
            k = int(np.argmin(dy))
            ctx.violation('%s is not monotonic near x = %g' % (name, k / (len(y) - 1)), {'curve': name, 'x': k / (len(y) - 1)},
                          {'what': 'transfer_monotonic', 'curve': name})
        if np.max(np.abs(dy)) > 20.0 / len(y):
            k = int(np.argmax(np.abs(dy)))
            ctx.violation('%s jumps by %g near x = %g (not continuous at the knee)' % (name, float(dy[k]), k / (len(y) - 1)),
                          {'curve': name, 'x': k / (len(y) - 1)}, {'what': 'transfer_continuous', 'curve': name})
    # ---- batches and ranks give the same per-pixel result
    xb = torch.cat([x, x.flip(-1), x * 0.5], dim=0)
    for name, f in (('rgb_2_ycrcb', CC.rgb_2_ycrcb), ('rgb_to_linear_rgb', CC.rgb_to_linear_rgb), ('linear_rgb_to_xyz', CC.linear_rgb_to_xyz),
                    ('rgb_to_hsv', CC.rgb_to_hsv)):
        rb = f(xb)
        r1 = f(x)
        ctx.case(('batch', name), True)
        if rb.shape != xb.shape or not torch.allclose(rb[0], r1[0], atol=1e-6) or \
                not torch.allclose(rb[1].flip(-1), r1[0], atol=1e-6):
            ctx.violation('%s: a batch of 3 differs from the single image' % name, {'fn': name}, {'what': 'batch', 'fn': name})
        r3 = f(x[0])
        if not torch.allclose(r3.reshape(r1.shape), r1, atol=1e-6):
            ctx.violation('%s: a 3xHxW image differs from its 1x3xHxW batch' % name, {'fn': name}, {'what': 'rank3', 'fn': name})
    # ---- hsv_to_rgb at and around the sector borders k pi / 3 (k = 0 .. 6: the wrap-around hue 2 pi is what rgb_to_hsv returns for some near-ties)
    import colorsys
    for kk in range(7):
        for dh in (0.0, 1e-6, -1e-6):
            hue = kk * np.pi / 3 + dh
            if hue < 0:
                continue
            for (sat, val) in ((0.4, 0.3), (1.0, 1.0), (0.98, 0.5)):
                t = torch.tensor([hue, sat, val], dtype=torch.float32).reshape(1, 3, 1, 1)
                got = CC.hsv_to_rgb(t).reshape(3).numpy().astype(np.float64)
                want = np.array(colorsys.hsv_to_rgb((float(np.float32(hue)) / (2 * np.pi)) % 1.0, sat, val))
                ctx.case(('hsv_border', kk, dh, sat), True)
                ctx.count('hsv_to_rgb/sector_border')
                if not np.allclose(got, want, atol=2e-5):
                    ctx.violation('hsv_to_rgb at hue %g (sector border %d pi/3), s = %g, v = %g: got %s, the hexcone model gives %s'
                                  % (hue, kk, sat, val, np.round(got, 6).tolist(), np.round(want, 6).tolist()),
                                  {'hsv': [hue, sat, val], 'what': 'hsv_border'}, {'what': 'hsv_sector_border'})
    # ---- the Lab pair also accepts channel-last images [m x n x 3] (color_map feeds lab_to_srgb that way): same pixels, same places,
    # on non-square images, and the round trip / colour transfer onto itself return the image
    for (hh, ww) in ((4, 5), (6, 6), (7, 2)):
        g = torch.Generator().manual_seed(ctx.seed + hh * 31 + ww)
        im = torch.rand(3, hh, ww, generator=g) * 0.9 + 0.05
        ctx.case(('lab_layout', hh, ww), True)
        try:
            a = CC.srgb_to_lab(im)
            b = CC.srgb_to_lab(im.permute(1, 2, 0).contiguous())
            c = CC.lab_to_srgb(a)
            d = CC.lab_to_srgb(a.permute(1, 2, 0).contiguous())
            m = CC.color_map(im.clone(), im.clone())
        except Exception as e:
            ctx.note('Lab pair rejects a channel-last image: %r' % (e,))
            continue
        recl = {'fn': 'srgb_to_lab/lab_to_srgb', 'shape': [hh, ww]}
        if a.shape != im.shape or b.shape != a.shape or not torch.allclose(a, b, atol=1e-5):
            ctx.violation('srgb_to_lab of a channel-last %dx%dx3 image differs from the channel-first result (shapes %s vs %s)'
                          % (hh, ww, tuple(b.shape), tuple(a.shape)), recl, {'what': 'layout', 'fn': 'srgb_to_lab'})
        elif d.shape != c.shape or not torch.allclose(c, d, atol=1e-5):
            ctx.violation('lab_to_srgb of a channel-last %dx%dx3 image differs from the channel-first result (shapes %s vs %s)'
                          % (hh, ww, tuple(d.shape), tuple(c.shape)), recl, {'what': 'layout', 'fn': 'lab_to_srgb'})
        elif not torch.allclose(c, im, atol=2e-3) or m.shape != im.shape or not torch.allclose(m, im, atol=2e-3):
            ctx.violation('sRGB -> Lab -> sRGB (or the colour transfer of an image onto itself) does not return the %dx%d image' % (hh, ww), recl,
                          {'what': 'lab_roundtrip', 'fn': 'image'})
    # ---- a conversion is a function of the pixel VALUES, not of how the image lies in memory: the same image handed over as a view with other
    # strides (spatial axes exchanged in memory, channels-last memory format, a window of a larger tensor, a flipped view, a batch made by expand)
    # gives the same result as the contiguous copy
    hvs = None
    try:
        hvs = CC.display_color_hvs(read_spectrum='tensor', primaries_spectrum=torch.rand(3, 301, generator=torch.Generator().manual_seed(5)))
    except Exception:
        pass
    fns = [('rgb_2_ycrcb', CC.rgb_2_ycrcb), ('ycrcb_2_rgb', CC.ycrcb_2_rgb), ('rgb_to_linear_rgb', CC.rgb_to_linear_rgb),
           ('linear_rgb_to_rgb', CC.linear_rgb_to_rgb), ('linear_rgb_to_xyz', CC.linear_rgb_to_xyz), ('xyz_to_linear_rgb', CC.xyz_to_linear_rgb),
           ('rgb_to_hsv', CC.rgb_to_hsv), ('hsv_to_rgb', CC.hsv_to_rgb), ('srgb_to_lab', CC.srgb_to_lab), ('lab_to_srgb', CC.lab_to_srgb)]
    if hvs is not None:
        fns += [('display_color_hvs.primaries_to_lms', hvs.primaries_to_lms), ('display_color_hvs.second_to_third_stage', hvs.second_to_third_stage)]
    g = torch.Generator().manual_seed(ctx.seed + 77)
    for (hh, ww) in ((4, 6), (5, 5)):
        base4 = torch.rand(2, 3, hh, ww, generator=g) * 0.9 + 0.05

        def views(x):
            big = torch.zeros(x.shape[:-2] + (x.shape[-2] + 3, x.shape[-1] + 2))
            big[..., 1:1 + x.shape[-2], 2:2 + x.shape[-1]] = x
            out = [('spatial axes exchanged in memory', x.transpose(-1, -2).contiguous().transpose(-1, -2)),
                   ('window of a larger tensor', big[..., 1:1 + x.shape[-2], 2:2 + x.shape[-1]]),
                   ('flipped view', torch.flip(torch.flip(x, dims=[-1]).contiguous(), dims=[-1]) if False else x.flip(-1).contiguous().flip(-1))]
            if x.dim() == 4:
                out.append(('channels-last memory format', x.contiguous(memory_format=torch.channels_last)))
                out.append(('all axes reversed in memory', x.permute(3, 2, 1, 0).contiguous().permute(3, 2, 1, 0)))
            else:
                out.append(('all axes reversed in memory', x.permute(2, 1, 0).contiguous().permute(2, 1, 0)))
            return out
        for name, f in fns:
            for x in (base4, base4[0].clone()):
                try:
                    want = f(x.clone())
                except Exception:
                    continue
                for vname, xv in views(x):
                    ctx.case(('memory_layout', name, vname, x.dim(), hh), True)
                    ctx.count('memory_layout/' + vname)
                    if not torch.equal(xv, x):
                        continue
                    try:
                        got = f(xv)
                    except Exception as e:
                        ctx.violation('%s raises %r for a %s image given as a view (%s) although it accepts the contiguous copy'
                                      % (name, e, 'x'.join(map(str, x.shape)), vname), {'fn': name, 'view': vname, 'shape': list(x.shape)},
                                      {'what': 'memory_layout', 'fn': name})
                        break
                    if got.shape != want.shape or not torch.allclose(got, want, atol=1e-5, rtol=1e-5, equal_nan=True):
                        ctx.violation('%s of a %s image given as a view (%s) differs from the result for the contiguous copy of the same pixels '
                                      '(max difference %.3g)' % (name, 'x'.join(map(str, x.shape)), vname,
                                                                 float((got - want).abs().max()) if got.shape == want.shape else float('nan')),
                                      {'fn': name, 'view': vname, 'shape': list(x.shape)}, {'what': 'memory_layout', 'fn': name})
                        break
    # ---- a float32 image (what load_image returns) converts to the same colours whatever global settings of torch are in force: default dtype float64
    # (a double-precision pipeline elsewhere in the program), grad mode switched off globally.  Boundary colours included (black, white, greys, primaries).
    from ..lib import settings as ST
    bound = torch.tensor([[0., 0., 0.], [1., 1., 1.], [0.5, 0.5, 0.5], [0.2, 0.2, 0.2], [1., 0., 0.], [0., 1., 0.], [0., 0., 1.], [1., 1., 0.], [0.3, 0.6, 0.9],
                          [0.9, 0.3, 0.6], [0.0031308, 0.04045, 0.5], [1e-6, 0., 1e-6]], dtype=torch.float32)
    img32 = bound.t().reshape(1, 3, 3, 4).contiguous()
    for name, f in fns:
        ST.differential(ctx, 'C15 ' + name + ' (float32 image with boundary colours)', lambda f=f: f(img32.clone()), rtol=1e-4, atol=1e-5, cls={'fn': name})
    # ---- executable tie of the regenerated TENSOR-LEVEL definitions (layouts, HSV, LMS pipeline) on whole images
    from .gencolour import check_generated_colour
    check_generated_colour(ctx)
    # ---- correspondence with the regenerated functions
    if outs is not None:
        it = iter(outs)
        worst = {}
        for i, c in enumerate(cs):
            got = {'rgb2ycrcb': ycc[i], 'lin2xyz': xyz[i], 'srgb2lab': lab[i], 'rgb2hsv': hsv[i], 'opponent': opp[i]}
            for op in ops:
                w_ = np.array([b2f(t) for t in next(it).split()])
                tol = {'srgb2lab': 2e-3, 'rgb2hsv': 1e-4}.get(op, 2e-5)
                g = got[op].copy()
                if op == 'rgb2hsv':      # hue is an angle: compare modulo 2 pi, and only where the saturation is not ~0
                    dh = abs((g[0] - w_[0] + math.pi) % (2 * math.pi) - math.pi)
                    if g[1] < 1e-3:
                        dh = 0.0
                    d = max(dh * max(g[1], 0.0), abs(g[1] - w_[1]), abs(g[2] - w_[2]))
                else:
                    d = float(np.max(np.abs(g - w_)))
                worst[op] = max(worst.get(op, 0.0), d)
                if not d <= tol:
                    ctx.alarm('correspondence', '%s(%s): implementation %s vs regenerated model %s' % (op, c, g.tolist(), w_.tolist()))
            for k in range(3):
                a = b2f(next(it)); b = b2f(next(it))
                if abs(a - lin[i, k]) > 2e-6:
                    ctx.alarm('correspondence', 'rgb_to_linear_rgb(%r): implementation %r vs model %r' % (c[k], lin[i, k], a))
                if abs(b - srgb_of[i, k]) > 2e-6:
                    ctx.alarm('correspondence', 'linear_rgb_to_rgb(%r): implementation %r vs model %r' % (c[k], srgb_of[i, k], b))
        ctx.extra['max_model_impl_difference'] = worst
        # de-duplicate alarms
        seen, uniq = set(), []
        for a in ctx.alarms:
            k = a['what'].split('(')[0]
            if k not in seen:
                seen.add(k); uniq.append(a)
        ctx.alarms[:] = uniq


def replay(ctx, rep):
    import odak.learn.perception.color_conversion as CC
    r = rep['replay']
    if 'colour' not in r:
        return True
    x = img([tuple(r['colour'])])
    print('ycrcb', unimg(CC.rgb_2_ycrcb(x)).tolist(), 'back', unimg(CC.ycrcb_2_rgb(CC.rgb_2_ycrcb(x))).tolist())
    prim = torch.rand(3, 301)
    hvs = CC.display_color_hvs(read_spectrum='tensor', primaries_spectrum=prim)
    print('opponent', unimg(hvs.second_to_third_stage(x)).tolist())
    return True
