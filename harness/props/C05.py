"""C05 – PyTorch light and ray models are differentiable with correct, finite gradients (PARTIAL: autograd itself is trusted).
Correspondence: torch.autograd of scalar objectives built on the real functions vs the model's dual-number derivative (the same Lean
model functions run at Dual Float) along random directions.  Search: central finite differences vs autograd on the implementation for
every entry point in the registry (catches .detach(), .item(), NumPy round trips and re-created leaves), plus NaN/Inf checks."""
import logging
import math
import warnings
import numpy as np
import torch
from ..lib.core import f2b, b2f

logging.disable(logging.WARNING)
warnings.filterwarnings('ignore')

TRUSTED = ['torch.autograd differentiates each torch primitive correctly; what is checked is that odak keeps the computation inside autograd '
           'and composes primitives whose derivative exists at the input',
           'finite differences use steps matched to the dtype (float64 where the function allows it, else float32 with loose tolerance)']
ASSUMPTIONS = ['inputs away from the documented non-smooth points (|u| = 0, branch cut of the phase, piecewise thresholds, quantisation, masks)']


def jvp_check(ctx, name, f, x, tol_fd, tol_model=None, model=None, cls=None, h=None):
    """f: tensor -> tensor (any shape).  Compares autograd with central finite differences along a random direction,
    and (if `model` is given: callable (x, v) -> (values, derivs) from the Lean dual model) with the dual-number oracle."""
    rng = ctx.rng
    x = x.clone().detach().requires_grad_(True)
    try:
        with torch.no_grad():          # a preview / logging call under no_grad must not change what the next call records (objects that cache under no_grad)
            f(x)
        y = f(x)
    except Exception as e:
        ctx.violation('%s raised %r' % (name, e), {'entry': name}, {'entry': name, 'what': 'raises'})
        return
    w = torch.tensor(np.array([rng.gauss(0, 1) for _ in range(y.numel())]).reshape(tuple(y.shape)), dtype=y.real.dtype if y.is_complex() else y.dtype)
    obj = (y.real * w).sum() + ((y.imag * (w * 0.7 + 0.1)).sum() if y.is_complex() else 0.0)
    ctx.case((name, float(x.detach().abs().sum())), True, {'entry': name} if len(ctx.samples) < 6 else None)
    ctx.count('entry/' + name)
    if not obj.requires_grad:
        ctx.violation('%s: the output does not depend on the input through autograd (no grad_fn: detached / re-created leaf)' % name,
                      {'entry': name}, dict(cls or {}, entry=name, what='no_grad'))
        return
    g, = torch.autograd.grad(obj, x, allow_unused=True)
    if g is None:
        ctx.violation('%s: autograd returns no gradient for the input' % name, {'entry': name}, dict(cls or {}, entry=name, what='no_grad'))
        return
    if not torch.isfinite(g).all():
        ctx.violation('%s: gradient contains NaN/Inf' % name, {'entry': name, 'x': x.detach().reshape(-1).tolist()[:12]},
                      dict(cls or {}, entry=name, what='nonfinite_grad'))
        return
    v = torch.tensor(np.array([rng.gauss(0, 1) for _ in range(x.numel())]).reshape(tuple(x.shape)), dtype=x.dtype)
    ad = float((g * v).sum())
    # the learned quantity held the way torch.nn.Module / torch.optim hold it: a torch.nn.Parameter with the same values gets the same gradient
    try:
        xp = torch.nn.Parameter(x.detach().clone())
        yp = f(xp)
        objp = (yp.real * w).sum() + ((yp.imag * (w * 0.7 + 0.1)).sum() if yp.is_complex() else 0.0)
        gp = torch.autograd.grad(objp, xp, allow_unused=True)[0] if objp.requires_grad else None
    except Exception as e:
        gp = e
    ctx.count('entry_as_parameter/' + name)
    if gp is None or isinstance(gp, Exception):
        ctx.violation('%s: with the input held as a torch.nn.Parameter (same values) autograd returns %s, with a plain leaf tensor it returns a gradient'
                      % (name, 'no gradient' if gp is None else repr(gp)), {'entry': name, 'as': 'Parameter'}, dict(cls or {}, entry=name, what='parameter_detached'))
        return
    if not torch.allclose(gp, g, rtol=1e-4, atol=1e-6 * float(g.abs().max() + 1e-30), equal_nan=True):
        ctx.violation('%s: the gradient w.r.t. a torch.nn.Parameter differs from the gradient w.r.t. a plain leaf tensor of the same values (max difference %.3g)'
                      % (name, float((gp - g).abs().max())), {'entry': name, 'as': 'Parameter'}, dict(cls or {}, entry=name, what='parameter_gradient'))
        return

    def objective(xx):
        yy = f(xx)
        return float((yy.real * w).sum() + ((yy.imag * (w * 0.7 + 0.1)).sum() if yy.is_complex() else 0.0))
    h = h or (1e-6 if x.dtype == torch.float64 else 2e-3)
    with torch.no_grad():
        fd = (objective(x.detach() + h * v) - objective(x.detach() - h * v)) / (2 * h)
        fd_half = (objective(x.detach() + 0.5 * h * v) - objective(x.detach() - 0.5 * h * v)) / h
    scale = max(1.0, abs(fd), abs(ad))
    if abs(fd - fd_half) > max(10 * tol_fd, 0.2) * max(1.0, abs(fd_half)):
        # the two finite differences disagree with each other: the segment x +- h v crosses a kink / jump of the function (a documented
        # non-smooth point such as a hue wrap, an arg-max switch or a threshold); finite differences cannot judge autograd there
        ctx.count('skipped_near_nonsmooth_point/' + name)
    elif abs(ad - fd) > tol_fd * scale:
        ctx.violation('%s: autograd directional derivative %.8g differs from the central finite difference %.8g' % (name, ad, fd),
                      {'entry': name, 'autograd': ad, 'finite_difference': fd, 'x': x.detach().reshape(-1).tolist()[:12]},
                      dict(cls or {}, entry=name, what='grad_mismatch'))
    if model is not None and ctx.drv_ok:
        vals, ders = model(x.detach().double().reshape(-1).tolist(), v.double().reshape(-1).tolist())
        yv = y.detach()
        flat = torch.view_as_real(yv).reshape(-1).double().tolist() if yv.is_complex() else yv.reshape(-1).double().tolist()
        wts = []
        if yv.is_complex():
            for a in w.reshape(-1).tolist():
                wts += [a, a * 0.7 + 0.1]
        else:
            wts = w.reshape(-1).tolist()
        if len(vals) != len(flat):
            ctx.alarm('correspondence', '%s: model returns %d components, implementation %d' % (name, len(vals), len(flat)))
            return
        tm = tol_model or 1e-7
        if max(abs(a - b) for a, b in zip(vals, flat)) > tm * max(1.0, max(abs(b) for b in flat)):
            ctx.alarm('correspondence', '%s: forward value differs from the model (%s vs %s)' % (name, flat[:4], vals[:4]))
            return
        md = sum(a * b for a, b in zip(ders, wts))
        if abs(md - ad) > tm * 10 * scale:
            ctx.alarm('correspondence', '%s: autograd derivative %.8g vs dual-number model %.8g' % (name, ad, md))


def dual_model(ctx, names, name, params=()):
    idx = names.index(name)

    def run(xs, vs):
        line = 'dual %d %d %s %s %s' % (idx, len(xs), ' '.join(str(f2b(a)) for a in xs), ' '.join(str(f2b(a)) for a in vs),
                                        ' '.join(str(f2b(float(p))) for p in params))
        out = [b2f(t) for t in ctx.model.ask([line])[0].split()]
        return out[0::2], out[1::2]
    return run


def _rows(model, xs, vs, k):
    """apply a k-input model row by row to a flattened [m x k] input; concatenate values and derivatives"""
    vals, ders = [], []
    for i in range(0, len(xs), k):
        a, b = model(xs[i:i + k], vs[i:i + k])
        vals += a
        ders += b
    return vals, ders


def run(ctx):
    import odak.learn.wave as LW
    import odak.learn.raytracing as LR
    import odak.learn.tools as LT
    import odak.learn.perception.color_conversion as CC
    rng = ctx.rng
    ctx.rule = ('registry of differentiable entry points x random valid inputs x random directions; non-trivial = every case; distinct by (entry, input)')
    names = ctx.model.ask(['dual_names'])[0].split() if ctx.drv_ok else []
    M = (lambda n, p=(): dual_model(ctx, names, n, p)) if ctx.drv_ok else (lambda n, p=(): None)
    R = ctx.n(2, 12)
    D = torch.float64
    k = 2 * math.pi / 0.5

    def rnd(*shape, lo=-1.0, hi=1.0, dtype=D):
        return torch.tensor(np.array([rng.uniform(lo, hi) for _ in range(int(np.prod(shape)))]).reshape(shape), dtype=dtype)

    for _ in range(R):
        # ---- field construction
        jvp_check(ctx, 'generate_complex_field', lambda x: LW.generate_complex_field(x[0], x[1]), rnd(2, lo=0.2, hi=2.0), 1e-6, 1e-9, M('gen_field'))
        # the learned phase / amplitude IMAGE handed over as it is (the tensor - or torch.nn.Parameter - itself is the argument, not an element of it)
        amp_c, ph_c = rnd(5, 6, lo=0.2, hi=2.0), rnd(5, 6, lo=-3.0, hi=3.0)
        jvp_check(ctx, 'generate_complex_field/phase image', lambda x: LW.generate_complex_field(amp_c, x), rnd(5, 6, lo=-3.0, hi=3.0), 1e-5)
        jvp_check(ctx, 'generate_complex_field/amplitude image', lambda x: LW.generate_complex_field(x, ph_c), rnd(5, 6, lo=0.2, hi=2.0), 1e-5)
        jvp_check(ctx, 'generate_complex_field/phase image, scalar amplitude', lambda x: LW.generate_complex_field(1.0, x), rnd(5, 6, lo=-3.0, hi=3.0), 1e-5)
        jvp_check(ctx, 'generate_complex_field -> propagate_beam/phase image',
                  lambda x: LW.propagate_beam(LW.generate_complex_field(amp_c.to(torch.float32), x), 2 * math.pi / 0.5, 1.3, 0.8, 0.5, propagation_type='Bandlimited Angular Spectrum',
                                              zero_padding=[True, False, True]), rnd(5, 6, lo=-3.0, hi=3.0, dtype=torch.float32), 3e-2)
        jvp_check(ctx, 'calculate_amplitude/phase', lambda x: torch.stack([LW.calculate_amplitude(torch.complex(x[0], x[1])),
                                                                           LW.calculate_phase(torch.complex(x[0], x[1]))]),
                  rnd(2, lo=0.3, hi=2.0), 1e-6, 1e-9, M('amp_phase'))
        jvp_check(ctx, 'set_amplitude', lambda x: LW.set_amplitude(torch.complex(x[0], x[1]), torch.complex(x[2], x[3])), rnd(4, lo=0.3, hi=2.0), 1e-6, 1e-9, M('set_amp'))
        # (kernels are not differentiable w.r.t. the distance in the implementation: `torch.tensor([distance])` re-creates a leaf;
        #  the property quantifies over phases, amplitudes, rays, heights and colours, so that is not an entry point here)
        # ---- propagation as a function of the field, every method
        for name in ('Angular Spectrum', 'Bandlimited Angular Spectrum', 'Transfer Function Fresnel', 'Impulse Response Fresnel',
                     'Seperable Impulse Response Fresnel', 'Incoherent Angular Spectrum', 'Fraunhofer'):
            for zp in ([False, False, False], [True, False, True], [True, True, True]):
                if name == 'Fraunhofer' and zp[0]:
                    continue
                jvp_check(ctx, 'propagate_beam(%s, pad=%s%s)/field' % (name, zp[0], ', Fourier pad' if zp[1] else ''),
                          lambda x: LW.propagate_beam(torch.complex(x[0], x[1]), k, 1.5, 0.8, 0.5, propagation_type=name, zero_padding=zp, samples=[2, 2, 2, 2]),
                          rnd(2, 6, 6), 1e-5)
        # ---- propagator forward model (first call and cached call)
        prop = LW.propagator(resolution=[6, 6], wavelengths=[0.5, 0.6], pixel_pitch=0.8, number_of_depth_layers=2, volume_depth=1.0,
                             image_location_offset=0.5, propagation_type='Bandlimited Angular Spectrum', back_and_forth_distance=1.0)
        for tag in ('first', 'cached'):
            jvp_check(ctx, 'propagator.__call__/%s' % tag, lambda x: prop(torch.complex(x[0], x[1]).to(torch.complex64), 1, 1),
                      rnd(2, 6, 6, dtype=torch.float32), 2e-2)
        jvp_check(ctx, 'propagator.reconstruct', lambda x: prop.reconstruct(x.unsqueeze(0), no_grad=False), rnd(6, 6, lo=0, hi=6.0, dtype=torch.float32), 3e-2)
        # the laser powers of a conventional multi-frame display are learnable too (constructor argument `laser_channel_power`, `set_laser_powers`); the matrix of
        # a display that switches a primary off in a frame contains exact zeros (the default is the identity) - a zero is an ordinary point of a linear map
        ph2 = rnd(2, 6, 6, lo=0, hi=6.0, dtype=torch.float32)

        def f_power(x, ph2=ph2):
            pr = LW.propagator(resolution=[6, 6], wavelengths=[0.5, 0.6], pixel_pitch=0.8, number_of_frames=2, number_of_depth_layers=2, volume_depth=1.0,
                               image_location_offset=0.5, propagation_type='Bandlimited Angular Spectrum', propagator_type='forward', laser_channel_power=x,
                               device=torch.device('cpu'))
            out = pr.reconstruct(ph2, no_grad=False, get_complex=True)
            return torch.view_as_real(out).reshape(-1)
        for tag, pw in (('with exact zeros', torch.tensor([[1.0, 0.0], [0.3, 0.9]])), ('identity (the default)', torch.eye(2)), ('generic', rnd(2, 2, lo=0.2, hi=1.0, dtype=torch.float32))):
            jvp_check(ctx, 'propagator.reconstruct/laser powers ' + tag, f_power, pw.to(torch.float32), 3e-2, cls={'powers': tag}, h=1e-2)
        # ---- rays
        nrm = torch.tensor([[0.1, 0.2, 1.0], [0.2, -0.1, 0.9]], dtype=torch.float32)
        jvp_check(ctx, 'reflect/direction', lambda x: LR.reflect(torch.stack([torch.zeros(3), x]), nrm)[:, 1], rnd(3, dtype=torch.float32), 2e-2, 2e-3,
                  None)
        nvec = torch.tensor([0.1, 0.2, 1.0], dtype=D)
        dvec = rnd(3); dvec = dvec / dvec.norm()
        for _ in range(50):          # the refract entries below are ALWAYS run: redraw until the incidence is clearly away from grazing
            if abs(float((dvec * nvec).sum())) > 0.3:
                break
            dvec = rnd(3); dvec = dvec / dvec.norm()
        else:
            dvec = torch.tensor([0.2, -0.1, 0.9746794344808963], dtype=D)
        if float((dvec * nvec).sum()) < 0:
            dvec = -dvec          # towards the far side of the surface
        if abs(float((dvec * nvec).sum())) > 0.3:
            jvp_check(ctx, 'refract/direction', lambda x: LR.refract(torch.stack([torch.zeros(3, dtype=D), x]).unsqueeze(0),
                                                                     torch.stack([torch.zeros(3, dtype=D), nvec]).unsqueeze(0), 1.0, 1.5, error=1e-9)[0, 1],
                      dvec, 1e-5, 1e-6, (lambda xs, vs: dual_model(ctx, names, 'refract', (1.0 / 1.5, 1e-9))(xs + nvec.tolist(), vs + [0.0, 0.0, 0.0])) if ctx.drv_ok else None)
        # create_ray: direction cosines from angles in degrees; axis-aligned rays (90 / 270 / -90 degrees, where the cosine vanishes) are
        # ordinary smooth points of cos, and the ones optical-axis rays sit on
        for tag, ang in (('random', rnd(2, 3, lo=-170, hi=170)),
                         ('axis_aligned', torch.tensor([[90., 90., 0.], [30., 60., 90.], [270., -90., 180.]], dtype=D)),
                         ('axis_aligned', torch.tensor([[rng.choice([90., -90., 270., 0., 180.]) for _ in range(3)] for _ in range(2)], dtype=D))):
            jvp_check(ctx, 'create_ray/angles/' + tag, lambda x: LR.create_ray(torch.zeros_like(x), x)[:, 1], ang, 2e-3, 2e-6,
                      (lambda xs, vs: (lambda r: r)(_rows(dual_model(ctx, names, 'create_ray'), xs, vs, 3))) if ctx.drv_ok else None,
                      cls={'angles': tag}, h=1e-2)
        jvp_check(ctx, 'create_ray/start_points', lambda x: LR.create_ray(x, torch.tensor([[30., 60., 90.], [10., 85., 80.]]))[:, 0], rnd(2, 3, dtype=torch.float32), 2e-2)
        jvp_check(ctx, 'create_ray/direction=True', lambda x: LR.create_ray(torch.zeros_like(x), x, direction=True)[:, 1], rnd(2, 3, dtype=torch.float32), 2e-2)
        jvp_check(ctx, 'create_ray -> intersect_w_surface', lambda x: LR.intersect_w_surface(LR.create_ray(torch.tensor([[0.1, 0.2, 0.]]), x),
                                                                                              torch.tensor([[0., 0, 2], [1.5, 0.1, 2.2], [0.2, 1.4, 1.9]]))[0][:, 0].reshape(-1),
                  torch.tensor([[90., 90., 0.]], dtype=torch.float32), 3e-2, cls={'angles': 'axis_aligned'}, h=5e-2)
        jvp_check(ctx, 'propagate_ray', lambda x: LR.propagate_ray(torch.stack([x[0], x[1]]).unsqueeze(0), x[2, :1])[:, 0], rnd(3, 3, dtype=torch.float32), 2e-2, 2e-3,
                  (lambda xs, vs: dual_model(ctx, names, 'propagate_ray')(xs[:7], vs[:7])) if ctx.drv_ok else None)
        jvp_check(ctx, 'create_ray_from_all_pairs', lambda x: LR.create_ray_from_all_pairs(x[:2], x[2:] + 3.0)[:, 1], rnd(5, 3, dtype=torch.float32), 2e-2)
        tris = torch.tensor([[[0., 0, 2], [1.5, 0.1, 2.2], [0.2, 1.4, 1.9]], [[0., 0, 3], [1.5, 0.3, 3.2], [0.1, 1.4, 2.9]]], dtype=torch.float32)
        jvp_check(ctx, 'intersect_w_surface_batch/ray', lambda x: LR.intersect_w_surface_batch(torch.stack([x[0], x[1] / x[1].norm()]).unsqueeze(0), tris)[0][..., 0, :].reshape(-1),
                  torch.tensor([[0.3, 0.3, 0.0], [0.05, 0.02, 1.0]], dtype=torch.float32) + rnd(2, 3, lo=-0.05, hi=0.05, dtype=torch.float32), 3e-2)
        jvp_check(ctx, 'intersect_w_triangle_batch/triangles', lambda t: LR.intersect_w_surface_batch(torch.tensor([[[0.3, 0.3, 0.0], [0.0, 0.0, 1.0]]]), t)[1].reshape(-1),
                  tris + rnd(2, 3, 3, lo=-0.05, hi=0.05, dtype=torch.float32), 3e-2)
        jvp_check(ctx, 'get_triangle_normal', lambda t: LR.get_triangle_normal(t)[:, 1].reshape(-1), tris + rnd(2, 3, 3, lo=-0.05, hi=0.05, dtype=torch.float32), 3e-2)
        jvp_check(ctx, 'reflect/normal', lambda x: LR.reflect(torch.tensor([[0., 0, 0], [0.3, 0.2, 0.9]]), torch.stack([torch.zeros(3), x]))[:, 1],
                  torch.tensor([0.1, 0.2, 1.0]) + rnd(3, lo=-0.1, hi=0.1, dtype=torch.float32), 2e-2)
        # every tensor argument ALONE: the rays constant, only the surface normal requires grad (optimising a surface under fixed illumination)
        if abs(float((dvec * nvec).sum())) > 0.3:
            jvp_check(ctx, 'refract/normal_only', lambda x: LR.refract(torch.stack([torch.zeros(3, dtype=D), dvec]).unsqueeze(0),
                                                                       torch.stack([torch.zeros(3, dtype=D), x]).unsqueeze(0), 1.0, 1.5, error=1e-9)[0, 1],
                      nvec.clone(), 1e-5, 1e-6,
                      (lambda xs, vs: dual_model(ctx, names, 'refract', (1.0 / 1.5, 1e-9))(dvec.tolist() + xs, [0.0, 0.0, 0.0] + vs)) if ctx.drv_ok else None)
            jvp_check(ctx, 'refract/normal_only/batch', lambda x: LR.refract(torch.stack([torch.zeros(2, 3, dtype=D), torch.stack([dvec, dvec])], dim=1),
                                                                             torch.stack([torch.zeros(2, 3, dtype=D), x], dim=1), 1.0, 1.33, error=1e-9)[:, 1],
                      torch.stack([nvec, nvec * 1.5 + torch.tensor([0.05, 0.0, 0.0], dtype=D)]), 1e-5)
        jvp_check(ctx, 'create_ray_from_two_points', lambda x: LR.create_ray_from_two_points(x[0], x[1])[:, 1], rnd(2, 3, lo=-2, hi=2, dtype=torch.float32), 2e-2)
        tri = torch.tensor([[0., 0, 2], [1.5, 0.1, 2.2], [0.2, 1.4, 1.9]], dtype=torch.float32)
        jvp_check(ctx, 'intersect_w_triangle/ray', lambda x: torch.cat([LR.intersect_w_triangle(torch.stack([x[0], x[1] / x[1].norm()]), tri)[0][:, 0].reshape(-1),
                                                                        LR.intersect_w_triangle(torch.stack([x[0], x[1] / x[1].norm()]), tri)[1].reshape(-1)]),
                  torch.tensor([[0.3, 0.3, 0.0], [0.05, 0.02, 1.0]], dtype=torch.float32) + rnd(2, 3, lo=-0.05, hi=0.05, dtype=torch.float32), 3e-2)
        jvp_check(ctx, 'intersect_w_triangle/triangle', lambda t: LR.intersect_w_triangle(torch.tensor([[0.3, 0.3, 0.0], [0.0, 0.0, 1.0]]), t)[0][:, 0].reshape(-1),
                  tri + rnd(3, 3, lo=-0.05, hi=0.05, dtype=torch.float32), 3e-2)
        more_ray_entries(ctx, rnd)
        # ---- colour conversions (away from thresholds)
        col = rnd(1, 3, 2, 2, lo=0.15, hi=0.9, dtype=torch.float32)
        # hue is singular on the grey axis and kinked where two channels tie (arg-max switch, hue wrap): well-separated channels for HSV
        hcol = torch.zeros(1, 3, 2, 2)
        for a_ in range(2):
            for b_ in range(2):
                lo_ = rng.uniform(0.15, 0.3); mid_ = lo_ + rng.uniform(0.12, 0.25); hi_ = mid_ + rng.uniform(0.15, 0.3)
                perm = [lo_, mid_, hi_]
                rng.shuffle(perm)
                hcol[0, :, a_, b_] = torch.tensor(perm)
        hsv_in = CC.rgb_to_hsv(hcol).detach()
        for nm, mdl in (('rgb_2_ycrcb', None), ('ycrcb_2_rgb', None), ('rgb_to_linear_rgb', None), ('linear_rgb_to_rgb', None),
                        ('linear_rgb_to_xyz', None), ('xyz_to_linear_rgb', None), ('rgb_to_hsv', None), ('hsv_to_rgb', None)):
            xin = hcol.clone() if nm == 'rgb_to_hsv' else hsv_in.clone() if nm == 'hsv_to_rgb' else col.clone()
            jvp_check(ctx, 'color/' + nm, lambda x, nm=nm: getattr(CC, nm)(x), xin, 3e-2, h=5e-4 if 'hsv' in nm else None)
        jvp_check(ctx, 'color/srgb_to_lab', lambda x: CC.srgb_to_lab(x), rnd(3, 2, 2, lo=0.15, hi=0.9, dtype=torch.float32), 3e-2)
        # boundary colours: exact black / white / saturated channels are valid inputs and smooth points of these conversions
        # (torch.where back-propagates 0 * d(unselected branch): a power with an infinite slope at 0 turns that into NaN)
        bcol = rnd(1, 3, 3, 3, lo=0.15, hi=0.9, dtype=torch.float32)
        bcol[0, :, 0, 0] = 0.0
        bcol[0, :, 1, 1] = 1.0
        bcol[0, rng.randrange(3), 2, 2] = 0.0
        bcol[0, rng.randrange(3), 0, 2] = 1.0
        for nm in ('rgb_2_ycrcb', 'ycrcb_2_rgb', 'rgb_to_linear_rgb', 'linear_rgb_to_rgb', 'linear_rgb_to_xyz', 'xyz_to_linear_rgb'):
            jvp_check(ctx, 'color/%s/boundary' % nm, lambda x, nm=nm: getattr(CC, nm)(x), bcol.clone(), 3e-2, cls={'boundary': True}, h=2e-4)
        jvp_check(ctx, 'color/srgb_to_lab/boundary', lambda x: CC.srgb_to_lab(x), bcol[0].clone(), 5e-2, cls={'boundary': True}, h=2e-4)
        lab = CC.srgb_to_lab(bcol[0]).detach()
        jvp_check(ctx, 'color/lab_to_srgb/boundary', lambda x: CC.lab_to_srgb(x), lab.clone(), 5e-2, cls={'boundary': True}, h=2e-3)
        # the model run at Chk Float (value + "every local slope on the autograd graph is finite", both branches of each torch.where):
        # wherever the model says the graph is non-singular, autograd must return finite gradients
        if ctx.drv_ok:
            chk_names = ctx.model.ask(['chk_names'])[0].split()
            specials = [0.0, 1.0, 0.0031308, 0.04045, 0.5, 216 / 24389, 6 / 29, 1e-12, 0.25]
            for nm, op, k in (('rgb_2_ycrcb', 'rgb2ycrcb', 3), ('ycrcb_2_rgb', 'ycrcb2rgb', 3), ('linear_rgb_to_xyz', 'lin2xyz', 3),
                              ('xyz_to_linear_rgb', 'xyz2lin', 3), ('srgb_to_lab', 'srgb2lab', 3), ('lab_to_srgb', 'lab2srgb', 3),
                              ('rgb_to_linear_rgb', 'srgb2lin', 1), ('linear_rgb_to_rgb', 'lin2srgb', 1)):
                if op not in chk_names:
                    ctx.alarm('correspondence', 'model driver has no Chk entry for %s' % nm)
                    continue
                pix = [[rng.choice(specials) if rng.random() < 0.6 else rng.uniform(0, 1) for _ in range(3)] for _ in range(6)] + [[0.0] * 3, [1.0] * 3]
                if nm == 'lab_to_srgb':
                    pix = [[rng.choice([0.0, 100.0, 50.0, rng.uniform(0, 100)]), rng.choice([0.0, rng.uniform(-80, 80)]), rng.choice([0.0, rng.uniform(-80, 80)])]
                           for _ in range(8)]
                t = torch.tensor(pix, dtype=torch.float32).T.reshape(3, len(pix), 1).clone().requires_grad_(True)
                inp = t if nm in ('srgb_to_lab', 'lab_to_srgb') else t.unsqueeze(0)
                try:
                    out = getattr(CC, nm)(inp)
                    g, = torch.autograd.grad(out.sum(), t)
                except Exception as e:
                    ctx.violation('color/%s raised %r' % (nm, e), {'entry': nm}, {'entry': 'color/' + nm, 'what': 'raises'})
                    continue
                gp = g.reshape(3, len(pix)).T
                lines = []
                for p_ in pix:
                    for comp in (range(3) if k == 1 else [None]):
                        xs = [p_[comp]] if k == 1 else p_
                        lines.append('chk %d %d %s' % (chk_names.index(op), len(xs), ' '.join(str(f2b(float(np.float32(a)))) for a in xs)))
                outs = ctx.model.ask(lines)
                per = 3 if k == 1 else 1
                for i, p_ in enumerate(pix):
                    oks = []
                    for o in outs[i * per:(i + 1) * per]:
                        v = [b2f(tk) for tk in o.split()]
                        oks += v[1::2]
                    model_ok = all(a == 1.0 for a in oks)
                    fin = bool(torch.isfinite(gp[i]).all())
                    ctx.case(('chk', nm, tuple(p_)), True)
                    ctx.count('chk/%s/%s' % (nm, 'model-nonsingular' if model_ok else 'model-singular'))
                    if model_ok and not fin:
                        ctx.alarm('correspondence', 'color/%s at pixel %r: the model (Chk) says every local slope is finite but autograd returns %r'
                                  % (nm, p_, gp[i].tolist()))
                    if not model_ok:
                        ctx.alarm('proof', 'color/%s at the valid pixel %r: the regenerated model has a singular primitive on its autograd graph '
                                  '(an unclamped power / division inside a torch.where branch)' % (nm, p_))
        # per-pixel colour derivative against the regenerated model
        px = rnd(3, lo=0.15, hi=0.9, dtype=torch.float32)
        for nm, op in (('rgb_2_ycrcb', 'rgb2ycrcb'), ('linear_rgb_to_xyz', 'lin2xyz'), ('xyz_to_linear_rgb', 'xyz2lin')):
            jvp_check(ctx, 'color/%s/pixel' % nm, lambda x, nm=nm: getattr(CC, nm)(x.reshape(1, 3, 1, 1)).reshape(3), px.clone(), 3e-2, 2e-3, M(op))
        # ---- losses
        a, b = rnd(1, 1, 5, 6), rnd(1, 1, 5, 6)
        jvp_check(ctx, 'wrapped_mean_squared_error', lambda x: LT.wrapped_mean_squared_error(x, b * 3).reshape(1), a * 3, 1e-6, 1e-9,
                  (lambda xs, vs: dual_model(ctx, names, 'wrapped_mse')(xs + (b * 3).reshape(-1).tolist(), vs + [0.0] * b.numel())) if ctx.drv_ok else None)
        jvp_check(ctx, 'total_variation_loss', lambda x: LT.total_variation_loss(x).reshape(1), a, 1e-6, 1e-9, M('tv', (5, 6)))
        jvp_check(ctx, 'mse', lambda x: torch.nn.MSELoss()(x, b).reshape(1), a, 1e-6, 1e-9,
                  (lambda xs, vs: dual_model(ctx, names, 'mse')(xs + b.reshape(-1).tolist(), vs + [0.0] * b.numel())) if ctx.drv_ok else None)
        img = rnd(3, 10, 12, lo=0.1, hi=0.9, dtype=torch.float32)
        ml = LW.multiplane_loss(img, rnd(10, 12, lo=0, hi=1, dtype=torch.float32), number_of_planes=2, target_blur_size=3)
        tg = ml.get_targets()[0][0]
        jvp_check(ctx, 'multiplane_loss', lambda x: ml(x, tg, plane_id=0).reshape(1), rnd(3, 10, 12, lo=0.1, hi=0.9, dtype=torch.float32), 3e-2)
        more_colour_and_loss_entries(ctx, rnd)
        jvp_check(ctx, 'phase_gradient', lambda x: LW.phase_gradient()(x).reshape(1), rnd(8, 8, lo=0, hi=6, dtype=torch.float32), 3e-2)
        jvp_check(ctx, 'speckle_contrast', lambda x: LW.speckle_contrast(kernel_size=3)(x).reshape(1), rnd(8, 8, lo=0.2, hi=1.0, dtype=torch.float32), 5e-2)
    __import__('harness.props.genobjects', fromlist=['x']).check_mesh_object(ctx)   # regenerated planar_mesh OBJECT vs /repo (work package 13)
    __import__('harness.props.genobjects_inst', fromlist=['x']).check_mesh_instance(ctx)   # planar_mesh INSTANTIATED with the regenerated batched geometry, at Float, every call vs /repo (work package 16)


def object_grad_check(ctx, name, param, forward, tol_fd, h, cls=None, rounds=2):
    """`param` is a leaf owned by a long-lived library object and `forward()` evaluates that object: preview under no_grad, gradient by autograd,
    finite differences by updating `param` in place (no_grad, as an optimiser step does), then a step and the same again."""
    rng = ctx.rng
    for rd in range(rounds):
        try:
            with torch.no_grad():
                forward()
            y = forward()
        except Exception as e:
            ctx.violation('%s raised %r' % (name, e), {'entry': name}, {'entry': name, 'what': 'raises'})
            return
        ctx.count('entry/' + name)
        ctx.case((name, rd, float(param.detach().abs().sum())), True, None)
        w = torch.tensor(np.array([rng.gauss(0, 1) for _ in range(y.numel())]).reshape(tuple(y.shape)), dtype=y.dtype)
        obj = (y * w).sum()
        if not obj.requires_grad:
            ctx.violation('%s (round %d): the output does not depend on the learned leaf through autograd (no grad_fn)' % (name, rd),
                          {'entry': name, 'round': rd}, dict(cls or {}, entry=name, what='no_grad'))
            return
        g, = torch.autograd.grad(obj, param, allow_unused=True)
        if g is None or not torch.isfinite(g).all():
            ctx.violation('%s (round %d): autograd returns %s for the learned leaf' % (name, rd, 'no gradient' if g is None else 'NaN/Inf'),
                          {'entry': name, 'round': rd}, dict(cls or {}, entry=name, what='no_grad' if g is None else 'nonfinite_grad'))
            return
        v = torch.tensor(np.array([rng.gauss(0, 1) for _ in range(param.numel())]).reshape(tuple(param.shape)), dtype=param.dtype)
        ad = float((g * v).sum())

        def at(t):
            with torch.no_grad():
                param.add_(t * v)
                val = float((forward() * w).sum())
                param.sub_(t * v)
            return val
        fd, fd_half = (at(h) - at(-h)) / (2 * h), (at(0.5 * h) - at(-0.5 * h)) / h
        if abs(fd - fd_half) > max(10 * tol_fd, 0.2) * max(1.0, abs(fd_half)):
            ctx.count('skipped_near_nonsmooth_point/' + name)
        elif abs(ad - fd) > tol_fd * max(1.0, abs(fd), abs(ad)):
            ctx.violation('%s (round %d): autograd directional derivative %.8g differs from the central finite difference %.8g' % (name, rd, ad, fd),
                          {'entry': name, 'round': rd, 'autograd': ad, 'finite_difference': fd}, dict(cls or {}, entry=name, what='grad_mismatch'))
            return
        with torch.no_grad():
            param.add_(0.01 * v)          # the optimiser's step


def more_ray_entries(ctx, rnd):
    """intersect_w_circle (ray, plane points; inside and outside the radius), planar_mesh.mirror w.r.t. the mesh heights (flat and
    rough meshes, tilted and not), the two luminous-angle generators w.r.t. origin / centre (torch reseeded before every evaluation)"""
    import odak.learn.raytracing as LR
    from odak.learn.raytracing.mesh import planar_mesh
    rng = ctx.rng
    F = torch.float32
    ray0 = torch.tensor([[0.3, 0.3, 0.0], [0.05, 0.02, 1.0]], dtype=F)
    for tag, radius, tilt in (('inside', 1.5, [10., -15., 5.]), ('outside', 0.05, [10., -15., 5.]), ('inside/untilted', 2.0, [0., 0., 0.])):
        circ = LR.define_circle(torch.tensor([0.1, 0.2, 2.0]), radius, torch.tensor(tilt))

        def f_ray(x, circ=circ):
            n, d = LR.intersect_w_circle(torch.stack([x[0], x[1] / x[1].norm()]), circ)
            return torch.cat([n[0].reshape(-1), d.reshape(-1)])

        def f_plane(t, circ=circ):
            n, d = LR.intersect_w_circle(torch.stack([ray0[0], ray0[1] / ray0[1].norm()]), [t, circ[1], circ[2]])
            return torch.cat([n.reshape(-1), d.reshape(-1)])
        jvp_check(ctx, 'intersect_w_circle/ray/' + tag, f_ray, ray0 + rnd(2, 3, lo=-0.05, hi=0.05, dtype=F), 3e-2, cls={'circle': tag})
        jvp_check(ctx, 'intersect_w_circle/plane/' + tag, f_plane, circ[0].clone() + rnd(3, 3, lo=-0.05, hi=0.05, dtype=F), 3e-2, cls={'circle': tag}, h=1e-2)
    # planar_mesh.mirror: reflected rays (hit points and directions) as a function of the node heights
    for tag, nodes, tilt, rough in (('flat', [3, 3], [0., 0., 0.], 0.0), ('rough', [3, 4], [0., 0., 0.], 0.08), ('rough/tilted', [4, 3], [12., -8., 20.], 0.08),
                                    ('flat/2x2', [2, 2], [5., 5., 0.], 0.0)):
        size, offset = [2.0, 3.0], [0.3, -0.2, 4.0]
        n0, n1 = nodes
        # rays aimed (in the mesh frame) at the interior of the lower-left triangle of two squares, from 3 units in front of the mesh
        xs, ys = np.linspace(-size[0] / 2, size[0] / 2, n0), np.linspace(-size[1] / 2, size[1] / 2, n1)
        rays = []
        for (i, j) in ((0, 0), (n0 - 2, n1 - 2)):
            tx, ty = xs[i] + 0.3 * (xs[i + 1] - xs[i]), ys[j] + 0.3 * (ys[j + 1] - ys[j])
            o = np.array([tx + rng.uniform(-0.5, 0.5), ty + rng.uniform(-0.5, 0.5), -3.0])
            d = np.array([tx, ty, 0.0]) - o
            rays.append([o, d / np.linalg.norm(d)])
        rays = np.array(rays)
        mesh0 = planar_mesh(size=torch.tensor(size), number_of_meshes=torch.tensor(nodes), angles=torch.tensor(tilt), offset=torch.tensor(offset))
        from odak.learn.tools import rotate_points
        ro, *_ = rotate_points(torch.tensor(rays[:, 0], dtype=F), angles=torch.tensor(tilt))
        rd, *_ = rotate_points(torch.tensor(rays[:, 1], dtype=F), angles=torch.tensor(tilt))
        trays = torch.stack([ro + torch.tensor(offset), rd], dim=1).detach()

        def f_mesh(hgt, nodes=nodes, tilt=tilt, trays=trays, size=size, offset=offset):
            mesh = planar_mesh(size=torch.tensor(size), number_of_meshes=torch.tensor(nodes), angles=torch.tensor(tilt), offset=torch.tensor(offset), heights=hgt)
            out, normals = mesh.mirror(trays)
            if out.shape[0] != trays.shape[0]:
                raise RuntimeError('mirror returned %d rays for %d rays aimed inside the mesh' % (out.shape[0], trays.shape[0]))
            return torch.cat([out.reshape(-1), normals[:, 1].reshape(-1)])
        jvp_check(ctx, 'planar_mesh.mirror/heights/' + tag, f_mesh, rnd(n0, n1, 1, lo=-1.0, hi=1.0, dtype=F) * rough, 3e-2, cls={'mesh': tag}, h=5e-3)
        # the same, the way a learning loop uses it: ONE mesh object, whose own `heights` leaf is learned; a preview under no_grad, the gradient,
        # an update in place (as an optimiser step does), another preview, the gradient again -- each gradient against finite differences taken
        # on the same object
        mesh = planar_mesh(size=torch.tensor(size), number_of_meshes=torch.tensor(nodes), angles=torch.tensor(tilt), offset=torch.tensor(offset),
                           heights=(rnd(n0, n1, 1, lo=-1.0, hi=1.0, dtype=F) * rough).clone())

        def fwd(mesh=mesh, trays=trays):
            out, normals = mesh.mirror(trays)
            if out.shape[0] != trays.shape[0]:
                raise RuntimeError('mirror returned %d rays for %d rays aimed inside the mesh' % (out.shape[0], trays.shape[0]))
            return torch.cat([out.reshape(-1), normals[:, 1].reshape(-1)])
        object_grad_check(ctx, 'planar_mesh.mirror/own heights, one object/' + tag, mesh.heights, fwd, 3e-2, 5e-3, cls={'mesh': tag})
    # luminous-angle generators: rays [n x 2 x 3] as a function of the origin / centre; the random cone directions are the same in every evaluation
    for tag, tilt, limit in (('tilted', [20., -35., 50.], 30.0), ('untilted', [0., 0., 0.], 75.0)):
        seed = rng.randrange(10 ** 6)

        def f_point(x, seed=seed, tilt=tilt, limit=limit):
            torch.manual_seed(seed)
            return LR.create_ray_from_point_w_luminous_angle(x, 4, torch.tensor(tilt), limit).reshape(-1)

        def f_grid(x, seed=seed, tilt=tilt, limit=limit):
            torch.manual_seed(seed)
            return LR.create_ray_from_grid_w_luminous_angle(x, [1.5, 2.5], [2, 3], torch.tensor(tilt), 2, limit).reshape(-1)
        jvp_check(ctx, 'create_ray_from_point_w_luminous_angle/origin/' + tag, f_point, rnd(3, lo=-2, hi=2, dtype=F), 2e-2, cls={'tilt': tag})
        jvp_check(ctx, 'create_ray_from_grid_w_luminous_angle/centre/' + tag, f_grid, rnd(3, lo=-2, hi=2, dtype=F), 2e-2, cls={'tilt': tag})


def more_colour_and_loss_entries(ctx, rnd):
    """display_color_hvs stages (primaries -> LMS -> third stage, LMS -> primaries), multi_scale_total_variation_loss, perceptual_multiplane_loss"""
    import odak.learn.tools as LT
    import odak.learn.wave as LW
    import odak.learn.perception.color_conversion as CC
    rng = ctx.rng
    F = torch.float32
    for P in (3, 4):
        hvs = CC.display_color_hvs(read_spectrum='tensor', primaries_spectrum=rnd(P, 301, lo=0.0, hi=1.0, dtype=F))
        for B in (1, 2):
            x0 = rnd(B, P, 3, 2, lo=0.05, hi=0.95, dtype=F)
            if P != 3:
                try:
                    hvs.primaries_to_lms(x0)
                except RuntimeError:
                    ctx.count('rejected/display_color_hvs.primaries_to_lms with %d primaries (reshape error)' % P)
                    continue
            jvp_check(ctx, 'display_color_hvs.primaries_to_lms/%d primaries' % P, lambda x: hvs.primaries_to_lms(x), x0, 3e-2, cls={'primaries': P})
        jvp_check(ctx, 'display_color_hvs.lms_to_primaries/%d primaries' % P, lambda x: hvs.lms_to_primaries(x), rnd(2, 3, 2, 3, lo=0.5, hi=30.0, dtype=F), 3e-2,
                  cls={'primaries': P}, h=2e-2)
        jvp_check(ctx, 'display_color_hvs.second_to_third_stage', lambda x: hvs.second_to_third_stage(x), rnd(2, 3, 2, 3, lo=0.5, hi=30.0, dtype=F), 3e-2, h=2e-2)
        if P == 3:
            gt = rnd(1, 3, 3, 2, lo=0.05, hi=0.95, dtype=F)
            jvp_check(ctx, 'display_color_hvs.__call__', lambda x: hvs(x, gt).reshape(1), rnd(1, 3, 3, 2, lo=0.05, hi=0.95, dtype=F), 3e-2)
    for tag, shape, levels in (('[1x3xmxn]', (1, 3, 8, 12), 3), ('[3xmxn]', (3, 8, 8), 2), ('[mxn]', (12, 8), 3), ('[mxn]/1 level', (5, 7), 1)):
        jvp_check(ctx, 'multi_scale_total_variation_loss/' + tag, lambda x, levels=levels: LT.multi_scale_total_variation_loss(x, levels=levels).reshape(1),
                  rnd(*shape), 1e-6, cls={'frame': tag})
    # perceptual_multiplane_loss, base terms (the additional perceptual metrics need packages that are not installed here);
    # image and target are kept apart so that no L1 term sits on its kink
    img = rnd(3, 10, 12, lo=0.1, hi=0.9, dtype=F)
    depth = rnd(10, 12, lo=0, hi=1, dtype=F)
    for scheme in ('defocus', 'naive'):
        for reduction in ('mean', 'sum'):
            pl = LW.perceptual_multiplane_loss(img, depth, number_of_planes=3, target_blur_size=3, scheme=scheme, additional_loss_weights={}, reduction=reduction)
            tgs = pl.get_targets()[0]
            for plane_id in (None, 0, 2):
                tg = (tgs[0] if plane_id is None else tgs[plane_id]) * 0.4 + 0.05
                x0 = rnd(3, 10, 12, lo=0.55, hi=0.95, dtype=F)
                f = lambda x, pl=pl, tg=tg, plane_id=plane_id: pl(x, tg, plane_id=plane_id).reshape(1)
                # float32 objective of size ~ number of pixels under 'sum': a step of 1e-2 keeps the rounding noise of the difference
                # quotient below the tolerance (the terms are quadratic / linear between kinks, image - target >= 0.1 everywhere)
                jvp_check(ctx, 'perceptual_multiplane_loss/%s/%s/plane_id=%s' % (scheme, reduction, plane_id), f, x0, 3e-2,
                          cls={'scheme': scheme, 'reduction': reduction}, h=1e-2)


def replay(ctx, rep):
    print('C05 replays are re-observations: run ./check C05 (entry %s)' % rep.get('replay', {}).get('entry'))
    return True
