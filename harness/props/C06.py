"""C06 – propagator forward model: history independence and the documented model.
Op-sequence differential testing: random propagator configurations and random sequences of __call__ / reconstruct; every result
and every generated_kernels flag is compared with the Lean state machine (OdakModel/Propagator.lean) and with a freshly built
propagator; failing sequences are shrunk to a minimal op list."""
import logging
import math
import warnings
import numpy as np
import torch
from ..lib.core import f2b, b2f
from . import wavelib as W

logging.disable(logging.WARNING)
warnings.filterwarnings('ignore')

TRUSTED = ['cached kernels are stored as complex64 (rounding of the cache is a float effect: tolerance 5e-4)',
           'zero_pad / crop_center enter the model through the regenerated index maps; FFT = model DFT (validated)']
ASSUMPTIONS = ['transfer-function methods (AS, TF, BL); impulse-response propagators are covered by the any-kernel theorems only']
METHODS = [('as', 'Angular Spectrum'), ('tf', 'Transfer Function Fresnel'), ('bl', 'Bandlimited Angular Spectrum')]


def make_cfg(rng):
    h, w = rng.choice([(5, 5), (6, 6), (5, 7), (7, 6), (8, 8), (6, 5)])
    mi = rng.randrange(3)
    nch, ndep = rng.randint(1, 3), rng.randint(1, 3)
    lams = [0.5 * rng.uniform(0.8, 1.3) for _ in range(nch)]
    dx = max(lams) / math.sqrt(2) * rng.uniform(1.05, 3.0)
    cfg = {'back': rng.random() < 0.5, 'method': mi, 'h': h, 'w': w, 'dx': dx, 'z0': rng.uniform(0.5, 3.0), 'offset': rng.uniform(-1, 1),
           'lams': lams, 'dists': [0.0 if rng.random() < 0.25 else rng.uniform(-3, 3) for _ in range(ndep)],   # a plane AT the hologram plane is a valid plane
           'aperture': rng.choice(['binary_default', 'binary_random', 'nonbinary'])}
    return cfg


def build(cfg, ap):
    import odak.learn.wave as LW
    return LW.propagator(resolution=[cfg['h'], cfg['w']], wavelengths=cfg['lams'], pixel_pitch=cfg['dx'], number_of_frames=1,
                         number_of_depth_layers=len(cfg['dists']), propagation_type=METHODS[cfg['method']][1],
                         propagator_type='back and forth' if cfg['back'] else 'forward', back_and_forth_distance=cfg['z0'],
                         image_location_offset=cfg['offset'], distances=torch.tensor(cfg['dists'], dtype=torch.float32),
                         aperture=ap, device=torch.device('cpu'))


def aperture_of(cfg, rng):
    h, w = cfg['h'], cfg['w']
    if cfg['aperture'] == 'binary_default':
        return None
    if cfg['aperture'] == 'binary_random':
        return torch.tensor([[1.0 if rng.random() < 0.7 else 0.0 for _ in range(w)] for _ in range(h)])
    return torch.tensor([[rng.uniform(0.2, 1.0) for _ in range(w)] for _ in range(h)])


def model_line(cfg, apgrid, ops):
    h, w = cfg['h'], cfg['w']
    toks = ['prop_seq', int(cfg['back']), cfg['method'], h, w, f2b(cfg['dx']), f2b(cfg['z0']), f2b(cfg['offset']),
            len(cfg['lams'])] + [f2b(l) for l in cfg['lams']] + [len(cfg['dists'])] + [f2b(float(np.float32(d))) for d in cfg['dists']]
    toks += [f2b(float(v)) for v in np.asarray(apgrid, dtype=np.float64).reshape(-1)]
    toks.append(len(ops))
    parts = [' '.join(str(t) for t in toks)]
    for (d, c, u) in ops:
        parts.append('%d %d %s' % (d, c, W.enc_field(u)))
    return ' '.join(parts)


def run_impl(cfg, ap, ops):
    """returns per-op (flag_before, output) from ONE propagator object, and outputs of fresh objects"""
    p = build(cfg, ap)
    res = []
    for (d, c, u) in ops:
        flag = bool(p.generated_kernels[d, c])
        out = p(torch.from_numpy(u).to(torch.complex64), channel_id=c, depth_id=d).detach().numpy().astype(np.complex128)
        res.append((flag, out))
    return res, p


def run(ctx):
    rng = ctx.rng
    ctx.rule = ('random propagator configurations (forward / back and forth, AS/TF/BL, 1-3 channels, 1-3 planes, even and odd resolutions, '
                'default / random binary / non-binary apertures) x random sequences of 1-12 calls with repeated and permuted (depth, channel); '
                'non-trivial = at least one repeated key; distinct by configuration and key sequence')
    N = ctx.n(25, 300)
    for it in range(N):
        cfg = make_cfg(rng)
        h, w = cfg['h'], cfg['w']
        ap = aperture_of(cfg, rng)
        nops = rng.randint(1, 12)
        keys = [(rng.randrange(len(cfg['dists'])), rng.randrange(len(cfg['lams']))) for _ in range(nops)]
        ops = [(d, c, W.rand_field(rng, h, w, 'gauss')) for (d, c) in keys]
        rec = {'cfg': {k: v for k, v in cfg.items()}, 'keys': keys, 'seed': ctx.seed, 'iteration': it}
        repeated = len(set(keys)) < len(keys)
        ctx.case((cfg['back'], cfg['method'], h, w, tuple(keys), cfg['aperture']), repeated, rec if it < 3 else None)
        ctx.count('type/%s/%s/%s' % ('back_and_forth' if cfg['back'] else 'forward', METHODS[cfg['method']][0], cfg['aperture']))
        ctx.traces += 1
        try:
            res, p = run_impl(cfg, ap, ops)
        except Exception as e:
            ctx.violation('propagator raised %r' % e, rec, {'what': 'raises'})
            continue
        # (1) history independence against fresh objects
        bad = None
        for k, (d, c, u) in enumerate(ops):
            fresh = build(cfg, ap)(torch.from_numpy(u).to(torch.complex64), channel_id=c, depth_id=d).detach().numpy().astype(np.complex128)
            scale = max(1.0, float(np.max(np.abs(fresh))))
            if W.maxdiff(res[k][1], fresh) > 5e-4 * scale:
                bad = k
                break
        if bad is not None:
            # shrink: shortest prefix + the failing op
            small = shrink(cfg, ap, ops, bad)
            ctx.violation('propagator result depends on the call history: op %d of keys %s differs from a fresh propagator (minimal sequence %s)'
                          % (bad, keys, [(d, c) for (d, c, _) in small]), dict(rec, minimal=[(d, c) for (d, c, _) in small]),
                          {'what': 'history', 'type': 'back_and_forth' if cfg['back'] else 'forward'})
        # (2) the model state machine: outputs and cache decisions
        if ctx.drv_ok:
            apgrid = p.aperture.numpy()
            line = model_line(cfg, apgrid, ops)
            toks = ctx.model.ask([line])[0].split()
            stride = 1 + 2 * h * w
            for k in range(len(ops)):
                flag = toks[k * stride] == '1'
                mo = W.dec_field(' '.join(toks[k * stride + 1:(k + 1) * stride]), h, w)
                if flag != res[k][0]:
                    ctx.alarm('correspondence', 'cache decision differs at op %d of %s: model %s, implementation %s' % (k, keys, flag, res[k][0]))
                    break
                scale = max(1.0, float(np.max(np.abs(mo))))
                if W.maxdiff(res[k][1], mo) > 2e-3 * scale:
                    if cfg['method'] == 2 and not all(W.bl_margin_ok(2 * h, 2 * w, cfg['dx'], lam, z, 'torch')
                                                     for lam in cfg['lams'] for z in cfg['dists'] + [cfg['z0']]):
                        continue
                    ctx.alarm('correspondence', 'op %d of %s (%s): implementation and model differ by %.3g'
                              % (k, keys, {kk: cfg[kk] for kk in ('back', 'method', 'h', 'w', 'aperture')}, W.maxdiff(res[k][1], mo)))
                    break
        # (3) documented model on the implementation: pad, FFT, kernel once, aperture once, inverse, crop
        import odak.learn.wave as LW
        import odak.learn.tools as LT
        seen_keys = set()
        for k_op, (d, c, u) in enumerate(ops):
            if (d, c) in seen_keys:
                continue
            seen_keys.add((d, c))
            lam = cfg['lams'][c]
            z = float(np.float32(cfg['dists'][d]))
            if cfg['back']:
                K = lambda zz: LW.get_propagation_kernel(nu=2 * h, nv=2 * w, dx=cfg['dx'], wavelength=lam, distance=zz, propagation_type=METHODS[cfg['method']][1])
                H = K(cfg['z0']) * K(-(cfg['z0'] + cfg['offset'] - z))
            else:
                H = LW.get_propagation_kernel(nu=2 * h, nv=2 * w, dx=cfg['dx'], wavelength=lam, distance=z, propagation_type=METHODS[cfg['method']][1])
            H = H.reshape(2 * h, 2 * w)
            up = LT.zero_pad(torch.from_numpy(u).to(torch.complex64))
            doc = torch.fft.ifft2(torch.fft.ifftshift(H * p.aperture * torch.fft.fftshift(torch.fft.fft2(up))))
            doc = LT.crop_center(doc).numpy().astype(np.complex128)
            scale = max(1.0, float(np.max(np.abs(doc))))
            if W.maxdiff(res[k_op][1], doc) > 5e-4 * scale:
                ctx.violation('propagator.__call__ differs from the documented model (kernel once, aperture once) by %.3g with a %s aperture'
                              % (W.maxdiff(res[k_op][1], doc), cfg['aperture']) + (' for a plane at distance 0' if z == 0.0 else ''), rec,
                              {'what': 'documented_model', 'aperture': cfg['aperture'], 'zero_distance': z == 0.0})
        # (4) back and forth = forward by the net distance (unit-modulus additive kernels: AS, TF)
        d, c, u = ops[0]
        if cfg['back'] and cfg['method'] in (0, 1):
            cfg2 = dict(cfg, back=False, dists=[float(np.float32(x)) - cfg['offset'] for x in cfg['dists']])
            fwd = build(cfg2, ap)(torch.from_numpy(u).to(torch.complex64), channel_id=c, depth_id=d).detach().numpy().astype(np.complex128)
            if W.maxdiff(res[0][1], fwd) > 4e-3 * scale:
                ctx.violation("'back and forth' differs from one forward propagation by the net distance (%.3g)" % W.maxdiff(res[0][1], fwd), rec,
                              {'what': 'back_and_forth_net'})
    # ---------------- SI units and closely spaced wavelengths (a spectrum sampled every few nanometres): the code is meant to be unit-free, an absolute
    # tolerance or rounding to some decimal somewhere is not; every (depth, channel) result must be what a fresh propagator returns for it
    for _ in range(ctx.n(3, 12)):
        h, w = rng.choice([(6, 6), (5, 7), (8, 8)])
        wl = rng.choice([[510e-9, 515e-9, 520e-9], [639e-9, 515e-9, 473e-9], [532e-9, 532.5e-9], [1550e-9, 1551e-9, 1552e-9, 1553e-9]])
        cfgp = {'back': rng.random() < 0.5, 'method': rng.randrange(3), 'h': h, 'w': w, 'dx': 8e-6, 'z0': 2e-3, 'offset': 1e-4,
                'lams': list(wl), 'dists': [rng.choice([-1e-3, 5e-4, 1e-3, 0.0]) for _ in range(2)], 'aperture': 'binary_default'}
        keys = [(d, c) for d in range(2) for c in range(len(wl))]
        rng.shuffle(keys)
        keys = keys + keys[:3]
        ops = [(d, c, W.rand_field(rng, h, w, 'gauss')) for (d, c) in keys]
        ctx.case(('si_units', cfgp['back'], cfgp['method'], h, w, tuple(wl), tuple(keys)), True)
        ctx.count('si_units/%d_channels' % len(wl))
        ctx.traces += 1
        try:
            res, _p = run_impl(cfgp, None, ops)
        except Exception as e:
            ctx.violation('propagator raised %r (SI units)' % e, {'cfg': cfgp}, {'what': 'raises'})
            continue
        for k_, (d, c, u) in enumerate(ops):
            fresh = build(cfgp, None)(torch.from_numpy(u).to(torch.complex64), channel_id=c, depth_id=d).detach().numpy().astype(np.complex128)
            if W.maxdiff(res[k_][1], fresh) > 5e-4 * max(1.0, float(np.max(np.abs(fresh)))):
                ctx.violation('propagator (wavelengths %s m): call %d for (depth %d, channel %d) of the sequence %s differs from a fresh propagator by %.3g'
                              % (wl, k_, d, c, keys, W.maxdiff(res[k_][1], fresh)), {'cfg': cfgp, 'keys': keys},
                              {'what': 'history', 'type': 'back_and_forth' if cfgp['back'] else 'forward', 'units': 'SI'})
                break

    # ---------------- fields with leading (batch) dimensions [k x h x w], [1 x k x h x w]: zero_pad / custom / crop_center accept them; the result must be
    # the documented model applied to every 2-D slice (what a fresh propagator returns for each slice).  Rejected layouts are not judged.
    for _ in range(ctx.n(6, 40)):
        cfg = make_cfg(rng)
        h, w = cfg['h'], cfg['w']
        ap = aperture_of(cfg, rng)
        kk = rng.choice([2, 3])
        lead = rng.random() < 0.3
        d, c = rng.randrange(len(cfg['dists'])), rng.randrange(len(cfg['lams']))
        us = np.stack([W.rand_field(rng, h, w, 'gauss') for _ in range(kk)])
        rec = {'cfg': {k_: v for k_, v in cfg.items()}, 'stack': kk, 'leading_one': lead, 'key': (d, c)}
        ctx.case(('batched_field', cfg['back'], cfg['method'], h, w, kk, lead), True)
        ctx.count('batched_field/k=%d' % kk)
        ctx.traces += 1
        try:
            p = build(cfg, ap)
            t = torch.from_numpy(us[None] if lead else us).to(torch.complex64)
            first = p(t, channel_id=c, depth_id=d).detach().numpy().astype(np.complex128)
            second = p(t, channel_id=c, depth_id=d).detach().numpy().astype(np.complex128)
        except Exception:
            ctx.count('batched_field/rejected-by-implementation')
            continue
        first, second = first.reshape(kk, h, w), second.reshape(kk, h, w)
        for i in range(kk):
            single = build(cfg, ap)(torch.from_numpy(us[i]).to(torch.complex64), channel_id=c, depth_id=d).detach().numpy().astype(np.complex128)
            scale = max(1.0, float(np.max(np.abs(single))))
            if W.maxdiff(first[i], single) > 5e-4 * scale or W.maxdiff(second[i], single) > 5e-4 * scale:
                ctx.violation('propagator.__call__ on a stack of %d fields: slice %d differs from the same field propagated alone by a fresh propagator '
                              '(first call %.3g, repeated call %.3g)' % (kk, i, W.maxdiff(first[i], single), W.maxdiff(second[i], single)),
                              dict(rec, slice=i), {'what': 'batched_field', 'type': 'back_and_forth' if cfg['back'] else 'forward'})
                break

    # ---------------- the plane and the channel named in the other ordinary ways: a negative index (counted from the last plane, as for the lists and tensors
    # the propagator indexes with it), a NumPy integer, a 0-d integer tensor - the same plane, the same result
    for _ in range(ctx.n(4, 24)):
        cfg = make_cfg(rng)
        while len(cfg['dists']) < 2 or len(set(np.float32(cfg['dists']).tolist())) < len(cfg['dists']):
            cfg = make_cfg(rng)
        ap = aperture_of(cfg, rng)
        h, w = cfg['h'], cfg['w']
        nd, nc = len(cfg['dists']), len(cfg['lams'])
        u = torch.from_numpy(W.rand_field(rng, h, w, 'gauss')).to(torch.complex64)
        for d in range(nd):
            for c in range(nc):
                want = build(cfg, ap)(u, channel_id=c, depth_id=d).detach().numpy().astype(np.complex128)
                scale = max(1.0, float(np.max(np.abs(want))))
                for what, dd, cc in (('negative depth index', d - nd, c), ('negative channel index', d, c - nc), ('NumPy integers', np.int64(d), np.int32(c)),
                                     ('0-d integer tensors', torch.tensor(d), torch.tensor(c)), ('negative NumPy integer for the plane', np.int64(d - nd), c)):
                    ctx.case(('id_types', cfg['back'], cfg['method'], h, w, d, c, what), True)
                    ctx.count('plane_and_channel_named_by/' + what)
                    ctx.traces += 1
                    try:
                        pobj = build(cfg, ap)
                        got = pobj(u, channel_id=cc, depth_id=dd).detach().numpy().astype(np.complex128)
                        again = pobj(u, channel_id=c, depth_id=d).detach().numpy().astype(np.complex128)
                    except Exception:
                        ctx.count('plane_and_channel_named_by/rejected: ' + what)
                        continue
                    if got.shape != want.shape or W.maxdiff(got, want) > 5e-4 * scale or W.maxdiff(again, want) > 5e-4 * scale:
                        ctx.violation('propagator(field, channel_id=%r, depth_id=%r) [%s] on a propagator with %d planes and %d channels differs from plane %d, channel %d '
                                      'of a fresh propagator (max difference %.3g; the plain call afterwards on the same object: %.3g)'
                                      % (cc, dd, what, nd, nc, d, c, W.maxdiff(got, want), W.maxdiff(again, want)),
                                      {'cfg': {k_: v for k_, v in cfg.items()}, 'depth': d, 'channel': c, 'named_by': what},
                                      {'what': 'id_types', 'named_by': what, 'type': 'back_and_forth' if cfg['back'] else 'forward'})
                        break
    # ---------------- reconstruct vs per-call results, before and after other calls
    import odak.learn.wave as LW
    for _ in range(ctx.n(4, 30)):
        cfg = make_cfg(rng)
        cfg['aperture'] = 'binary_default'
        h, w = cfg['h'], cfg['w']
        p = build(cfg, None)
        ph = torch.rand(1, h, w) * 6.28
        r1 = p.reconstruct(ph, get_complex=True).numpy()
        r2 = p.reconstruct(ph, get_complex=True).numpy()
        fresh = build(cfg, None).reconstruct(ph, get_complex=True).numpy()
        ctx.case(('reconstruct', cfg['back'], cfg['method'], h, w), True)
        ctx.traces += 1
        if not (np.allclose(r1, fresh, atol=5e-4) and np.allclose(r2, fresh, atol=5e-4)):
            ctx.violation('propagator.reconstruct depends on the call history (second call differs from a fresh object)',
                          {'cfg': cfg}, {'what': 'history', 'fn': 'reconstruct'})


    __import__('harness.props.genobjects', fromlist=['x']).check_propagator_object(ctx)   # regenerated propagator OBJECT vs /repo (work package 13)
    __import__('harness.props.genobjects_inst', fromlist=['x']).check_propagator_instance(ctx)   # the object INSTANTIATED with the grid model, at Float, every call vs /repo (work package 16)


def shrink(cfg, ap, ops, bad):
    """smallest subsequence ending in ops[bad] that still differs from a fresh object"""
    target = ops[bad]
    prefix = list(ops[:bad])
    changed = True
    while changed:
        changed = False
        for i in range(len(prefix)):
            cand = prefix[:i] + prefix[i + 1:]
            res, _ = run_impl(cfg, ap, cand + [target])
            fresh = build(cfg, ap)(torch.from_numpy(target[2]).to(torch.complex64), channel_id=target[1], depth_id=target[0]).detach().numpy()
            if W.maxdiff(res[-1][1], fresh.astype(np.complex128)) > 5e-4 * max(1.0, float(np.max(np.abs(fresh)))):
                prefix = cand
                changed = True
                break
    return prefix + [target]


def replay(ctx, rep):
    import random
    r = rep['replay']
    cfg = r['cfg']
    rng = random.Random(0)
    ap = aperture_of(cfg, rng)
    keys = [tuple(k) for k in r.get('minimal', r['keys'])]
    ops = [(d, c, W.rand_field(rng, cfg['h'], cfg['w'], 'gauss')) for (d, c) in keys]
    res, p = run_impl(cfg, ap, ops)
    d, c, u = ops[-1]
    fresh = build(cfg, ap)(torch.from_numpy(u).to(torch.complex64), channel_id=c, depth_id=d).detach().numpy()
    diff = W.maxdiff(res[-1][1], fresh.astype(np.complex128))
    print('keys', keys, 'difference to a fresh propagator on the last call: %.3g' % diff)
    return diff <= 5e-4 * max(1.0, float(np.max(np.abs(fresh))))
