"""Executable tie of lean/OdakModel/Generated/Defocus.lean (the output of harness/translate/defocus.py): the regenerated definitions are
evaluated at Float by the driver (lean/OdakModel/Exec/OpsGenDefocus.lean) and compared with the real code:

  gd_gauss   `generate_2d_gaussian([n, m], [s0, s1])`, every element (odd, even and 1-sample sides; zero, integer and fractional sigmas)
  gd_blur    `target_blur_size` after `__init__` of both loss classes
  gd_kernel  the kernels the real `add_defocus_blur` hands to `conv2d` (observed by wrapping `torch.nn.functional.conv2d` while the
             object is built), pair of planes by pair of planes
  gd_pixel   `get_targets()[0][i, ch, y, x]` of `multiplane_loss` / `perceptual_multiplane_loss` built with `scheme = 'defocus'`, at
             corner, border and interior pixels, from the in-focus targets / masks of the same object built with `scheme = 'none'`
             (planes that stay empty - guard false - included)

and the conclusion of theorem C16_defocus_keeps_infocus_pixels is monitored on the real kernels: in IEEE arithmetic the off-centre weights
of the i = j kernel (sigma floor 1e-5) underflow to exactly 0, so the centre weight is exactly 1.
A disagreement is a broken correspondence (translator or model), reported as an alarm."""
import logging
import warnings
import numpy as np
import torch
from ..lib.core import f2b, b2f

logging.disable(logging.WARNING)
warnings.filterwarnings('ignore')


def floats(line):
    try:
        return np.array([b2f(t) for t in line.split()], dtype=np.float64)
    except ValueError:
        return np.array([])


def close(got, want, tol):
    if got.shape != want.shape:
        return False
    nan = np.isnan(want)
    if not np.array_equal(nan, np.isnan(got)):
        return False
    scale = max(1.0, float(np.max(np.abs(want[~nan]))) if (~nan).any() else 1.0)
    return bool(np.all(np.abs(got[~nan] - want[~nan]) <= tol * scale))


def build(cls_name, image, depth, **kw):
    import odak.learn.wave as LW
    if cls_name == 'perceptual_multiplane_loss':
        kw = dict(kw, base_loss_weights={'base_l2_loss': 1.}, additional_loss_weights={})
    return getattr(LW, cls_name)(torch.from_numpy(image.copy()), torch.from_numpy(depth.copy()), **kw)


def check_generated_defocus(ctx):
    from odak.learn.tools import generate_2d_gaussian
    import torch.nn.functional as F
    rng = ctx.rng
    bad = [0]

    def alarm(msg):
        bad[0] += 1
        if bad[0] <= 6:
            ctx.alarm('correspondence', msg)

    # ---------------------------------------------------------------- generate_2d_gaussian
    lines, wants, recs = [], [], []
    for (n, m) in [(1, 1), (3, 3), (5, 5), (5, 7), (4, 6), (7, 3), (11, 11)]:
        for (s0, s1) in [(0, 0), (0., 0.), (1, 1), (2, 3), (0, 1.5), (0.5, 0), (0.75, 2.25)]:
            k = generate_2d_gaussian([n, m], [s0, s1]).numpy().astype(np.float64)
            lines.append('gd_gauss %d %d %d %d' % (n, m, f2b(s0), f2b(s1)))
            wants.append(k.reshape(-1))
            # a zero sigma is replaced by 1e-5: the float32 rounding of the centre sample of torch.linspace (2e-7 instead of 0 for 7 samples)
            # then changes the peak by (2e-7)^2 / (2e-10) ~ 3e-4 relative; the float64 model has the centre sample exactly 0
            recs.append({'fn': 'generate_2d_gaussian', 'kernel_length': [n, m], 'nsigma': [s0, s1], 'tol': 2e-3 if 0 in (s0, s1) else 5e-6})
            ctx.case(('gen', 'generate_2d_gaussian', n, m, s0, s1), True)
    ctx.count('generated/generate_2d_gaussian', len(lines))
    # ---------------------------------------------------------------- target_blur_size
    blur_lines, blur_wants = [], []
    img1 = np.float32(np.ones((1, 4, 4)))
    for cls_id, cls_name in ((0, 'multiplane_loss'), (1, 'perceptual_multiplane_loss')):
        for b in (1, 2, 3, 4, 5, 10, 11):
            if cls_id == 1 and b not in (4, 5):
                continue
            im = img1 if cls_id == 0 else np.float32(np.ones((3, 4, 4)))
            obj = build(cls_name, im, np.float32(np.zeros((4, 4))), number_of_planes=1, target_blur_size=b, scheme='none')
            blur_lines.append('gd_blur %d %d' % (cls_id, b))
            blur_wants.append(int(obj.target_blur_size))
    # ---------------------------------------------------------------- kernels and pixels of the real objects
    configs = [('multiplane_loss', 1, 3, 0.5, 1.0, 1), ('multiplane_loss', 2, 5, 1.0, 1.0, 1), ('multiplane_loss', 3, 4, 1.0, 0.7, 3),
               ('multiplane_loss', 4, 5, 0.25, 1.0, 1), ('multiplane_loss', 3, 7, 1.5, 1.3, 1), ('multiplane_loss', 4, 3, 0.75, 1.0, 3),
               ('multiplane_loss', 3, 5, 2.0, 1.0, 1, 'empty_plane'), ('perceptual_multiplane_loss', 3, 5, 1.0, 1.0, 3)]
    if not ctx.quick:
        configs += [('multiplane_loss', 5, 9, 0.6, 1.0, 1), ('multiplane_loss', 6, 5, 1.0, 2.0, 3), ('multiplane_loss', 2, 11, 3.0, 1.0, 1),
                    ('perceptual_multiplane_loss', 4, 4, 0.5, 0.5, 3, 'empty_plane'), ('perceptual_multiplane_loss', 2, 7, 2.0, 1.0, 3)]
    klines, kwants, krecs = [], [], []
    plines, pwants, precs = [], [], []
    centre_weights = []
    for cfg in configs:
        cls_name, planes, blur, ratio, mult, ch = cfg[:6]
        empty = len(cfg) > 6
        cls_id = 0 if cls_name == 'multiplane_loss' else 1
        h, w = 7, 8
        depth = np.float32(np.array([[rng.random() for _ in range(w)] for _ in range(h)]))
        if empty:
            depth = np.float32(depth * 0.2)                   # every pixel in plane 0 (and 1 for many planes): the others stay empty
        image = np.float32(np.array([[[rng.uniform(0.05, 1) if rng.random() < 0.9 else 0.0 for _ in range(w)] for _ in range(h)] for _ in range(ch)]))
        kw = dict(number_of_planes=planes, target_blur_size=blur, blur_ratio=ratio, multiplier=mult)
        seen = []
        orig = F.conv2d

        def spy(inp, kernel, *a, **k):
            seen.append(kernel.detach().clone().numpy().astype(np.float64).reshape(kernel.shape[-2], kernel.shape[-1]))
            return orig(inp, kernel, *a, **k)
        F.conv2d = spy
        try:
            obj = build(cls_name, image, depth, scheme='defocus', **kw)
        finally:
            F.conv2d = orig
        nb = build(cls_name, image, depth, scheme='none', **kw)
        L = int(obj.target_blur_size)
        cache = nb.targets.numpy().astype(np.float64)          # [planes, ch, h, w]; scheme 'none': the multiplier has not been applied
        masks = nb.masks.numpy().astype(np.float64)
        out = obj.get_targets()[0].numpy().astype(np.float64)
        csum = np.array([[float(torch.sum(nb.targets[p, c])) for c in range(ch)] for p in range(planes)])
        ctx.case(('gen', 'add_defocus_blur', cls_name, planes, blur, ratio, ch, empty), True)
        ctx.count('generated/%s.add_defocus_blur%s' % (cls_name, '/with an empty plane' if empty else ''))
        # kernels in call order: for ch, for i, for j with a true guard
        it = iter(seen)
        for c in range(ch):
            for i in range(planes):
                for j in range(planes):
                    if not csum[j, c] > 0:
                        continue
                    try:
                        k = next(it)
                    except StopIteration:
                        alarm('add_defocus_blur made fewer conv2d calls than the regenerated guard predicts (%s)' % (cfg,))
                        break
                    if c == 0:
                        klines.append('gd_kernel %d %d %d %d %d' % (cls_id, L, f2b(ratio), i, j))
                        kwants.append(k.reshape(-1))
                        krecs.append({'class': cls_name, 'planes': planes, 'blur': L, 'blur_ratio': ratio, 'i': i, 'j': j})
                    if i == j:
                        centre_weights.append((float(k[L // 2, L // 2]), float(k.sum()), cfg))
        if next(it, None) is not None:
            alarm('add_defocus_blur made more conv2d calls than the regenerated guard predicts (%s)' % (cfg,))
        # pixels: corners, borders, interior
        cpad = (L - 1) // 2
        padded = np.zeros((planes, ch, h + 2 * cpad, w + 2 * cpad))
        padded[:, :, cpad:cpad + h, cpad:cpad + w] = cache
        pts = [(0, 0), (0, w - 1), (h - 1, 0), (h - 1, w - 1), (0, w // 2), (h // 2, 0), (h // 2, w // 2), (h - 2, w - 3), (1, 1)]
        pts += [(rng.randrange(h), rng.randrange(w)) for _ in range(3)]
        for (y, x) in pts:
            c = rng.randrange(ch)
            for i in range(planes):
                taps = padded[:, c, y:y + L, x:x + L]
                toks = [f2b(v) for v in csum[:, c]] + [f2b(v) for v in masks[:, c, y, x]] + [f2b(v) for v in taps.reshape(-1)]
                plines.append('gd_pixel %d %d %d %d %d %d %s' % (cls_id, planes, L, f2b(ratio), f2b(mult), i, ' '.join(map(str, toks))))
                pwants.append(np.array([out[i, c, y, x]]))
                precs.append({'class': cls_name, 'planes': planes, 'blur': L, 'blur_ratio': ratio, 'multiplier': mult, 'i': i, 'pixel': [y, x], 'channel': c})
    # the monitored half of C16_defocus_keeps_infocus_pixels: in IEEE arithmetic the i = j kernel is exactly the unit impulse
    for cw, tot, cfg in centre_weights:
        if not (cw == 1.0 and tot == 1.0):
            ctx.violation('add_defocus_blur: the i = j kernel is not the unit impulse in float32 (centre weight %r, sum %r) for %s' % (cw, tot, cfg[:6]),
                          {'config': list(cfg[:6])}, {'fn': cfg[0], 'what': 'infocus_kernel_not_impulse'})
    ctx.count('generated/i = j kernels observed as exact unit impulses', len(centre_weights))
    if ctx.drv_ok:
        for what, ls, ws, rs, tol in (('generate_2d_gaussian', lines, wants, recs, 2e-6), ('kernel handed to conv2d', klines, kwants, krecs, 2e-6),
                                      ('defocus target pixel', plines, pwants, precs, 2e-5)):
            outs = ctx.model.ask(ls)
            for want, rec, o in zip(ws, rs, outs):
                got = floats(o)
                if what == 'kernel handed to conv2d':
                    got = got[2:]
                if not close(got, want, rec.get('tol', tol)):
                    alarm('generated %s: implementation %s vs regenerated definition %s (%s)'
                          % (what, np.round(want, 7).tolist()[:12], np.round(got, 7).tolist()[:12] if got.size else o[:80], rec))
        outs = ctx.model.ask(blur_lines)
        for line, want, o in zip(blur_lines, blur_wants, outs):
            if o.strip() != str(want):
                alarm('generated blurSize: %s gives target_blur_size %d, regenerated definition %s' % (line, want, o))
    done = set(ctx.extra.get('generated_definitions_checked', []))
    ctx.extra['generated_definitions_checked'] = sorted(done | {'generate_2d_gaussian', 'multiplane_loss.add_defocus_blur',
                                                                'perceptual_multiplane_loss.add_defocus_blur',
                                                                'multiplane_loss.__init__ (target_blur_size)',
                                                                'perceptual_multiplane_loss.__init__ (target_blur_size)'})
