"""C19 – what is saved can be loaded back unchanged.
Runs the real save/load functions through the real file system (a temporary directory): exhaustive 8- and 16-bit levels, 1 and 3
channels, torch vs NumPy savers byte-identical, JSON incl. non-ASCII, text line lists, PLY triangle sets, torch tensors, copy_file.
Correspondence: stored levels, channel order, text round trip and the copy_file wiring vs the Lean value-level model."""
import filecmp
import logging
import os
import shutil
import tempfile
import warnings
import math
import numpy as np
import torch
from ..lib.core import f2b, b2f

logging.disable(logging.WARNING)
warnings.filterwarnings('ignore')

TRUSTED = ['cv2.imwrite/imread (PNG), json, plyfile, torch.save/load and shutil.copyfile are lossless byte codecs (exercised, not modelled)',
           'the temporary directory behaves like a POSIX file system']
ASSUMPTIONS = ['PNG files; value ranges cmin = 0 <= values <= cmax']


def run(ctx):
    import odak.tools as NT
    import odak.learn.tools as LT
    from odak.tools.asset import write_PLY, read_PLY
    rng = ctx.rng
    ctx.rule = ('every 8-bit and every 16-bit level once (exhaustive), random images of several sizes with 1 and 3 channels and ranges, JSON '
                'dictionaries incl. nested / non-ASCII, text line lists incl. trailing whitespace, empty lines and non-ASCII, random triangle sets, '
                'tensors, file copies; non-trivial = not an all-zero payload; distinct by payload')
    ctx.exhaustive = True
    tmp = tempfile.mkdtemp(prefix='odakverif_c19_')
    try:
        # ---------------- images: all levels
        for depth in (8, 16):
            n = 2 ** depth
            side = int(np.sqrt(n))
            levels = np.arange(n, dtype=np.float64).reshape(side, side)
            for ch in (1, 3):
                img = levels if ch == 1 else np.stack([levels, levels[::-1], (levels * 7) % n], axis=2)
                fn = os.path.join(tmp, 'lv_%d_%d.png' % (depth, ch))
                NT.save_image(fn, img, cmin=0, cmax=n - 1, color_depth=depth)
                back = NT.load_image(fn)
                ctx.case(('levels', depth, ch), True, {'depth': depth, 'channels': ch, 'levels': n})
                ctx.count('image/levels/%dbit/%dch' % (depth, ch))
                if back.shape != img.shape or not np.array_equal(back, img):
                    bad = np.argwhere(back != img)[0] if back.shape == img.shape else None
                    ctx.violation('%d-bit %d-channel image does not read back identically (first difference at %s)' % (depth, ch, bad),
                                  {'depth': depth, 'channels': ch}, {'fn': 'save_image', 'what': 'levels', 'depth': depth, 'channels': ch})
                # torch saver writes the same file
                t = torch.from_numpy(img.copy()).float() if ch == 1 else torch.from_numpy(np.moveaxis(img, -1, 0).copy()).float()
                if depth == 16:
                    t = t.double().float()
                fn2 = os.path.join(tmp, 'lv_%d_%d_t.png' % (depth, ch))
                LT.save_image(fn2, t, cmin=0, cmax=n - 1, color_depth=depth)
                if not filecmp.cmp(fn, fn2, shallow=False):
                    ctx.violation('torch save_image writes a different file than NumPy save_image (%d bit, %d channels)' % (depth, ch),
                                  {'depth': depth, 'channels': ch}, {'fn': 'learn.save_image', 'what': 'torch_vs_numpy', 'depth': depth})
                bt = LT.load_image(fn2, torch_style=(ch == 3)).numpy()
                want = img if ch == 1 else np.moveaxis(img, -1, 0)
                if bt.shape != want.shape or not np.array_equal(bt, want):
                    ctx.violation('torch load_image(torch_style) does not return the saved tensor layout/values', {'depth': depth, 'channels': ch},
                                  {'fn': 'learn.load_image', 'what': 'levels', 'depth': depth})
        # correspondence of stored levels with the model (random values and ranges)
        lines, cases = [], []
        for _ in range(ctx.n(200, 3000)):
            depth = rng.choice([8, 16])
            cmax = rng.choice([1.0, 255.0, 65535.0, rng.uniform(0.5, 300)])
            v = rng.uniform(-0.2 * cmax, 1.2 * cmax) if rng.random() < 0.8 else rng.choice([0.0, cmax, cmax / 2])
            v = float(np.float32(v)); cmax = float(np.float32(cmax))
            cases.append((depth, cmax, v))
            lines.append('save_level %d %d %d %d' % (f2b(0.0), f2b(cmax), depth, f2b(v)))
        mo = ctx.model.ask(lines) if ctx.drv_ok else None
        for k, (depth, cmax, v) in enumerate(cases):
            fn = os.path.join(tmp, 'one.png')
            NT.save_image(fn, np.full((2, 2), v), cmin=0, cmax=cmax, color_depth=depth)
            got = float(NT.load_image(fn)[0, 0])
            ctx.case(('level', depth, cmax, v), True)
            if mo is not None:
                want = b2f(mo[k])
                # save_image computes in float32 (np.float32 copy), the model at Float is float64: a scaled value within float32 resolution of an
                # integer truncates to either neighbour depending on the precision; such ties are not compared
                prod = v / cmax * (2 ** depth - 1)
                if got != want and abs(prod - round(prod)) > max(1e-3, 3 * 2.0 ** -23 * abs(prod)):
                    ctx.alarm('correspondence', 'save_image level for v=%r cmax=%r depth=%d: file has %r, model %r' % (v, cmax, depth, got, want))
        if ctx.drv_ok:
            ch = [int(x) for x in ' '.join(ctx.model.ask(['save_load_channel %d' % k for k in range(4)])).split()]
            if ch != [0, 1, 2, 3]:
                ctx.alarm('correspondence', 'model channel order after save+load is %s' % ch)
            if ctx.model.ask(['copy_file_wiring'])[0].strip() != '1':
                ctx.alarm('correspondence', 'model: copy_file does not write the destination')
        # ---------------- random images, sizes, ranges
        for _ in range(ctx.n(10, 80)):
            h, w, ch = rng.randint(1, 40), rng.randint(1, 40), rng.choice([1, 3])
            depth = rng.choice([8, 16])
            n = 2 ** depth
            img = np.array([[[rng.randrange(n) for _ in range(ch)] for _ in range(w)] for _ in range(h)], dtype=np.float64)
            if ch == 1:
                img = img[:, :, 0]
            fn = os.path.join(tmp, 'r.png')
            NT.save_image(fn, img, cmin=0, cmax=n - 1, color_depth=depth)
            back = NT.load_image(fn)
            ctx.case(('image', h, w, ch, depth, float(img.sum())), True)
            if back.shape != img.shape or not np.array_equal(back, img):
                ctx.violation('random %dx%dx%d %d-bit image does not read back identically' % (h, w, ch, depth), {'h': h, 'w': w, 'channels': ch, 'depth': depth},
                              {'fn': 'save_image', 'what': 'random_image', 'depth': depth, 'channels': ch})
        # ---------------- saving must not depend on (or change) the caller's array: save the same array twice, several dtypes
        for dt in (np.float32, np.float64, np.uint8, np.uint16):
            for depth, cmax in ((8, 255), (16, 65535)):
                if dt == np.uint8 and depth == 16:
                    continue
                img = (np.arange(6 * 5 * 3).reshape(6, 5, 3) * (cmax // 100)).astype(dt)
                keep = img.copy()
                f1, f2 = os.path.join(tmp, 's1.png'), os.path.join(tmp, 's2.png')
                NT.save_image(f1, img, cmin=0, cmax=cmax, color_depth=depth)
                NT.save_image(f2, img, cmin=0, cmax=cmax, color_depth=depth)
                ctx.case(('twice', str(dt), depth), True)
                ctx.count('image/saved_twice/' + np.dtype(dt).name)
                b1, b2 = NT.load_image(f1), NT.load_image(f2)
                if not (np.array_equal(b1, keep.astype(np.float64)) and np.array_equal(b2, keep.astype(np.float64))):
                    ctx.violation('saving the same %s array twice does not read back identically the second time (max error %g)'
                                  % (np.dtype(dt).name, float(np.max(np.abs(b2 - keep)))), {'dtype': np.dtype(dt).name, 'depth': depth},
                                  {'fn': 'save_image', 'what': 'second_save', 'dtype': np.dtype(dt).name})
                t = torch.from_numpy(keep.astype(np.float32).copy())
                f3, f4 = os.path.join(tmp, 's3.png'), os.path.join(tmp, 's4.png')
                LT.save_image(f3, t, cmin=0, cmax=cmax, color_depth=depth)
                NT.save_image(f4, t.numpy(), cmin=0, cmax=cmax, color_depth=depth)
                if not filecmp.cmp(f3, f4, shallow=False):
                    ctx.violation('torch save followed by NumPy save of the same data write different files (%d bit)' % depth,
                                  {'depth': depth}, {'fn': 'learn.save_image', 'what': 'torch_then_numpy', 'depth': depth})
        # ---------------- dictionaries
        dicts = [{}, {'a': 1, 'b': [1, 2.5, None, True], 'c': {'d': 'x'}}, {'ünïcödé': 'значение', '日本': ['語', 1e-9, -3]},
                 {'nested': {'k%d' % i: [i, str(i), {'z': i * 0.5}] for i in range(20)}}]
        # strings and keys that look like JSON themselves or carry runs of blanks / exotic blanks: they are data and come back character by character
        odd = ['slm pitch  [8  \u00b5m]', 'wavelength [515\u00a0nm]', '\u5149\u5b66 [\u3000\u30db\u30ed\u30b0\u30e9\u30e0\u3000]', '[1,   2,\t3]', '{"a":   [1,  2]}', 'a  b   c',
               ' leading and trailing  ', 'tab\tnewline\nquote"backslash\\', '[ ]', '[]', '[\u2009x\u2009]', ',  :  ', '\u2028line\u2029sep', 'NaN', 'Infinity', '1e5', 'true', 'null']
        dicts.append({'strings': odd, 'as values': {'k%d' % i: v for i, v in enumerate(odd)}})
        dicts.append({v: i for i, v in enumerate(odd)})
        dicts.append({'numbers': [0, -0.0, 1e-300, 1.7976931348623157e308, 2 ** 62, -2 ** 62, 0.1, 1 / 3], 'nested lists': [[1, [2, [3, [4.5, 'x  y']]]], []], 'empty': {'l': [], 'd': {}, 's': ''}})
        rs = rng
        alphabet = ['[', ']', '{', '}', ' ', '  ', ',', ':', '"', '\\', '\u00a0', '\u3000', 'a', '1', '\t', '\n', '.']
        for _ in range(ctx.n(40, 400)):
            strs = [''.join(rs.choice(alphabet) for _ in range(rs.randint(1, 14))) for _ in range(4)]
            dicts.append({strs[0]: strs[1], 'list': [strs[2], rs.random(), [strs[3]]]})
        for d in dicts:
            fn = os.path.join(tmp, 'd.json')
            NT.save_dictionary(d, fn)
            back = NT.load_dictionary(fn)
            ctx.case(('dict', repr(d)[:50]), bool(d))
            if back != d or repr(back) != repr(d):
                ctx.violation('dictionary does not read back identically: %r came back as %r' % (d, back) if len(repr(d)) < 300 else 'dictionary does not read back identically: %r'
                              % (d,), {'dict': repr(d)}, {'fn': 'save_dictionary', 'what': 'roundtrip'})
        # ---------------- text line lists
        texts = [[], [''], ['a'], ['a ', ' b\t', '', 'c  '], ['ünï', '日本語 ', '\tindented'], ['x' * 500, '', ''],
                 # characters that are NOT the line terminator '\n' but that str.splitlines() / universal-newline tricks treat as one:
                 # a line containing them is still one line of the list that was written
                 ['page\x0cbreak', 'tab\x0bvertical'], ['rec\x1csep', 'a\x1db', 'c\x1ed'], ['nel\x85x', 'ls\u2028x', 'ps\u2029x'],
                 ['trailing form feed\x0c', '', 'x']]
        for _ in range(ctx.n(10, 100)):
            texts.append([''.join(rng.choice('ab \t,;é0\x0c\x0b\x1c\x85\u2028') for _ in range(rng.randint(0, 8))) for _ in range(rng.randint(0, 6))])
        tl = []
        for ls in texts:
            fn = os.path.join(tmp, 't.txt')
            NT.write_to_text_file(ls, fn)
            back = NT.read_text_file(fn)
            ctx.case(('text', tuple(ls)), bool(ls))
            trailing = any(l != l.rstrip() for l in ls)
            ctx.count('text/' + ('trailing_whitespace' if trailing else 'plain'))
            if back != ls:
                ctx.violation('text lines do not read back identically: wrote %r, read %r' % (ls, back), {'lines': ls},
                              {'fn': 'read_text_file', 'what': 'roundtrip', 'trailing_whitespace': trailing})
            toks = []
            for l in ls:
                toks += [str(ord(c)) for c in l] + ['-1']
            tl.append('text_roundtrip ' + ' '.join(toks))
        if ctx.drv_ok:
            for ls, line in zip(texts, ctx.model.ask(tl)):
                got, cur = [], []
                for t in line.split():
                    if t == '-1':
                        got.append(''.join(cur)); cur = []
                    else:
                        cur.append(chr(int(t)))
                if got != ls:
                    ctx.alarm('correspondence', 'model text round trip of %r gives %r' % (ls, got))
                    break
        # ---------------- PLY
        for _ in range(ctx.n(5, 40)):
            k = rng.randint(1, 12)
            tris = np.float32(np.array([[[rng.uniform(-5, 5) for _ in range(3)] for _ in range(3)] for _ in range(k)]))
            fn = os.path.join(tmp, 'm.ply')
            write_PLY(tris, fn)
            back = read_PLY(fn)
            ctx.case(('ply', k, float(tris.sum())), True)
            if back.shape != tris.shape or not np.array_equal(back, tris):
                ctx.violation('PLY triangle set (%d triangles) does not read back identically' % k, {'triangles': k}, {'fn': 'write_PLY', 'what': 'roundtrip'})
        ply_points_cases(ctx, tmp)
        from .genply import check_generated_ply; check_generated_ply(ctx, tmp)   # Generated/PlyGen.lean (PLY index arithmetic, reader, file-helper wiring) vs the real functions
        image_range_cases(ctx, tmp)
        tensor_layout_cases(ctx, tmp)
        loaded_values_stay(ctx, tmp)
        scalar_type_cases(ctx, tmp)
        # ---------------- tensors
        for _ in range(ctx.n(3, 20)):
            t = torch.randn(rng.randint(1, 5), rng.randint(1, 5), dtype=rng.choice([torch.float32, torch.float64, torch.complex64]))
            fn = os.path.join(tmp, 't.pt')
            LT.save_torch_tensor(fn, t)
            back = LT.torch_load(fn)
            ctx.case(('tensor', str(t.dtype), tuple(t.shape), float(t.abs().sum())), True)
            if back.dtype != t.dtype or not torch.equal(back, t):
                ctx.violation('tensor does not read back identically', {'dtype': str(t.dtype)}, {'fn': 'save_torch_tensor', 'what': 'roundtrip'})
        # ---------------- copy_file
        for _ in range(ctx.n(3, 20)):
            src, dst = os.path.join(tmp, 'src.bin'), os.path.join(tmp, 'dst_%d.bin' % rng.randrange(10 ** 6))
            payload = bytes(rng.randrange(256) for _ in range(rng.randint(0, 2000)))
            with open(src, 'wb') as f:
                f.write(payload)
            ctx.case(('copy', len(payload), payload[:8]), len(payload) > 0)
            try:
                NT.copy_file(src, dst)
            except Exception as e:
                ctx.violation('copy_file raised %r' % e, {'size': len(payload)}, {'fn': 'copy_file', 'what': 'raises'})
                continue
            ok = os.path.exists(dst) and open(dst, 'rb').read() == payload and open(src, 'rb').read() == payload
            if not ok:
                ctx.violation('copy_file: destination is not identical to the source (or the source changed)', {'size': len(payload)},
                              {'fn': 'copy_file', 'what': 'roundtrip'})
                continue
            # copying onto an EXISTING destination (same size, other content, written after the source; and another size) replaces it
            for kind, other in (('same_size', bytes((b + 1) % 256 for b in payload)), ('other_size', payload + b'tail')):
                if not payload and kind == 'same_size':
                    continue
                with open(dst, 'wb') as f:
                    f.write(other)
                ctx.case(('copy_over', kind, len(payload), payload[:8]), True)
                ctx.count('copy_file/over_existing_' + kind)
                try:
                    NT.copy_file(src, dst)
                except Exception as e:
                    ctx.violation('copy_file onto an existing file raised %r' % e, {'size': len(payload), 'existing': kind}, {'fn': 'copy_file', 'what': 'raises'})
                    continue
                if open(dst, 'rb').read() != payload or open(src, 'rb').read() != payload:
                    ctx.violation('copy_file onto an existing destination (%s as the source, other content): the destination is not identical to the source '
                                  'afterwards' % kind.replace('_', ' '), {'size': len(payload), 'existing': kind}, {'fn': 'copy_file', 'what': 'roundtrip', 'existing': kind})
    finally:
        shutil.rmtree(tmp, ignore_errors=True)
    # ---- executable tie of the regenerated TENSOR PROGRAMS of save_image / load_image (whole value pipeline, both APIs)
    from .genimagecodec import check_generated_imagecodec
    check_generated_imagecodec(ctx)


def ply_points_check(pts, fn):
    """write_PLY_from_points -> read_PLY_point_cloud (vertices) and read_PLY (the triangles of the grid); returns list of (what, text)"""
    from odak.tools.asset import write_PLY_from_points, read_PLY_point_cloud, read_PLY
    M, N = pts.shape[:2]
    want = pts.reshape(-1, 3).astype(np.float32).astype(np.float64)
    write_PLY_from_points(pts.copy(), fn)
    fails = []
    pc = np.asarray(read_PLY_point_cloud(fn))
    if pc.shape != want.shape or not np.array_equal(pc, want):
        fails.append(('points_roundtrip', 'a %dx%d grid of points reads back as a point cloud of shape %s%s' % (
            M, N, pc.shape, '' if pc.shape != want.shape else ' with values that differ by up to %g' % float(np.max(np.abs(pc - want))))))
    if M >= 2 and N >= 2:
        try:
            tris = np.asarray(read_PLY(fn), dtype=np.float64)
        except Exception as e:
            return fails + [('faces', 'the mesh written for a %dx%d grid of points cannot be read back as triangles: read_PLY raised %r' % (M, N, e))]
        grid = want.reshape(M, N, 3)
        cells = {}
        ok = tris.shape == (2 * (M - 1) * (N - 1), 3, 3)
        if ok:
            index = {tuple(grid[i, j]): (i, j) for i in range(M) for j in range(N)}
            for t in tris:
                ij = [index.get(tuple(v)) for v in t]
                if None in ij or len(set(ij)) != 3:
                    ok = False
                    break
                i0, j0 = min(a for a, _ in ij), min(b for _, b in ij)
                if any(a - i0 > 1 or b - j0 > 1 for a, b in ij):
                    ok = False
                    break
                cells.setdefault((i0, j0), set()).update(ij)
            ok = ok and len(cells) == (M - 1) * (N - 1) and all(len(v) == 4 for v in cells.values())
        if not ok:
            fails.append(('faces', 'the triangles read back from the mesh of a %dx%d grid of points (shape %s) are not two triangles per grid cell over '
                          'neighbouring points' % (M, N, tris.shape)))
    return fails


def ply_points_cases(ctx, tmp):
    rng = ctx.rng
    shapes = [(1, 1), (1, 4), (4, 1), (2, 2), (3, 3), (2, 3), (3, 2), (4, 7), (5, 5)] + [(rng.randint(1, 6), rng.randint(1, 6)) for _ in range(ctx.n(3, 20))]
    for k, (M, N) in enumerate(shapes):
        pts = np.array([[[rng.uniform(-50, 50) for _ in range(3)] for _ in range(N)] for _ in range(M)])
        if k % 3 == 0:
            pts = pts.astype(np.float32).astype(np.float64)
        rec = {'fn': 'write_PLY_from_points', 'points': pts.tolist()}
        ctx.case(('ply_points', M, N, float(pts.sum())), True, rec if k == 5 else None)
        ctx.count('ply_points/%s' % ('square grid' if M == N else 'single row or column' if min(M, N) == 1 else 'non-square grid'))
        try:
            fails = ply_points_check(pts, os.path.join(tmp, 'pts.ply'))
        except Exception as e:
            fails = [('raises', 'raised %r for a %dx%d grid of points' % (e, M, N))]
        for what, text in fails:
            ctx.violation('write_PLY_from_points: ' + text, rec, {'fn': 'write_PLY_from_points', 'what': what, 'square': M == N})


def image_levels(api, fn, values, cmin, cmax, depth):
    """save a one-row image with the given saver and return the stored integer levels"""
    import odak.tools as NT
    import odak.learn.tools as LT
    arr = np.asarray(values, dtype=np.float64).reshape(1, -1)
    if api == 'numpy':
        NT.save_image(fn, arr, cmin=cmin, cmax=cmax, color_depth=depth)
    else:
        LT.save_image(fn, torch.tensor(arr, dtype=torch.float32), cmin=cmin, cmax=cmax, color_depth=depth)
    return NT.load_image(fn).reshape(-1)


def image_range_check(api, fn, cmin, cmax, depth, mids):
    """documented meaning of cmin / cmax: cmin is stored as level 0, cmax as the top level, values outside are clipped"""
    top = 2 ** depth - 1
    span = cmax - cmin
    values = [cmin, cmax, cmin - 0.37 * span, cmax + 0.41 * span] + list(mids)
    lv = image_levels(api, fn, values, cmin, cmax, depth)
    fails = []
    if lv[0] != 0:
        fails.append(('cmin_level', 'the value cmin = %g is stored as level %d, not 0 (cmax = %g, %d bit)' % (cmin, lv[0], cmax, depth)))
    if lv[1] != top:
        fails.append(('cmax_level', 'the value cmax = %g is stored as level %d, not %d (cmin = %g)' % (cmax, lv[1], top, cmin)))
    if lv[2] != lv[0] or lv[3] != lv[1]:
        fails.append(('clip', 'values below cmin / above cmax are stored as %d / %d, cmin / cmax themselves as %d / %d' % (lv[2], lv[3], lv[0], lv[1])))
    order = np.argsort(values)
    if np.any(np.diff(lv[order]) < 0):
        fails.append(('monotone', 'stored levels %s are not monotone in the values %s' % (lv[order].tolist(), np.asarray(values)[order].tolist())))
    for v, l in zip(values[4:], lv[4:]):
        want = (v - cmin) / span * top
        if abs(l - want) > 1.0 + 1e-3 * top * 1e-3:
            fails.append(('level', 'the value %g in [cmin, cmax] = [%g, %g] is stored as level %d, expected %g +- 1' % (v, cmin, cmax, l, want)))
            break
    return fails


def image_range_cases(ctx, tmp):
    import odak.tools as NT
    import odak.learn.tools as LT
    rng = ctx.rng
    fn = os.path.join(tmp, 'rng.png')
    RANGES = [(0.0, 1.0), (0.0, 255.0), (0.0, 65535.0), (0.0, None), (50.0, 250.0), (0.25, 0.75), (-1.0, 1.0), (None, None), (100.0, 101.0)]
    k = 0
    for depth in (8, 16):
        for (cmin, cmax) in RANGES:
            for api in ('numpy', 'torch'):
                k += 1
                cm = rng.uniform(0.5, 300) if cmax is None else cmax
                c0 = rng.uniform(-0.5, 0.9) * cm if cmin is None else cmin
                mids = [c0 + (cm - c0) * rng.uniform(0.02, 0.98) for _ in range(4)] + [0.5 * (c0 + cm)]
                rec = {'fn': 'save_image', 'api': api, 'cmin': c0, 'cmax': cm, 'depth': depth, 'values': mids}
                ctx.case(('range', api, depth, c0, cm), True, rec if k % 7 == 0 else None)
                ctx.count('image/range/%s/%s' % (api, 'cmin = 0' if c0 == 0 else 'cmin > 0' if c0 > 0 else 'cmin < 0'))
                try:
                    fails = image_range_check(api, fn, c0, cm, depth, mids)
                except Exception as e:
                    fails = [('raises', 'raised %r' % e)]
                for what, text in fails:
                    if c0 != 0 and what != 'raises':
                        # OBSERVATION, not judged by C19: the docstring says cmin is stored as level 0, the code only clips at cmin and scales by
                        # v / cmax (negative values then wrap in the unsigned cast).  C19 is about reading back what was saved (levels of 8 / 16 bit
                        # images, i.e. cmin = 0); what a float image with cmin != 0 is mapped to is not a round-trip statement.
                        ctx.count('image/range/observation: cmin != 0 is clipped, not mapped to level 0 (%s)' % what)
                        continue
                    ctx.violation('%s save_image(cmin = %g, cmax = %g, %d bit): %s' % (api, c0, cm, depth, text), rec,
                                  {'fn': 'save_image' if api == 'numpy' else 'learn.save_image', 'what': what, 'cmin_nonzero': c0 != 0, 'depth': depth})
    # ---------------- load_image(normalizeby, torch_style), and saving what a normalised load returned
    for depth in (8, 16):
        n = 2 ** depth
        side = int(np.sqrt(n))
        levels = np.arange(n, dtype=np.float64).reshape(side, side)
        for ch in (1, 3):
            img = levels if ch == 1 else np.stack([levels, levels[::-1], (levels * 7) % n], axis=2)
            f1, f2 = os.path.join(tmp, 'n1.png'), os.path.join(tmp, 'n2.png')
            NT.save_image(f1, img, cmin=0, cmax=n - 1, color_depth=depth)
            raw = NT.load_image(f1)
            for nb in (float(n - 1), 255.0, 2.5, 1.0, 0.0):
                for ts in (False, True):
                    rec = {'fn': 'load_image', 'depth': depth, 'channels': ch, 'normalizeby': nb, 'torch_style': ts}
                    ctx.case(('normalizeby', depth, ch, nb, ts), True)
                    ctx.count('image/normalizeby/%s' % ('off' if nb == 0 else 'on'))
                    got = NT.load_image(f1, normalizeby=nb, torch_style=ts)
                    want = raw if nb == 0 else raw * 1. / nb
                    if ts and ch == 3:
                        want = np.moveaxis(want, -1, 0)
                    if got.shape != want.shape or not np.array_equal(got, want):
                        ctx.violation('load_image(normalizeby = %g, torch_style = %s) of a %d-bit %d-channel image is not the stored levels divided by %g in the '
                                      'requested layout (shape %s, expected %s)' % (nb, ts, depth, ch, nb, got.shape, want.shape), rec,
                                      {'fn': 'load_image', 'what': 'normalizeby', 'depth': depth})
                    gt = LT.load_image(f1, normalizeby=nb, torch_style=ts)
                    if tuple(gt.shape) != want.shape or not torch.equal(gt, torch.from_numpy(want).float()):
                        ctx.violation('torch load_image(normalizeby = %g, torch_style = %s) differs from the NumPy loader' % (nb, ts), rec,
                                      {'fn': 'learn.load_image', 'what': 'normalizeby', 'depth': depth})
            # every level, loaded normalised to [0, 1] and saved again with cmax = 1, gives the same file
            x = NT.load_image(f1, normalizeby=float(n - 1))
            NT.save_image(f2, x, cmin=0, cmax=1., color_depth=depth)
            back = NT.load_image(f2)
            ctx.case(('normalised_resave', depth, ch), True)
            if back.shape != raw.shape or not np.array_equal(back, raw):
                bad = np.argwhere(back != raw)
                ctx.violation('%d-bit %d-channel image loaded with normalizeby = %d and saved with cmax = 1 changes %d pixel levels (first: %s -> %s)'
                              % (depth, ch, n - 1, len(bad), raw[tuple(bad[0])] if len(bad) else None, back[tuple(bad[0])] if len(bad) else None),
                              {'fn': 'save_image', 'depth': depth, 'channels': ch}, {'fn': 'save_image', 'what': 'normalised_resave', 'depth': depth})
    # values in [0, cmax] saved and loaded with the matching normalisation come back within one level
    for _ in range(ctx.n(12, 100)):
        depth = rng.choice([8, 16])
        top = 2 ** depth - 1
        cm = rng.choice([1.0, 255.0, rng.uniform(0.5, 300)])
        h, w, ch = rng.randint(1, 9), rng.randint(1, 9), rng.choice([1, 3])
        img = np.array([[[rng.uniform(0, cm) for _ in range(ch)] for _ in range(w)] for _ in range(h)])
        if ch == 1:
            img = img[:, :, 0]
        NT.save_image(fn, img, cmin=0, cmax=cm, color_depth=depth)
        back = NT.load_image(fn, normalizeby=top / cm)
        ctx.case(('scaled_roundtrip', depth, cm, h, w, ch), True)
        if back.shape != img.shape or float(np.max(np.abs(back - img))) > cm / top * (1 + 1e-3):
            ctx.violation('an image with values in [0, %g] saved at %d bit and loaded with normalizeby = %g differs by %g (one level is %g)'
                          % (cm, depth, top / cm, float(np.max(np.abs(back - img))) if back.shape == img.shape else float('nan'), cm / top),
                          {'fn': 'save_image', 'depth': depth, 'cmax': cm, 'image': img.tolist()}, {'fn': 'save_image', 'what': 'scaled_roundtrip', 'depth': depth})


def tensor_layout_cases(ctx, tmp):
    """save_torch_tensor / torch_load for 0-d tensors and tensors that are views (transposed, strided, expanded, offset)"""
    import odak.learn.tools as LT
    rng = ctx.rng
    fn = os.path.join(tmp, 'layout.pt')
    for _ in range(ctx.n(3, 20)):
        g = torch.Generator().manual_seed(rng.randrange(10 ** 6))
        base = torch.rand(rng.randint(2, 6), rng.randint(2, 6), rng.randint(1, 4), generator=g)
        cands = {
            '0-d float32': torch.tensor(rng.uniform(-5, 5)), '0-d float64': torch.tensor(rng.uniform(-5, 5), dtype=torch.float64),
            '0-d int64': torch.tensor(rng.randrange(-10 ** 9, 10 ** 9)), '0-d bool': torch.tensor(rng.random() < 0.5),
            '0-d complex64': torch.tensor(complex(rng.uniform(-1, 1), rng.uniform(-1, 1)), dtype=torch.complex64),
            '0-d from indexing': base[1, 1, 0],
            'transposed': base.transpose(0, 1), 'permuted': base.permute(2, 0, 1), 'strided': base[::2, 1::2], 'offset row': base[1],
            'expanded': base[:1, :1].expand(3, 4, base.shape[2]), 'flipped': base.flip(0), 'empty': base[:0],
            'complex view': torch.view_as_complex(torch.rand(3, 4, 2, generator=g)).t(), 'int16 strided': (base * 1000).to(torch.int16)[:, ::2],
        }
        for name, t in cands.items():
            rec = {'fn': 'save_torch_tensor', 'layout': name, 'shape': list(t.shape), 'stride': list(t.stride()), 'dtype': str(t.dtype)}
            ctx.case(('tensor_layout', name, tuple(t.shape), str(t.dtype), float(t.double().abs().sum()) if not t.is_complex() else float(t.abs().sum())),
                     t.numel() > 0)
            ctx.count('tensor/%s' % ('0-d' if t.dim() == 0 else 'contiguous' if t.is_contiguous() else 'non-contiguous'))
            keep = t.clone()
            try:
                LT.save_torch_tensor(fn, t)
                back = LT.torch_load(fn)
            except Exception as e:
                ctx.violation('save_torch_tensor / torch_load raised %r for a %s tensor' % (e, name), rec, {'fn': 'save_torch_tensor', 'what': 'raises', 'layout': name})
                continue
            if not isinstance(back, torch.Tensor) or back.dtype != t.dtype or back.shape != t.shape or not torch.equal(back, keep) or not torch.equal(t, keep):
                ctx.violation('%s tensor (shape %s, stride %s, %s) does not read back identically: %s' % (
                    name, tuple(t.shape), t.stride(), t.dtype, 'shape %s dtype %s' % (tuple(back.shape), back.dtype) if isinstance(back, torch.Tensor) else type(back)),
                    rec, {'fn': 'save_torch_tensor', 'what': 'roundtrip', 'layout': name})


def scalar_type_cases(ctx, tmp):
    """the range arguments of save_image handed over as the scalars a NumPy / torch program naturally has - `img.max()` (a NumPy float64 or a 0-d tensor),
    `np.float64(1.)`, `np.int64(255)` - instead of Python numbers: the same file.  In particular load -> save(cmax = img.max()) -> load returns the levels."""
    import odak.tools as NT
    import odak.learn.tools as LT
    fn = os.path.join(tmp, 'scalar.png')
    for depth in (8, 16):
        top = 2 ** depth - 1
        levels = np.arange(0, top + 1, dtype=np.float64) if depth == 8 else np.concatenate([np.arange(0, 65536, 7, dtype=np.float64), [65535.0, 32895.0, 32896.0, 1.0, 2.0, 3.0]])
        side = int(math.ceil(math.sqrt(levels.size)))
        lv = np.resize(levels, (side, side))
        norm = lv / top                                 # a normalised image, as load_image(fn, normalizeby = top) returns it
        NT.save_image(fn, lv.copy(), cmin=0, cmax=top, color_depth=depth)
        loaded = NT.load_image(fn, normalizeby=float(top))
        ref_levels = NT.load_image(fn).astype(np.int64)
        variants = [('cmax = 1.0 (Python float)', norm, 1.0), ('cmax = np.float64(1.)', norm, np.float64(1.0)), ('cmax = np.float32(1.)', norm, np.float32(1.0)),
                    ('cmax = img.max() of the loaded image', np.asarray(loaded, dtype=np.float64), np.asarray(loaded).max()),
                    ('cmax = np.int64(top) for integer levels', lv, np.int64(top)), ('cmax = np.float64(top) for integer levels', lv, np.float64(top))]
        for what, img, cm in variants:
            for api in ('numpy', 'torch'):
                ctx.case(('scalar_types', depth, what, api), True)
                ctx.count('save_image range given as/' + what.split(' (')[0])
                rec = {'fn': 'save_image', 'api': api, 'depth': depth, 'variant': what}
                try:
                    if api == 'numpy':
                        NT.save_image(fn, np.array(img, dtype=np.float64), cmin=0, cmax=cm, color_depth=depth)
                    else:
                        LT.save_image(fn, torch.tensor(np.array(img, dtype=np.float64)), cmin=0, cmax=torch.tensor(float(cm)) if 'img.max' in what else cm, color_depth=depth)
                    back = NT.load_image(fn).astype(np.int64)
                except (Exception, SystemExit):
                    ctx.count('save_image range given as/rejected')
                    continue
                bad = int(np.sum(back != ref_levels)) if back.shape == ref_levels.shape else -1
                if bad:
                    ctx.violation('%s save_image, %d bit, %s: %s of %d stored levels differ from the levels of the image (largest deviation %s level(s))'
                                  % (api, depth, what, 'the shape and' if bad < 0 else bad, ref_levels.size,
                                     int(np.max(np.abs(back - ref_levels))) if bad > 0 else '?'), rec,
                                  {'fn': 'save_image', 'what': 'range_scalar_type', 'api': api, 'depth': depth})


def loaded_values_stay(ctx, tmp):
    """what a load call returned is the caller's data: it stays what it was when the file is written again with other content, or removed
    (small and large payloads: 1 KiB .. 4 MiB, so that size-dependent reading strategies are all exercised)"""
    import odak.learn.tools as LT
    import odak.tools as NT
    rng = ctx.rng
    for side in (16, 300, 600, 1024):
        for dtype in (torch.float32, torch.complex64):
            fn = os.path.join(tmp, 'stay_%d.pt' % side)
            g = torch.Generator().manual_seed(rng.randrange(10 ** 6))
            a = torch.rand(side, side, generator=g).to(dtype)
            b = (torch.rand(side, side, generator=g) + 2.0).to(dtype)
            ctx.case(('loaded_stays', 'tensor', side, str(dtype)), True)
            ctx.count('loaded_stays/tensor/%s' % ('<=1MiB' if a.numel() * a.element_size() <= 2 ** 20 else '>1MiB'))
            rec = {'fn': 'torch_load', 'shape': [side, side], 'dtype': str(dtype), 'bytes': a.numel() * a.element_size()}
            try:
                LT.save_torch_tensor(fn, a)
                got = LT.torch_load(fn)
                first_ok = torch.equal(got, a)
                LT.save_torch_tensor(fn, b)
                second = LT.torch_load(fn)
                os.remove(fn)
            except Exception as e:
                ctx.violation('save / load / save again / load again of a %dx%d %s tensor raised %r' % (side, side, dtype, e), rec,
                              {'fn': 'torch_load', 'what': 'raises'})
                continue
            if not first_ok or not torch.equal(second, b):
                ctx.violation('a %dx%d %s tensor does not read back identically (first load %s, load after rewriting %s)'
                              % (side, side, dtype, first_ok, torch.equal(second, b)), rec, {'fn': 'torch_load', 'what': 'roundtrip'})
            elif not torch.equal(got, a):
                ctx.violation('the %dx%d %s tensor returned by torch_load changed when the file was written again with other content '
                              '(%d bytes; the loaded tensor is backed by the file instead of holding the data)' % (side, side, dtype, rec['bytes']),
                              rec, {'fn': 'torch_load', 'what': 'loaded_value_changed_with_file'})
            try:
                got.mul_(2.0)          # and it is writable like any tensor the caller owns
            except Exception as e:
                ctx.violation('the tensor returned by torch_load (%dx%d %s) cannot be modified in place: %r' % (side, side, dtype, e), rec,
                              {'fn': 'torch_load', 'what': 'loaded_value_readonly'})
    # images (both APIs), dictionaries, text files
    for side in (8, 640):
        fn = os.path.join(tmp, 'stay_%d.png' % side)
        ia = np.random.RandomState(side).randint(0, 255, (side, side, 3)).astype(np.float64)
        ib = 255.0 - ia
        ctx.case(('loaded_stays', 'image', side), True)
        ctx.count('loaded_stays/image')
        for api in ('numpy', 'torch'):
            try:
                if api == 'numpy':
                    NT.save_image(fn, ia.copy()); got = NT.load_image(fn); snap = np.array(got, copy=True)
                    NT.save_image(fn, ib.copy()); again = NT.load_image(fn)
                    bad = not np.array_equal(got, snap) or not np.array_equal(np.asarray(again, dtype=np.float64), ib) or not np.array_equal(snap, ia)
                else:
                    LT.save_image(fn, torch.tensor(ia)); got = LT.load_image(fn); snap = got.clone()
                    LT.save_image(fn, torch.tensor(ib)); again = LT.load_image(fn)
                    bad = not torch.equal(got, snap) or not np.array_equal(again.numpy().astype(np.float64), ib) or not np.array_equal(snap.numpy().astype(np.float64), ia)
                os.remove(fn)
            except Exception as e:
                ctx.note('image save/load/save/load session raised %r (%s, %d)' % (e, api, side))
                continue
            if bad:
                ctx.violation('%s image session (save A, load, save B to the same name, load): a loaded image changed or was not what was saved'
                              % api, {'fn': 'load_image', 'api': api, 'side': side}, {'fn': 'load_image', 'what': 'loaded_value_changed_with_file', 'api': api})
    fn = os.path.join(tmp, 'stay.json')
    da, db = {'a': [1.5, 2.5], 'b': {'c': 'x'}}, {'a': [9.0], 'b': {'c': 'y'}, 'd': 1}
    NT.save_dictionary(da, fn); got = NT.load_dictionary(fn)
    NT.save_dictionary(db, fn); again = NT.load_dictionary(fn)
    ctx.case(('loaded_stays', 'dictionary'), True)
    if got != da or again != db:
        ctx.violation('dictionary session (save A, load, save B to the same name, load): got %r and %r' % (got, again), {'fn': 'load_dictionary'},
                      {'fn': 'load_dictionary', 'what': 'loaded_value_changed_with_file'})
    fn = os.path.join(tmp, 'stay.txt')
    la, lb = ['alpha', 'beta'], ['gamma']
    NT.write_to_text_file(la, fn); got = NT.read_text_file(fn)
    NT.write_to_text_file(lb, fn); again = NT.read_text_file(fn)
    ctx.case(('loaded_stays', 'text'), True)
    if got != la or again != lb:
        ctx.violation('text file session (write A, read, write B to the same name, read): got %r and %r' % (got, again), {'fn': 'read_text_file'},
                      {'fn': 'read_text_file', 'what': 'loaded_value_changed_with_file'})


def replay(ctx, rep):
    import odak.tools as NT
    r = rep['replay']
    tmp = tempfile.mkdtemp(prefix='odakverif_c19_')
    try:
        if r.get('fn') == 'write_PLY_from_points':
            fails = ply_points_check(np.array(r['points']), os.path.join(tmp, 'p.ply'))
            for f in fails:
                print('fails:', f[1])
            return not fails
        if r.get('fn') == 'save_image' and 'cmin' in r:
            fails = image_range_check(r['api'], os.path.join(tmp, 'r.png'), r['cmin'], r['cmax'], r['depth'], r['values'])
            for f in fails:
                print('fails:', f[1])
            return not fails
        if 'lines' in r:
            fn = os.path.join(tmp, 't.txt')
            NT.write_to_text_file(r['lines'], fn)
            back = NT.read_text_file(fn)
            print('wrote', r['lines'], 'read', back)
            return back == r['lines']
        return True
    finally:
        shutil.rmtree(tmp, ignore_errors=True)
