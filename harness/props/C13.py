"""C13 – rotations are rigid and consistent across modes, APIs and inverses.
Correspondence: rotmatx/y/z, rotate_point(s), get_rotation_matrix, tilt_towards (both APIs) vs the Lean model.
Monitors: orthonormality/determinant, distance preservation, origin fixed, zero angles, NumPy = torch,
inverse through bring_plane_to_origin."""
import logging
import math
import warnings
import numpy as np
import torch
from ..lib.core import f2b, b2f

logging.disable(logging.WARNING)
warnings.filterwarnings('ignore')

TRUSTED = ['np.dot / torch.mm are matrix products; math.cos/sin, torch.cos/sin are the real functions up to rounding',
           'axis matrices and mode tables are regenerated from the source by harness/translate/rotmodes.py']
ASSUMPTIONS = ['torch API works in float32 (tolerance 5e-4 scaled by the coordinate magnitude); huge angles lose precision in '
               'float32 degrees->radians, so torch is compared at |angle| <= 1e4 degrees']
MODES = ['XYZ', 'XZY', 'YXZ', 'ZXY', 'ZYX']


def angle(rng):
    c = rng.random()
    if c < 0.15:
        return 0.0
    if c < 0.35:
        return 90.0 * rng.randint(-8, 8)
    if c < 0.45:
        return 360.0 * rng.randint(-3, 3)
    if c < 0.55:
        return rng.uniform(-1e4, 1e4)
    return rng.uniform(-180, 180)


def vec(rng, s=3.0):
    return [rng.uniform(-s, s) for _ in range(3)]


def fl(xs):
    return ' '.join(str(f2b(x)) for x in xs)


def run(ctx):
    import odak.tools as NT
    import odak.learn.tools as LT
    from odak.raytracing.primitives import bring_plane_to_origin
    rng = ctx.rng
    ctx.rule = ('angle classes {0, multiples of 90 and 360, huge, random} x 5 modes x random origins/offsets/point clouds, both '
                'APIs; non-trivial = at least one non-zero angle; distinct by (function, mode, angle triple)')
    N = ctx.n(150, 2000)
    lines, cases = [], []
    for i in range(N):
        ang = [angle(rng) for _ in range(3)]
        if rng.random() < 0.1:
            ang = [0.0, 0.0, 0.0]
        elif rng.random() < 0.15:        # non-zero triples with special structure: zero sum, one zero, equal angles
            a_, b_ = angle(rng) or 30.0, angle(rng) or -45.0
            ang = rng.choice([[a_, -a_, 0.0], [0.0, a_, -a_], [a_, b_, -(a_ + b_)], [a_, a_, a_], [a_, 0.0, 0.0], [0.0, 0.0, a_]])
        mode = rng.randrange(5)
        origin, offset = (vec(rng), vec(rng)) if rng.random() < 0.8 else ([0.0] * 3, [0.0] * 3)
        pts = [vec(rng, 5.0) for _ in range(rng.choice([1, 2, 4]))]
        cases.append((ang, mode, origin, offset, pts))
        zero = int(all(a == 0 for a in ang))
        for p in pts:
            lines.append('rotate 0 0 %d %s %s %s %s 0' % (mode, fl(ang), fl(origin), fl(offset), fl(p)))
            lines.append('rotate 0 1 %d %s %s %s %s %d' % (mode, fl(ang), fl(origin), fl(offset), fl(p), zero))
            lines.append('rotate 1 2 %d %s %s %s %s 0' % (mode, fl(ang), fl(origin), fl(offset), fl(p)))
        lines.append('rotmatrix %d %s' % (mode, fl(ang)))
        for ax in range(3):
            lines.append('rotmat 0 %d %d' % (ax, f2b(ang[ax])))
            lines.append('rotmat 1 %d %d' % (ax, f2b(ang[ax])))
    outs = iter(ctx.model.ask(lines)) if ctx.drv_ok else None

    def nxt():
        return [b2f(t) for t in next(outs).split()] if outs is not None else None

    def cmp(tag, got, want, tol, rec, scale=1.0):
        if want is None:
            return
        got = np.asarray(got, dtype=np.float64).reshape(-1)
        if got.shape[0] != len(want) or not np.all(np.abs(got - np.array(want)) <= tol * max(1.0, scale)):
            ctx.alarm('correspondence', '%s differs from the model: %s vs %s for %s' % (tag, got.tolist(), want, rec))

    for (ang, mode, origin, offset, pts) in cases:
        mname = MODES[mode]
        rec = {'angles': ang, 'mode': mname, 'origin': origin, 'offset': offset, 'points': pts}
        nontrivial = any(a != 0 for a in ang)
        ctx.case(('rot', mname, tuple(ang)), nontrivial, rec)
        ctx.count('mode/' + mname)
        ctx.count('angles/' + ('zero' if not nontrivial else 'right' if all(a % 90 == 0 for a in ang) else 'huge' if max(abs(a) for a in ang) > 1000 else 'generic'))
        big = max(abs(a) for a in ang)
        ttol = 5e-4 * (1 + big / 50.0)
        scale = 10.0
        res_np, res_t = [], []
        # the SAME argument objects are passed to every call of the case (a caller keeps its origin / offset / angles around): the result
        # for the same arguments must not depend on how often they have been used
        a_np, o_np, f_np = list(ang), np.array(origin, dtype=np.float64), np.array(offset, dtype=np.float64)
        a_t = torch.tensor([ang], dtype=torch.float64)
        o_t, f_t = torch.tensor([origin], dtype=torch.float64), torch.tensor([offset], dtype=torch.float64)
        for p in pts:
            r1, rx, ry, rz = NT.rotate_point(np.array(p, dtype=np.float64), angles=a_np, mode=mname, origin=o_np, offset=f_np)
            cmp('numpy rotate_point', r1, nxt(), 1e-9, rec, scale)
            r2 = NT.rotate_points(np.array([p], dtype=np.float64), angles=a_np, mode=mname, origin=o_np, offset=f_np)
            cmp('numpy rotate_points', r2, nxt(), 1e-9, rec, scale)
            r3, *_ = LT.rotate_points(torch.tensor([p], dtype=torch.float64), angles=a_t, mode=mname, origin=o_t, offset=f_t)
            cmp('torch rotate_points', r3.numpy(), nxt(), ttol, rec, scale)
            r3b, *_ = LT.rotate_points(torch.tensor([p], dtype=torch.float64), angles=a_t, mode=mname, origin=o_t, offset=f_t)
            if not np.allclose(r3b.numpy(), r3.numpy(), atol=1e-12):
                ctx.violation('torch rotate_points: a second call with the same arguments returns %s, the first returned %s'
                              % (r3b.numpy().tolist(), r3.numpy().tolist()), rec, {'what': 'repeat_call', 'api': 'torch', 'mode': mname})
            res_np.append(np.asarray(r2).reshape(3))
            res_t.append(r3.numpy().reshape(3))
            # NumPy and torch agree
            if not np.allclose(np.asarray(r1).reshape(3), r3.numpy().reshape(3), atol=ttol * scale):
                ctx.violation('NumPy rotate_point and torch rotate_points differ: %s vs %s' % (r1, r3.numpy()), rec,
                              {'what': 'np_vs_torch', 'mode': mname})
        # a sweep loop: ONE mutable angles object (list, then ndarray) is updated in place between calls, as a caller stepping an axis would do;
        # every call must use the angles the object holds NOW (expected value from the axis matrices rotmatx/y/z and the stated product)
        for container in (list, np.array):
            sweep = container([float(a) for a in ang])
            for step_i, delta in enumerate((0.0, 17.5, -40.0, 17.5)):
                sweep[step_i % 3] = sweep[step_i % 3] + delta
                cur = [float(a) for a in sweep]
                mx, my, mz = NT.rotmatx(cur[0]), NT.rotmaty(cur[1]), NT.rotmatz(cur[2])
                wantR = {'XYZ': mz @ my @ mx, 'XZY': my @ mz @ mx, 'YXZ': mz @ mx @ my, 'ZXY': my @ mx @ mz, 'ZYX': mx @ my @ mz}[mname]
                expect = wantR @ (np.array(pts[0]) - np.array(origin)) + np.array(origin) + np.array(offset)
                got1 = np.asarray(NT.rotate_point(np.array(pts[0], dtype=np.float64), angles=sweep, mode=mname, origin=o_np, offset=f_np)[0]).reshape(3)
                got2 = np.asarray(NT.rotate_points(np.array([pts[0]], dtype=np.float64), angles=sweep, mode=mname, origin=o_np, offset=f_np)).reshape(3)
                if not (np.allclose(got1, expect, atol=1e-9 * scale) and np.allclose(got2, expect, atol=1e-9 * scale)):
                    ctx.violation('NumPy rotate_point / rotate_points with ONE angles %s updated in place between calls: for the angles %s (mode %s) got %s / %s, '
                                  'the stated product gives %s' % (container.__name__, cur, mname, got1.tolist(), got2.tolist(), expect.tolist()),
                                  dict(rec, sweep=cur, container=container.__name__), {'what': 'angles_updated_in_place', 'api': 'numpy', 'mode': mname})
                    break
        R = LT.get_rotation_matrix(tilt_angles=[torch.tensor([a], dtype=torch.float64) for a in ang], tilt_order=mname).numpy()
        cmp('get_rotation_matrix', R, nxt(), ttol, rec)
        mats = []
        for ax, (fn, ft) in enumerate(((NT.rotmatx, LT.rotmatx), (NT.rotmaty, LT.rotmaty), (NT.rotmatz, LT.rotmatz))):
            a = fn(ang[ax])
            cmp('numpy rotmat%s' % 'xyz'[ax], a, nxt(), 1e-12, rec)
            b = ft(torch.tensor([ang[ax]], dtype=torch.float64)).numpy()
            cmp('torch rotmat%s' % 'xyz'[ax], b, nxt(), ttol, rec)
            mats.append(a)
            for nm, M, t in (('numpy', a, 1e-9), ('torch', b, ttol)):
                if not (np.allclose(M @ M.T, np.eye(3), atol=t) and abs(np.linalg.det(M) - 1) <= t):
                    ctx.violation('%s rotmat%s(%g) is not a proper rotation' % (nm, 'xyz'[ax], ang[ax]), rec,
                                  {'what': 'not_orthonormal', 'api': nm, 'axis': 'xyz'[ax]})
        # ---- monitors on the implementation
        if not (np.allclose(R @ R.T, np.eye(3), atol=ttol) and abs(np.linalg.det(R) - 1) <= ttol):
            ctx.violation('get_rotation_matrix(%s, %s) is not a proper rotation' % (ang, mname), rec, {'what': 'not_orthonormal', 'mode': mname})
        want = {'XYZ': mats[2] @ mats[1] @ mats[0], 'XZY': mats[1] @ mats[2] @ mats[0], 'YXZ': mats[2] @ mats[0] @ mats[1],
                'ZXY': mats[1] @ mats[0] @ mats[2], 'ZYX': mats[0] @ mats[1] @ mats[2]}[mname]
        if not np.allclose(R, want, atol=ttol):
            ctx.violation('mode %s of get_rotation_matrix is not the stated product of axis rotations' % mname, rec,
                          {'what': 'mode_product', 'mode': mname, 'fn': 'get_rotation_matrix'})
        for i in range(len(pts)):
            rp = want @ (np.array(pts[i]) - np.array(origin)) + np.array(origin) + np.array(offset)
            if not np.allclose(res_np[i], rp, atol=1e-8 * scale):
                ctx.violation('mode %s of NumPy rotate_points is not the stated product of axis rotations' % mname, rec,
                              {'what': 'mode_product', 'mode': mname, 'fn': 'np.rotate_points'})
            for j in range(i):
                d0 = np.linalg.norm(np.array(pts[i]) - np.array(pts[j]))
                for nm, res, t in (('numpy', res_np, 1e-8), ('torch', res_t, ttol)):
                    if abs(np.linalg.norm(res[i] - res[j]) - d0) > t * scale:
                        ctx.violation('%s rotation changes a pairwise distance' % nm, rec, {'what': 'distance', 'api': nm, 'mode': mname})
        ro = NT.rotate_points(np.array([origin], dtype=np.float64), angles=ang, mode=mname, origin=list(origin), offset=list(offset))
        if not np.allclose(np.asarray(ro).reshape(3), np.array(origin) + np.array(offset), atol=1e-9 * scale):
            ctx.violation('NumPy rotate_points moves the chosen origin', rec, {'what': 'origin_fixed', 'api': 'numpy', 'mode': mname})
        if not nontrivial:
            for i in range(len(pts)):
                if not np.allclose(res_np[i], np.array(pts[i]) + np.array(offset), atol=1e-9 * scale) or \
                        not np.allclose(res_t[i], np.array(pts[i]) + np.array(offset), atol=1e-6 * scale):
                    ctx.violation('zero angles are not the identity', rec, {'what': 'zero_identity', 'mode': mname})
        # inverse with negated angles and reversed mode (bring_plane_to_origin), where that order is offered
        if mname[::-1] in MODES:
            q = NT.rotate_points(np.array(pts, dtype=np.float64), angles=ang, mode=mname, origin=[0, 0, 0], offset=list(offset))
            back = bring_plane_to_origin(np.array(q, dtype=np.float64).reshape(-1, 3) if len(pts) > 1 else np.array(q, dtype=np.float64).reshape(3),
                                         [list(offset), list(ang)], shape=[1., 1.], center=list(offset), angles=list(ang), mode=mname)
            if not np.allclose(np.asarray(back).reshape(-1, 3), np.array(pts), atol=1e-7 * scale * (1 + big / 1e3)):
                ctx.violation('bring_plane_to_origin does not undo rotate_points for mode %s' % mname, rec,
                              {'what': 'inverse', 'mode': mname})

    # ---- tilt_towards
    tl, tc = [], []
    for _ in range(ctx.n(20, 200)):
        a, b = vec(rng), vec(rng)
        tl.append('tilt %s %s' % (fl(a), fl(b)))
        tc.append((a, b))
    touts = ctx.model.ask(tl) if ctx.drv_ok else [None] * len(tc)
    for (a, b), o in zip(tc, touts):
        r = NT.tilt_towards(a, b)
        ctx.case(('tilt', tuple(a)), True)
        if o is not None:
            w = [b2f(t) for t in o.split()]
            if not np.allclose(np.array(r, dtype=np.float64), np.array(w), atol=1e-8):
                ctx.alarm('correspondence', 'numpy tilt_towards differs from the model: %s vs %s' % (r, w))
        rt = LT.tilt_towards(a, b)
        if not np.allclose(np.array(rt, dtype=np.float64), np.array(r, dtype=np.float64), atol=2e-3):
            ctx.violation('NumPy and torch tilt_towards differ: %s vs %s' % (r, rt), {'location': a, 'lookat': b},
                          {'what': 'np_vs_torch', 'fn': 'tilt_towards'})
    double_precision_pipeline(ctx)


def double_precision_pipeline(ctx):
    """a program that runs in double precision (torch.set_default_dtype(torch.float64)) and writes its angles as whole numbers - `torch.tensor([0, 45, 0])`,
    an integer tensor - gets rotations of double-precision quality: orthonormal to 1e-12, distances kept to 1e-12, equal to the NumPy (float64) rotation"""
    import odak.tools as NT
    import odak.learn.tools as LT
    from ..lib import settings as ST
    rng = ctx.rng
    with ST.default_dtype_float64():
        for ang in ([0, 45, 0], [30, -60, 90], [17, 133, -250], [rng.randrange(-360, 360) for _ in range(3)], [1, 2, 3]):
            for mode in ('XYZ', 'ZYX', 'XZY'):
                for adt in (torch.int64, torch.int32, torch.float64):
                    ctx.case(('double_precision', tuple(ang), mode, str(adt)), True)
                    ctx.count('double_precision_pipeline/angles as %s' % str(adt).replace('torch.', ''))
                    rec = {'angles': ang, 'mode': mode, 'angle_dtype': str(adt), 'setting': 'torch.set_default_dtype(torch.float64)'}
                    pts = torch.tensor([[rng.uniform(-1, 1) for _ in range(3)] for _ in range(6)], dtype=torch.float64)
                    try:
                        out = LT.rotate_points(pts, angles=torch.tensor([ang], dtype=adt), mode=mode)
                        mats = [LT.rotmatx(torch.tensor([ang[0]], dtype=adt)), LT.rotmaty(torch.tensor([ang[1]], dtype=adt)), LT.rotmatz(torch.tensor([ang[2]], dtype=adt))]
                    except Exception:
                        ctx.count('double_precision_pipeline/rejected')
                        continue
                    want = NT.rotate_points(pts.numpy().copy(), angles=[float(a) for a in ang], mode=mode)
                    want = np.asarray(want[0] if isinstance(want, (list, tuple)) else want, dtype=np.float64)
                    got = out[0].double().numpy()
                    orth = max(float((m.double() @ m.double().T - torch.eye(3, dtype=torch.float64)).abs().max()) for m in mats)
                    dd = np.abs(np.linalg.norm(got[:, None] - got[None], axis=-1) - np.linalg.norm(pts.numpy()[:, None] - pts.numpy()[None], axis=-1)).max()
                    if orth > 1e-12 or dd > 1e-12 or np.max(np.abs(got - want)) > 1e-12:
                        ctx.violation('in a double-precision program (default dtype float64) torch rotation by the %s angles %s, mode %s, is of single-precision quality: '
                                      'axis matrices off orthonormal by %.3g, distances changed by %.3g, differs from the NumPy rotation by %.3g'
                                      % (str(adt).replace('torch.', ''), ang, mode, orth, dd, float(np.max(np.abs(got - want)))), rec,
                                      {'api': 'torch', 'what': 'double_precision_pipeline', 'angle_dtype': str(adt)})
                        return

def replay(ctx, rep):
    import odak.tools as NT
    r = rep['replay']
    pts = np.array(r['points'], dtype=np.float64)
    out = NT.rotate_points(pts.copy(), angles=r['angles'], mode=r['mode'], origin=list(r['origin']), offset=list(r['offset']))
    ok = True
    for i in range(len(pts)):
        for j in range(i):
            ok &= abs(np.linalg.norm(out[i] - out[j]) - np.linalg.norm(pts[i] - pts[j])) < 1e-7
    print('rotated:', out.tolist())
    return bool(ok)
