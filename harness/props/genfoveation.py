"""Executable tie of the REGENERATED foveation definitions (OdakModel/Generated/FoveationGen.lean, written by
harness/translate/foveation.py from the current source) to the implementation: the generated definitions are evaluated at Float by the
model driver (ops g_* of OdakModel/Exec/OpsGenFovea.lean) and compared with

* `make_3d_location_map`, `make_eccentricity_distance_maps`, `make_pooling_size_map_pixels / _lod`, `make_equi_pooling_size_map_pixels /
  _lod`, `make_radial_map` called directly.  The maps are built from `torch.linspace / ones / tensor`, which follow the default dtype: the
  functions are run once with the default dtype set to float64 (tight comparison of the formulas) and once as shipped (float32, loose
  tolerance away from the gaze, where `acos` near 1 amplifies the float32 rounding);
* `RadiallyVaryingBlur.blur`: the blend fraction, the per-pixel level selection and blending (the mip levels are rebuilt here the way the
  source does, the driver gets the pixel's values in all levels) and the sizes of the mip chain;
* `pad_image_for_pyramid` on tagged images: output shape and the source position of every output pixel.

Inputs: random gazes, gazes on pixel centres (interior, borders, corners), the image centre, both modes, equirectangular gaze angles
including the poles and the seam.  A disagreement means the translator mis-read the source (or the source does something the model's
primitives do not): `ctx.alarm('correspondence', …)`."""
import math
import numpy as np
import torch
from ..lib.core import f2b, b2f


class float64_default:
    def __enter__(self):
        self.old = torch.get_default_dtype()
        torch.set_default_dtype(torch.float64)

    def __exit__(self, *a):
        torch.set_default_dtype(self.old)


def _pairs(pts):
    return ' '.join('%d %d' % p for p in pts)


def _bad(o):
    return o in ('bad-op', 'bad-args')


def check_generated_foveation(ctx):
    if not ctx.drv_ok:
        return
    import odak.learn.perception.foveation as FV
    rng = ctx.rng
    worst = {}

    def note(key, d):
        worst[key] = max(worst.get(key, 0.0), float(d))

    # ------------------------------------------------------------------ flat-screen maps
    cases = []
    for (h, w) in [(17, 33), (32, 48), (40, 40), (9, 5)]:
        ci, cj = rng.randrange(h), rng.randrange(w)
        gazes = [('random', [rng.random(), rng.random()], None), ('centre', [0.5, 0.5], None),
                 ('pixel-centre', [cj / (w - 1), ci / (h - 1)], (ci, cj)), ('corner', [0.0, 0.0], (0, 0)),
                 ('corner', [1.0, 1.0], (h - 1, w - 1)), ('corner', [1.0, 0.0], (0, w - 1)), ('border', [0.0, ci / (h - 1)], (ci, 0))]
        for kind, gaze, gp in gazes[: ctx.n(7, 7)]:
            for mode in ('quadratic', 'linear'):
                alpha, width, dist = rng.uniform(0.05, 0.6), rng.uniform(0.1, 0.6), rng.uniform(0.3, 1.2)
                pts = [(rng.randrange(h), rng.randrange(w)) for _ in range(5)] + [(0, 0), (h - 1, w - 1), (0, w - 1), (h - 1, 0), (h // 2, w // 2)]
                if gp is not None:
                    pts.append(gp)
                cases.append((kind, h, w, gaze, mode, alpha, width, dist, pts, gp))
    lines = ['g_pool %d %d %d %d %d %d %d %d %s' % (1 if mode == 'quadratic' else 0, h, w, f2b(gaze[0]), f2b(gaze[1]), f2b(alpha), f2b(width),
                                                  f2b(dist), _pairs(pts)) for (_, h, w, gaze, mode, alpha, width, dist, pts, _) in cases]
    outs = ctx.model.ask(lines)
    for (kind, h, w, gaze, mode, alpha, width, dist, pts, gp), o in zip(cases, outs):
        ctx.case(('generated-fovea', kind, h, w, mode, tuple(gaze)), True)
        ctx.count('generated-fovea/%s/%s' % (kind, mode))
        if _bad(o):
            ctx.alarm('correspondence', 'model driver does not know the op g_pool (%s)' % o)
            return
        m = np.array([b2f(t) for t in o.split()]).reshape(len(pts), 7)
        try:
            with float64_default():
                loc = FV.make_3d_location_map((h, w), width, dist)
                ecc, dmap = FV.make_eccentricity_distance_maps(gaze, (h, w), width, dist)
                px = FV.make_pooling_size_map_pixels(gaze, (h, w), alpha, width, dist, mode)
                lod = FV.make_pooling_size_map_lod(gaze, (h, w), alpha, width, dist, mode)
            px32 = FV.make_pooling_size_map_pixels(gaze, (h, w), alpha, width, dist, mode)
            lod32 = FV.make_pooling_size_map_lod(gaze, (h, w), alpha, width, dist, mode)
            ecc32, _ = FV.make_eccentricity_distance_maps(gaze, (h, w), width, dist)
        except Exception as e:
            ctx.alarm('correspondence', 'generated-foveation check: the implementation raised %r for %s' % (e, (h, w, gaze, mode)))
            continue
        if tuple(loc.shape) != (3, h, w) or tuple(ecc.shape) != (h, w) or tuple(px.shape) != (h, w) or tuple(lod.shape) != (h, w):
            ctx.alarm('correspondence', 'the maps do not have the shapes the generated model assumes ([3, h, w] / [h, w]): %s %s %s'
                      % (tuple(loc.shape), tuple(ecc.shape), tuple(px.shape)))
            continue
        for (i, j), row in zip(pts, m):
            impl = [float(loc[0, i, j]), float(loc[1, i, j]), float(loc[2, i, j]), float(ecc[i, j]), float(dmap[i, j]), float(px[i, j]), float(lod[i, j])]
            # acos near 1: an error of one ulp in the dot product is an error of ~1.5e-8 in the angle
            near = impl[3] < 1e-6 or row[3] < 1e-6
            tols = [1e-12, 1e-12, 1e-12, 3e-8 if near else 1e-9, 1e-12, 1e-3 if near else 1e-7, 1e-3 if near else 1e-7]
            names = ['x', 'y', 'z', 'eccentricity', 'distance', 'pooling pixels', 'lod']
            for nm, a, b, tol in zip(names, impl, row, tols):
                d = abs(a - b)
                note('fovea/' + nm, d / max(1.0, abs(a)))
                if not d <= tol * max(1.0, abs(a)):
                    ctx.alarm('correspondence', 'generated foveation model (Generated/FoveationGen.lean): %s at pixel (%d, %d) is %r, the '
                              'implementation (float64) gives %r; size %dx%d gaze %s mode %s alpha %g width %g distance %g'
                              % (nm, i, j, b, a, h, w, gaze, mode, alpha, width, dist))
                    break
            # as shipped (float32): the same numbers up to float32 rounding, away from the ill-conditioned neighbourhood of the gaze
            if float(ecc32[i, j]) > 0.02 and abs(row[5] - float(px32[i, j])) > 5e-3 * max(1.0, abs(row[5])):
                ctx.alarm('correspondence', 'generated pooling size %r differs from the float32 implementation %r at (%d, %d), size %dx%d gaze %s'
                          % (row[5], float(px32[i, j]), i, j, h, w, gaze))
            if float(ecc32[i, j]) > 0.02 and abs(row[6] - float(lod32[i, j])) > 5e-3:
                ctx.alarm('correspondence', 'generated lod %r differs from the float32 implementation %r at (%d, %d), size %dx%d gaze %s'
                          % (row[6], float(lod32[i, j]), i, j, h, w, gaze))
        if gp is not None:                         # conclusion of C18_gen_lod_min_at_gaze on the Float model: 0 at the gaze pixel
            row = m[-1]
            if not (row[6] == 0.0 and row[5] < 1e-3):
                ctx.alarm('correspondence', 'generated model: lod %r / pooling %r at the gaze pixel %s of a %dx%d image is not zero' % (row[6], row[5], gp, h, w))
    # ------------------------------------------------------------------ equirectangular maps
    cases = []
    for (h, w) in [(16, 32), (24, 48), (9, 17)]:
        ci, cj = rng.randrange(h), rng.randrange(w)
        yaw = -math.pi + 2 * math.pi * cj / (w - 1)
        pitch = -math.pi / 2 + math.pi * ci / (h - 1)
        for kind, ang, gp in [('random', [rng.uniform(-math.pi, math.pi), rng.uniform(-math.pi / 2, math.pi / 2)], None),
                              ('pixel-centre', [yaw, pitch], (ci, cj)), ('pole', [0.3, math.pi / 2], None), ('seam', [math.pi, 0.1], None),
                              ('forward', [0.0, 0.0], None)]:
            for mode in ('quadratic', 'linear'):
                alpha = rng.uniform(0.05, 0.5)
                pts = [(rng.randrange(h), rng.randrange(w)) for _ in range(5)] + [(0, 0), (h - 1, w - 1), (h // 2, w // 2)] + ([gp] if gp else [])
                cases.append((kind, h, w, ang, mode, alpha, pts, gp))
    outs = ctx.model.ask(['g_equi %d %d %d %d %d %d %s' % (1 if mode == 'quadratic' else 0, h, w, f2b(ang[0]), f2b(ang[1]), f2b(alpha), _pairs(pts))
                          for (_, h, w, ang, mode, alpha, pts, _) in cases])
    for (kind, h, w, ang, mode, alpha, pts, gp), o in zip(cases, outs):
        ctx.case(('generated-equi', kind, h, w, mode, tuple(ang)), True)
        ctx.count('generated-equi/%s/%s' % (kind, mode))
        if _bad(o):
            ctx.alarm('correspondence', 'model driver does not know the op g_equi (%s)' % o)
            return
        m = np.array([b2f(t) for t in o.split()]).reshape(len(pts), 2)
        try:
            with float64_default():
                px = FV.make_equi_pooling_size_map_pixels(ang, (h, w), alpha, mode)
                lod = FV.make_equi_pooling_size_map_lod(ang, (h, w), alpha, mode)
        except Exception as e:
            ctx.alarm('correspondence', 'generated-foveation check: the equirectangular implementation raised %r' % (e,))
            continue
        for (i, j), row in zip(pts, m):
            a, b = float(px[i, j]), float(lod[i, j])
            if math.isnan(a) or math.isnan(row[0]):          # unclamped acos of a dot product that rounds above 1: NaN on both sides or neither
                if math.isnan(a) != math.isnan(row[0]):
                    # the two sides round the dot product differently by one ulp: not a disagreement of the formulas
                    ctx.count('generated-equi/nan-on-one-side')
                continue
            near = a < 1e-3
            note('equi/pixels', abs(a - row[0]) / max(1.0, abs(a)))
            if not (abs(a - row[0]) <= (2e-3 if near else 1e-7) * max(1.0, abs(a)) and abs(b - row[1]) <= (2e-3 if near else 1e-7)):
                ctx.alarm('correspondence', 'generated equirectangular model: pooling %r / lod %r at (%d, %d), the implementation (float64) gives '
                          '%r / %r; size %dx%d angles %s mode %s alpha %g' % (row[0], row[1], i, j, a, b, h, w, ang, mode, alpha))
                break
    # ------------------------------------------------------------------ radial map
    cases = []
    for (s0, s1) in [(12, 20), (16, 16), (7, 30)]:
        for gaze in ([rng.random(), rng.random()], [0.5, 0.5], [0.0, 1.0]):
            pts = [(rng.randrange(s0), rng.randrange(s1)) for _ in range(4)] + [(0, 0), (s0 - 1, s1 - 1)]
            cases.append((s0, s1, gaze, pts))
    outs = ctx.model.ask(['g_radial %d %d %d %d %s' % (s0, s1, f2b(g[0]), f2b(g[1]), _pairs(pts)) for (s0, s1, g, pts) in cases])
    for (s0, s1, gaze, pts), o in zip(cases, outs):
        ctx.case(('generated-radial', s0, s1, tuple(gaze)), True)
        ctx.count('generated-radial')
        if _bad(o):
            ctx.alarm('correspondence', 'model driver does not know the op g_radial (%s)' % o)
            return
        m = np.array([b2f(t) for t in o.split()]).reshape(len(pts), 3)
        with float64_default():
            rm = FV.make_radial_map((s0, s1), gaze)
        for (i, j), row in zip(pts, m):
            note('radial', abs(float(rm[i, j]) - row[2]))
            if not (abs(float(rm[i, j]) - row[2]) <= 1e-9 and abs(row[1] - row[2]) <= 1e-12):
                ctx.alarm('correspondence', 'generated radial map %r at (%d, %d) vs implementation %r; size %s gaze %s' % (row[2], i, j, float(rm[i, j]), (s0, s1), gaze))
                break
    check_generated_blur(ctx, note)
    check_generated_pyramid_pad(ctx)
    ctx.extra['max_generated_foveation_impl_difference'] = worst


def mip_levels(image):
    """the mip chain of RadiallyVaryingBlur.blur, every level up-sampled to the image size (as the source builds it)"""
    F = torch.nn.functional
    mipmap = [image]
    while mipmap[-1].size(-1) > 1 and mipmap[-1].size(-2) > 1:
        mipmap.append(F.interpolate(mipmap[-1], scale_factor=0.5, mode='area', recompute_scale_factor=False))
    if mipmap[-1].size(-1) == 2:
        mipmap.append(torch.mean(mipmap[-1], axis=-1)[..., None])
    if mipmap[-1].size(-2) == 2:
        mipmap.append(torch.mean(mipmap[-2], axis=-2)[..., None, :])
    sizes = [(int(m.size(-2)), int(m.size(-1))) for m in mipmap]
    for l in range(len(mipmap)):
        if l == len(mipmap) - 1:
            mipmap[l] = mipmap[l] * torch.ones(image.size())
        else:
            for _ in range(l - 1, -1, -1):
                mipmap[l] = F.interpolate(mipmap[l], size=(image.size(-2), image.size(-1)), mode='bilinear', align_corners=False,
                                          recompute_scale_factor=False)
    return sizes, mipmap


def check_generated_blur(ctx, note):
    from odak.learn.perception.radially_varying_blur import RadiallyVaryingBlur
    rng = ctx.rng
    jobs = []
    for (h, w) in [(32, 32), (32, 48), (17, 29), (16, 64)][: ctx.n(3, 4)]:
        for equi in (False, True):
            gaze = [rng.random(), rng.random()] if rng.random() < 0.5 else [rng.randrange(w) / (w - 1), rng.randrange(h) / (h - 1)]
            centre = [rng.uniform(-3, 3), rng.uniform(-1.5, 1.5)] if equi else gaze
            alpha, mode = rng.uniform(0.1, 0.9), rng.choice(['quadratic', 'linear'])
            img = torch.rand(1, 2, h, w, generator=torch.Generator().manual_seed(rng.randrange(10 ** 6)))
            b = RadiallyVaryingBlur()
            try:
                out = b.blur(img, alpha, 0.2, 0.7, centre, mode, equi)
                sizes, mips = mip_levels(img)
            except Exception as e:
                ctx.alarm('correspondence', 'generated-blur check: RadiallyVaryingBlur.blur raised %r for %dx%d' % (e, h, w))
                continue
            lod, frac = b.lod_map.double(), b.lod_fraction.double()
            flat = torch.argsort(lod.reshape(-1))
            picks = [int(flat[0]), int(flat[-1])] + [int(flat[rng.randrange(h * w)]) for _ in range(ctx.n(10, 40))]
            for l in range(1, len(mips)):                                   # a pixel in every level that occurs
                idx = torch.nonzero((lod.reshape(-1) >= l) & (lod.reshape(-1) < l + 1))
                if len(idx):
                    picks.append(int(idx[rng.randrange(len(idx))]))
            jobs.append((h, w, equi, sizes, mips, out, lod, frac, picks))
    lines, meta = [], []
    for (h, w, equi, sizes, mips, out, lod, frac, picks) in jobs:
        lines.append('g_mips %d %d %d' % (h + w, h, w))
        meta.append(('mips', h, w, sizes))
        for p in picks:
            i, j = divmod(p, w)
            for c in range(out.shape[1]):
                vals = [float(m[0, c, i, j]) for m in mips]
                lines.append('g_blur %d %d %d %s' % (len(mips), f2b(float(lod[i, j])), f2b(float(frac[0, c, i, j])), ' '.join(str(f2b(v)) for v in vals)))
                meta.append(('px', h, w, equi, i, j, c, float(out[0, c, i, j]), float(lod[i, j]), float(frac[0, c, i, j]), len(mips)))
    outs = ctx.model.ask(lines)
    for mt, o in zip(meta, outs):
        if _bad(o):
            ctx.alarm('correspondence', 'model driver does not know the generated blur ops (%s)' % o)
            return
        if mt[0] == 'mips':
            _, h, w, sizes = mt
            got = [int(t) for t in o.split()]
            got = list(zip(got[0::2], got[1::2]))
            ctx.case(('generated-mips', h, w), True)
            ctx.count('generated-blur/mip-chain')
            if got != sizes:
                ctx.alarm('correspondence', 'generated mip chain sizes %s differ from the implementation\'s %s for a %dx%d image' % (got, sizes, h, w))
            continue
        _, h, w, equi, i, j, c, val, lod, frac, L = mt
        mf, mv = [b2f(t) for t in o.split()]
        ctx.case(('generated-blur', h, w, equi, i, j, c), True)
        ctx.count('generated-blur/level-%d-of-%d' % (min(int(lod), L - 1), L))
        note('blur/fraction', abs(mf - frac))
        note('blur/pixel', abs(mv - val))
        if abs(mf - frac) > 1e-6:
            ctx.alarm('correspondence', 'generated blend fraction %r differs from lod_fraction %r (lod %r)' % (mf, frac, lod))
        if abs(mv - val) > 1e-5 * max(1.0, abs(val)):
            ctx.alarm('correspondence', 'generated blur pixel %r differs from the implementation %r at (%d, %d) channel %d of a %dx%d image '
                      '(lod %r, %d levels, equi=%s)' % (mv, val, i, j, c, h, w, lod, L, equi))


def check_generated_pyramid_pad(ctx):
    from odak.learn.perception.spatial_steerable_pyramid import pad_image_for_pyramid
    rng = ctx.rng
    sizes = sorted(set([(1, 1), (2, 3), (8, 8), (16, 32), (7, 9), (30, 20), (31, 33), (17, 64), (64, 17), (5, 12)] +
                       [(rng.randint(1, 70), rng.randint(1, 70)) for _ in range(ctx.n(10, 80))]))
    cases = [(h, w, n) for (h, w) in sizes for n in (1, 2, 3, 4)]
    lines = []
    for (h, w, n) in cases:
        lines += ['g_pyr 0 %d %d %d' % (h, w, 2 ** n), 'g_pyr 1 %d %d %d' % (h, w, 2 ** n), 'g_pyr_info %d %d %d' % (h, w, 2 ** n)]
    outs = ctx.model.ask(lines)
    for k, (h, w, n) in enumerate(cases):
        o0, o1, info = outs[3 * k: 3 * k + 3]
        if _bad(o0) or _bad(o1) or _bad(info):
            ctx.alarm('correspondence', 'model driver does not know the generated pyramid-pad ops')
            return
        m0, m1, inf = [int(t) for t in o0.split()], [int(t) for t in o1.split()], [int(t) for t in info.split()]
        d = 2 ** n
        rh, rw = -(-h // d) * d, -(-w // d) * d
        ctx.case(('generated-pyramid-pad', h, w, n), rh > h or rw > w)
        ctx.count('generated-pyramid-pad/' + ('fits' if (rh, rw) == (h, w) else 'pads'))
        x = torch.arange(1, 2 * h * w + 1, dtype=torch.float32).reshape(1, 2, h, w)
        try:
            y = pad_image_for_pyramid(x, n)
        except Exception:
            if m0[0] == 1 and m1[0] == 1:
                ctx.alarm('correspondence', 'pad_image_for_pyramid raises for %dx%d, %d levels, the generated model calls the pad admissible' % (h, w, n))
            continue
        if inf[0] == 0 and y is not x:
            ctx.alarm('correspondence', 'generated model: no padding needed for %dx%d, %d levels, but the implementation returns a new tensor' % (h, w, n))
        if inf[0] == 1 and y is x:
            ctx.alarm('correspondence', 'generated model: padding needed for %dx%d, %d levels, but the implementation returns the input' % (h, w, n))
        if m0[0] != 1 or m1[0] != 1:
            ctx.alarm('correspondence', 'generated model calls the pad of %dx%d, %d levels inadmissible, the implementation pads' % (h, w, n))
            continue
        s0, s1 = np.array(m0[2:], dtype=int), np.array(m1[2:], dtype=int)
        x_np, y_np = x.numpy(), y.numpy()
        if (len(s0), len(s1)) != tuple(y_np.shape[2:]):
            ctx.alarm('correspondence', 'generated pyramid pad gives %dx%d for %dx%d, %d levels, the implementation %s' % (len(s0), len(s1), h, w, n, tuple(y_np.shape[2:])))
            continue
        exp = np.where((s0[:, None] >= 0) & (s1[None, :] >= 0), x_np[:, :, np.maximum(s0, 0)[:, None], np.maximum(s1, 0)[None, :]], 0.0)
        if not np.array_equal(exp, y_np):
            ctx.alarm('correspondence', 'pad_image_for_pyramid differs from the generated index model (Generated/FoveationGen.lean: pyrPadG) for %dx%d, %d levels' % (h, w, n))
