"""C07 – hologram optimisers return a displayable hologram and its true reconstruction.
For every routine (torch / NumPy Gerchberg-Saxton, NumPy multi-plane Gerchberg-Saxton, stochastic gradient descent, multi-colour optimiser,
legacy multiplane optimiser, double-phase depth shift):
finite output of the input's resolution, the advertised display constraint, and the returned reconstruction compared with (a) the
implementation re-propagating the returned hologram with the same settings and (b) the Lean model's forward of the returned hologram."""
import logging
import math
import warnings
import numpy as np
import torch
from ..lib.core import f2b, b2f
from . import wavelib as W

logging.disable(logging.WARNING)
warnings.filterwarnings('ignore')

TRUSTED = ['Adam / AdamW and the random initial phases are not modelled: contracts are checked on whatever state the optimiser ends in',
           'FFT = model DFT; pad / crop through the regenerated index maps']
ASSUMPTIONS = ['1-3 iterations (the contracts do not depend on convergence); non-dimensional optics lambda ~ 0.5, dx ~ 1']


def run(ctx):
    import odak.learn.wave as LW
    import odak.wave as NW
    rng = ctx.rng
    ctx.rule = ('targets of even / odd / non-square resolution x distances of either sign x 1-3 iterations x seeds x methods x bit depths; '
                'non-trivial = non-constant target; distinct by (routine, resolution, distance, iterations, seed)')
    k = lambda lam: 2 * math.pi / lam
    lam, dx = 0.5, 0.8
    shapes = [(6, 6), (5, 7), (7, 5), (8, 8), (9, 9)] if ctx.quick else [(a, b) for a in (5, 6, 7, 8, 9, 12) for b in (5, 6, 7, 9)]
    # ---------------- torch Gerchberg-Saxton
    for (h, w) in shapes:
        for n_it in (1, 2, 3):
            for z in (rng.uniform(0.5, 5), -rng.uniform(0.5, 5)):
                for name, mi in (('Transfer Function Fresnel', 1), ('Angular Spectrum', 0)):
                    if ctx.quick and rng.random() < 0.6:
                        continue
                    torch.manual_seed(rng.randrange(10 ** 6))
                    field = torch.rand(h, w, dtype=torch.float64) * torch.exp(1j * torch.rand(h, w, dtype=torch.float64) * 6.28)
                    rec = {'routine': 'gerchberg_saxton', 'h': h, 'w': w, 'iterations': n_it, 'distance': z, 'method': name}
                    ctx.case(('gs', h, w, n_it, round(z, 6), name), True, rec if len(ctx.samples) < 3 else None)
                    ctx.count('gs/%s/%s' % ('odd' if (h % 2 or w % 2) else 'even', 'neg' if z < 0 else 'pos'))
                    try:
                        holo, recon = LW.gerchberg_saxton(field, n_it, z, dx, lam, propagation_type=name)
                    except Exception as e:
                        ctx.violation('torch gerchberg_saxton raised %r' % e, rec, {'routine': 'gerchberg_saxton', 'what': 'raises'})
                        continue
                    hn, rn = holo.numpy().astype(np.complex128), recon.numpy().astype(np.complex128)
                    if hn.shape != (h, w) or rn.shape != (h, w) or not (np.isfinite(hn).all() and np.isfinite(rn).all()):
                        ctx.violation('torch gerchberg_saxton: non-finite output or wrong resolution', rec, {'routine': 'gerchberg_saxton', 'what': 'finite_shape'})
                        continue
                    again = W.impl('torch', 'tf' if mi == 1 else 'as', hn, dx, lam, z, zero_padding=(True, False, True)).reshape(h, w)
                    scale = max(1.0, float(np.max(np.abs(again))))
                    if W.maxdiff(rn, again) > 5e-4 * scale:
                        ctx.violation('torch gerchberg_saxton: the returned reconstruction is not the propagation of the returned hologram (diff %.3g)'
                                      % W.maxdiff(rn, again), rec, {'routine': 'gerchberg_saxton', 'what': 'reconstruction'})
                    if ctx.drv_ok:
                        mo = W.dec_field(ctx.model.ask(['t_pc %d %d %d %d %d %d %s' % (mi, h, w, f2b(dx), f2b(lam), f2b(z), W.enc_field(hn))])[0], h, w)
                        if W.maxdiff(rn, mo) > 5e-4 * scale:
                            ctx.alarm('correspondence', 'gerchberg_saxton reconstruction differs from the model forward of the returned hologram by %.3g (%s)'
                                      % (W.maxdiff(rn, mo), rec))
    # ---------------- the same in SI units (metres: k z is millions of radians, so the precision in which the distance is carried matters), with the distance
    # handed over as a Python float, a NumPy float64 scalar, a 0-d float64 tensor, and with torch's default dtype set to float64 by the caller: the returned
    # reconstruction is what the public propagate_beam gives for the returned hologram and the caller's own distance
    lam_si, dx_si = 515e-9, 8e-6
    for (h, w) in ((16, 16), (15, 18)):
        for z_si in (0.2, 0.05, -0.1):
            for name in ('Transfer Function Fresnel', 'Angular Spectrum', 'Bandlimited Angular Spectrum'):
                for what in ('Python float', 'NumPy float64 scalar', '0-d float64 tensor', 'default dtype float64'):
                    zz = {'Python float': z_si, 'NumPy float64 scalar': np.float64(z_si), '0-d float64 tensor': torch.tensor(z_si, dtype=torch.float64),
                          'default dtype float64': z_si}[what]
                    rec = {'routine': 'gerchberg_saxton', 'h': h, 'w': w, 'iterations': 2, 'distance': z_si, 'method': name, 'si_units': True, 'distance_given_as': what}
                    ctx.case(('gs_si', h, w, z_si, name, what), True)
                    ctx.count('gs/SI units/distance as ' + what)
                    old_default = torch.get_default_dtype()
                    try:
                        if what == 'default dtype float64':
                            torch.set_default_dtype(torch.float64)
                        torch.manual_seed(11)
                        field = torch.rand(h, w, dtype=torch.float64) * torch.exp(1j * torch.rand(h, w, dtype=torch.float64) * 6.28)
                        holo, recon = LW.gerchberg_saxton(field, 2, zz, dx_si, lam_si, propagation_type=name)
                        again = LW.propagate_beam(holo, LW.wavenumber(lam_si), zz, dx_si, lam_si, propagation_type=name, zero_padding=[True, False, True])
                    except Exception as e:
                        ctx.count('gs/SI units/rejected: %s (%s)' % (what, type(e).__name__))
                        continue
                    finally:
                        torch.set_default_dtype(old_default)
                    rn, an = recon.detach().numpy().astype(np.complex128), again.detach().numpy().astype(np.complex128).reshape(recon.shape)
                    scale = max(1e-30, float(np.max(np.abs(an))))
                    if not np.isfinite(rn).all() or W.maxdiff(rn, an) > 2e-3 * scale:
                        ctx.violation('torch gerchberg_saxton (%s, %dx%d, z = %g m, distance given as %s): the returned reconstruction differs from propagate_beam of the '
                                      'returned hologram over the same distance by %.3g of the peak amplitude' % (name, h, w, z_si, what, W.maxdiff(rn, an) / scale), rec,
                                      {'routine': 'gerchberg_saxton', 'what': 'reconstruction', 'si_units': True, 'distance_given_as': what})
    # ---------------- torch stochastic gradient descent (pad-then-crop propagation)
    sgd_methods = (('Bandlimited Angular Spectrum', 'bl', 2), ('Angular Spectrum', 'as', 0), ('Transfer Function Fresnel', 'tf', 1))
    for (h, w) in shapes:
        for z in (rng.uniform(0.5, 5), -rng.uniform(0.5, 5)):
            # every advertised propagation type: the loop and the final reconstruction must use the one the caller asked for
            for (name, short, mi) in sgd_methods:
                if ctx.quick and rng.random() < 0.6:
                    continue
                n_it = rng.choice([1, 2, 3])
                torch.manual_seed(rng.randrange(10 ** 6))
                target = torch.rand(h, w)
                rec = {'routine': 'stochastic_gradient_descent', 'h': h, 'w': w, 'iterations': n_it, 'distance': z, 'method': name}
                ctx.case(('sgd', h, w, n_it, round(z, 6), name), True, rec if len(ctx.samples) < 5 else None)
                ctx.count('sgd/%s/%s' % (short, 'odd' if (h % 2 or w % 2) else 'even'))
                try:
                    holo, recon = LW.stochastic_gradient_descent(target, lam, z, dx, propagation_type=name, n_iteration=n_it)
                except Exception as e:
                    ctx.violation('stochastic_gradient_descent raised %r' % e, rec, {'routine': 'stochastic_gradient_descent', 'what': 'raises'})
                    continue
                hn, rn = holo.detach().numpy().astype(np.complex128), recon.detach().numpy().astype(np.complex128)
                if hn.shape != (h, w) or rn.shape[-2:] != (h, w) or not (np.isfinite(hn).all() and np.isfinite(rn).all()):
                    ctx.violation('stochastic_gradient_descent: non-finite output or wrong resolution %s / %s' % (hn.shape, rn.shape), rec,
                                  {'routine': 'stochastic_gradient_descent', 'what': 'finite_shape', 'odd': bool(h % 2 or w % 2)})
                    continue
                if np.max(np.abs(np.abs(hn) - 1)) > 1e-5:
                    ctx.violation('stochastic_gradient_descent: the returned phase-only hologram does not have unit amplitude', rec,
                                  {'routine': 'stochastic_gradient_descent', 'what': 'unit_amplitude'})
                again = W.impl('torch', short, hn.astype(np.complex64), dx, lam, z, zero_padding=(True, False, True))
                scale = max(1.0, float(np.max(np.abs(again))))
                if W.maxdiff(rn.reshape(h, w), again.reshape(h, w)) > 5e-4 * scale:
                    ctx.violation('stochastic_gradient_descent(%s): the returned reconstruction is not the propagation of the returned hologram '
                                  'with the requested method (diff %.3g)' % (name, W.maxdiff(rn.reshape(h, w), again.reshape(h, w))), rec,
                                  {'routine': 'stochastic_gradient_descent', 'what': 'reconstruction'})
                if ctx.drv_ok and (short != 'bl' or W.bl_margin_ok(2 * h, 2 * w, dx, lam, z, 'torch')):
                    line = 't_pc %d %d %d %d %d %d %s' % (mi, h, w, f2b(dx), f2b(lam), f2b(z), W.enc_field(hn))
                    mo = W.dec_field(ctx.model.ask([line])[0], h, w)
                    if W.maxdiff(rn.reshape(h, w), mo) > 1e-3 * scale:
                        ctx.alarm('correspondence', 'SGD reconstruction differs from the model (pad, %s, crop) of the returned hologram by %.3g (%s)'
                                  % (name, W.maxdiff(rn.reshape(h, w), mo), rec))
    # ---------------- NumPy Gerchberg-Saxton
    even_seen = 0
    for (h, w) in shapes:
        even = not (h % 2 or w % 2)
        if even:
            even_seen += 1
        for zi, z in enumerate((rng.uniform(0.5, 3), -rng.uniform(0.5, 3))):
            # quick tier: one sign per shape, alternating over the EVEN shapes (odd ones raise: finding F30), so both signs are always exercised
            if ctx.quick and zi != (even_seen % 2 if even else 0):
                continue
            np.random.seed(rng.randrange(10 ** 6))
            field = np.random.rand(h, w) + 0j
            rec = {'routine': 'np.gerchberg_saxton', 'h': h, 'w': w, 'distance': z}
            ctx.count('np.gerchberg_saxton/%s/%s' % ('even' if even else 'odd', 'z>0' if z > 0 else 'z<0'))
            ctx.case(('npgs', h, w, round(z, 6)), True)
            odd = bool(h % 2 or w % 2)
            try:
                holo, recon = NW.gerchberg_saxton(field, 2, z, dx, lam, 2 * np.pi, 'Transfer Function Fresnel')
            except Exception as e:
                ctx.violation('NumPy gerchberg_saxton raised %r for a %dx%d field' % (e, h, w), rec,
                              {'routine': 'np.gerchberg_saxton', 'what': 'raises', 'odd': odd})
                continue
            if holo.shape != (h, w) or recon.shape != (h, w):
                ctx.violation('NumPy gerchberg_saxton returns %s / %s for a %dx%d field' % (holo.shape, recon.shape, h, w), rec,
                              {'routine': 'np.gerchberg_saxton', 'what': 'shape', 'odd': odd})
                continue
            if not np.isfinite(holo).all() or np.max(np.abs(np.abs(holo) - 1)) > 1e-9:
                ctx.violation('NumPy gerchberg_saxton: hologram is not finite / unit amplitude', rec, {'routine': 'np.gerchberg_saxton', 'what': 'unit_amplitude'})
            import odak.tools as NT
            again = NT.crop_center(NW.propagate_beam(NT.zero_pad(holo), k(lam), z, dx, lam, 'Transfer Function Fresnel'))
            if W.maxdiff(recon, again) > 1e-9 * max(1.0, float(np.max(np.abs(again)))):
                ctx.violation('NumPy gerchberg_saxton: returned reconstruction is not the propagation of the returned hologram', rec,
                              {'routine': 'np.gerchberg_saxton', 'what': 'reconstruction'})
    # ---------------- multi-colour optimiser: quantised phases on the grid, reconstruction = propagator.reconstruct(returned phases)
    for (h, w) in ([(32, 32), (33, 35)] if ctx.quick else [(32, 32), (33, 35), (40, 32), (37, 37)]):
        for bits in (2, 4, 8):
            for method in ('conventional', 'multi-color'):
                if ctx.quick and rng.random() < 0.5:
                    continue
                torch.manual_seed(rng.randrange(10 ** 6))
                wl = [0.6, 0.5, 0.45]
                # Fourier-plane aperture: the default circular mask or a user-supplied apodised (non-binary) pinhole; both propagator types
                apk = rng.choice(['default', 'apodised'])
                ptype = rng.choice(['forward', 'back and forth'])
                yy, xx = np.meshgrid(np.arange(h) - h // 2, np.arange(w) - w // 2, indexing='ij')
                apt = None if apk == 'default' else torch.tensor(np.exp(-(xx ** 2 + yy ** 2) / (0.35 * min(h, w)) ** 2), dtype=torch.float32)

                def make_prop():
                    return LW.propagator(resolution=[h, w], wavelengths=wl, pixel_pitch=dx, number_of_frames=3, number_of_depth_layers=2,
                                         volume_depth=2.0, image_location_offset=1.0, propagation_type='Bandlimited Angular Spectrum',
                                         propagator_type=ptype, back_and_forth_distance=1.5, aperture=apt, method=method, device=torch.device('cpu'))
                prop = make_prop()
                targets = torch.rand(2, 3, h, w)
                opt = LW.multi_color_hologram_optimizer(wavelengths=wl, resolution=[h, w], targets=targets, propagator=prop, number_of_frames=3,
                                                       number_of_depth_layers=2, learning_rate=0.02, double_phase=bool(rng.random() < 0.5),
                                                       method=method, device=torch.device('cpu'))
                rec = {'routine': 'multi_color_hologram_optimizer', 'h': h, 'w': w, 'bits': bits, 'method': method, 'aperture': apk, 'propagator_type': ptype}
                ctx.case(('mc', h, w, bits, method, apk, ptype), True, rec if len(ctx.samples) < 6 else None)
                ctx.count('multi_color/%d_bits' % bits)
                ctx.count('multi_color/aperture=%s/%s' % (apk, ptype))
                try:
                    phases, recon, _, _, _ = opt.optimize(number_of_iterations=2, weights=[1., 1., 1., 0.], bits=bits)
                except Exception as e:
                    ctx.violation('multi_color_hologram_optimizer.optimize raised %r' % e, rec, {'routine': 'multi_color', 'what': 'raises'})
                    continue
                p = phases.detach().numpy().astype(np.float64)
                lv = p / (2 * np.pi) * 2 ** bits
                tiny = bool(np.any(np.abs(lv - 2 ** bits) < 1e-3))
                if p.shape != (3, h, w) or not np.isfinite(p).all() or p.min() < 0 or p.max() >= 2 * np.pi or np.max(np.abs(lv - np.round(lv))) > 1e-3:
                    ctx.violation('multi_color optimiser: returned phases are not on the 2^%d grid inside [0, 2pi) (min %g max %g)' % (bits, p.min(), p.max()),
                                  rec, {'routine': 'multi_color', 'what': 'phase_grid', 'level_2powbits': tiny})
                again = prop.reconstruct(phases)
                if not torch.allclose(again, recon, atol=1e-5):
                    ctx.violation('multi_color optimiser: returned reconstruction differs from propagator.reconstruct(returned phases)', rec,
                                  {'routine': 'multi_color', 'what': 'reconstruction'})
                # "exactly what propagating that returned hologram with the same settings produces": a propagator built afresh with the
                # same settings has no history (the one inside the optimiser has run the whole optimisation loop before the final pass)
                fresh = make_prop()
                fresh.channel_power = prop.channel_power.detach().clone() if hasattr(prop, 'channel_power') else None
                try:
                    indep = fresh.reconstruct(phases)
                    scale_r = max(1.0, float(indep.abs().max()))
                    if indep.shape == recon.shape and float((indep - recon).abs().max()) > 2e-3 * scale_r:
                        ctx.violation('multi_color optimiser (%s aperture, %s): the returned reconstruction is not what a propagator with the same settings '
                                      'produces from the returned hologram (max difference %.3g, scale %.3g)'
                                      % (apk, ptype, float((indep - recon).abs().max()), scale_r), rec,
                                      {'routine': 'multi_color', 'what': 'reconstruction_vs_fresh', 'aperture': apk})
                except Exception as e:
                    ctx.note('fresh propagator could not re-propagate the returned hologram: %r' % (e,))
    # ---- long or fast-learning runs (iterations x learning rate of 10 and more: the raw phase variables drift over several periods): the returned phases
    # are still inside [0, 2 pi) on the 2^bits grid
    for (lr_, its_) in ((1.0, 10), (0.4, 40)) if ctx.quick else ((1.0, 10), (0.4, 60), (0.2, 150), (2.0, 12)):
        for dp_ in (False, True):
            h, w, bits = 32, 32, 8
            wl = [0.6, 0.5, 0.45]
            torch.manual_seed(rng.randrange(10 ** 6))
            prop = LW.propagator(resolution=[h, w], wavelengths=wl, pixel_pitch=dx, number_of_frames=3, number_of_depth_layers=2, volume_depth=2.0,
                                 image_location_offset=1.0, propagation_type='Bandlimited Angular Spectrum', propagator_type='forward', device=torch.device('cpu'))
            opt = LW.multi_color_hologram_optimizer(wavelengths=wl, resolution=[h, w], targets=torch.rand(2, 3, h, w), propagator=prop, number_of_frames=3,
                                                   number_of_depth_layers=2, learning_rate=lr_, double_phase=dp_, device=torch.device('cpu'))
            rec = {'routine': 'multi_color_hologram_optimizer', 'h': h, 'w': w, 'bits': bits, 'learning_rate': lr_, 'iterations': its_, 'double_phase': dp_}
            ctx.case(('mc_schedule', lr_, its_, dp_), True)
            ctx.count('multi_color/schedule lr x iterations = %g' % (lr_ * its_))
            try:
                phases, recon, _, _, _ = opt.optimize(number_of_iterations=its_, weights=[1., 1., 1., 0.], bits=bits)
            except Exception as e:
                ctx.violation('multi_color_hologram_optimizer.optimize raised %r (learning rate %g, %d iterations)' % (e, lr_, its_), rec, {'routine': 'multi_color', 'what': 'raises'})
                continue
            p = phases.detach().numpy().astype(np.float64)
            lv = p / (2 * np.pi) * 2 ** bits
            tiny = bool(np.any(np.abs(lv - 2 ** bits) < 1e-3)) and p.min() >= 0 and p.max() <= 2 * np.pi + 1e-6
            if not np.isfinite(p).all() or p.min() < 0 or p.max() >= 2 * np.pi or np.max(np.abs(lv - np.round(lv))) > 1e-3:
                ctx.violation('multi_color optimiser after %d iterations at learning rate %g: returned phases are not on the 2^%d grid inside [0, 2pi) (min %g max %g, '
                              '%d pixels outside)' % (its_, lr_, bits, p.min(), p.max(), int(np.sum((p < 0) | (p >= 2 * np.pi)))), rec,
                              {'routine': 'multi_color', 'what': 'phase_grid', 'level_2powbits': tiny})
    # ---- results stay what they were: two optimisations share ONE propagator (two targets, collected and verified at the end); the pair returned by the
    # first run must still be a hologram and its own reconstruction after the second run
    for (h, w) in ((32, 32), (33, 35)):
        torch.manual_seed(rng.randrange(10 ** 6))
        wl = [0.6, 0.5, 0.45]
        shared = LW.propagator(resolution=[h, w], wavelengths=wl, pixel_pitch=dx, number_of_frames=3, number_of_depth_layers=2, volume_depth=2.0,
                               image_location_offset=1.0, propagation_type='Bandlimited Angular Spectrum', propagator_type='forward', device=torch.device('cpu'))
        kept = []
        ctx.case(('shared_propagator', h, w), True)
        ctx.count('multi_color/two_runs_on_one_propagator')
        try:
            for run_i in range(2):
                opt = LW.multi_color_hologram_optimizer(wavelengths=wl, resolution=[h, w], targets=torch.rand(2, 3, h, w), propagator=shared, number_of_frames=3,
                                                       number_of_depth_layers=2, learning_rate=0.02, device=torch.device('cpu'))
                ph, rc, _, _, _ = opt.optimize(number_of_iterations=1, weights=[1., 1., 1., 0.], bits=8)
                kept.append((ph, rc, ph.detach().clone(), rc.detach().clone()))
        except Exception as e:
            ctx.note('two runs on one propagator raised %r' % (e,))
            continue
        for run_i, (ph, rc, ph0, rc0) in enumerate(kept):
            if not torch.equal(ph.detach(), ph0) or not torch.allclose(rc.detach(), rc0, atol=0, rtol=0):
                ctx.violation('multi_color optimiser: the hologram / reconstruction returned by run %d changed after a later run on the same propagator '
                              '(max change %.3g): the returned tensors alias internal buffers' % (run_i, float((rc.detach() - rc0).abs().max())),
                              {'routine': 'multi_color_hologram_optimizer', 'h': h, 'w': w, 'run': run_i}, {'routine': 'multi_color', 'what': 'result_changed_later'})
                break

    if ctx.drv_ok:
        vals = [rng.uniform(-20, 20) for _ in range(200)] + [0.0, 6.283185307179586, 1e-9]
        for bits in (2, 8):
            mo = ctx.model.ask(['quantized_phase %d %d' % (bits, f2b(v)) for v in vals])
            for v, o in zip(vals, mo):
                q = b2f(o)
                lvl = q / (2 * np.pi) * 2 ** bits
                ctx.case(('qmodel', bits, v), True)
                if not (0 <= q < 2 * np.pi + 1e-12 and abs(lvl - round(lvl)) < 1e-9):
                    ctx.alarm('correspondence', 'model quantizedPhase(%d, %r) = %r is off the grid' % (bits, v, q))
    legacy_multiplane_cases(ctx)
    gs3d_cases(ctx)
    from .genholograms import check_generated_holograms
    check_generated_holograms(ctx)         # Generated/Holograms.lean (Gerchberg-Saxton bodies, shift_w_double_phase) vs the real functions
    __import__('harness.props.genobjects', fromlist=['x']).check_optimizer_attrs(ctx)   # regenerated attribute flow of the multi-colour optimiser vs /repo (work package 13)
    # ---------------- double-phase depth shift
    for (h, w) in ([(6, 6), (8, 8), (6, 8)] if ctx.quick else [(6, 6), (8, 8), (6, 8), (10, 10), (12, 8)]):
        for d in (1e-3, -1e-3, 5e-4, -2e-3, 0.0):
            torch.manual_seed(rng.randrange(10 ** 6))
            phase = torch.rand(h, w) * 6.28
            rec = {'routine': 'shift_w_double_phase', 'h': h, 'w': w, 'depth_shift': d}
            ctx.case(('shift', h, w, d), True)
            ctx.count('shift/%s' % ('neg' if d < 0 else 'pos' if d > 0 else 'zero'))
            try:
                out = LW.shift_w_double_phase(phase, d, 8e-6, 515e-9)
            except Exception as e:
                ctx.violation('shift_w_double_phase raised %r' % e, rec, {'routine': 'shift_w_double_phase', 'what': 'raises'})
                continue
            if tuple(out.shape) != (h, w) or not torch.isfinite(out).all():
                ctx.violation('shift_w_double_phase returns a non-finite hologram (%d NaN) for depth shift %g' % (int(torch.isnan(out).sum()), d), rec,
                              {'routine': 'shift_w_double_phase', 'what': 'finite', 'negative_shift': d < 0})


def legacy_run(rec, seed):
    """build the legacy multiplane optimiser from a record, optimise, and evaluate the contracts; returns list of (what, text)"""
    import odak.learn.wave as LW
    h, w, planes = rec['h'], rec['w'], rec['planes']
    gen = torch.Generator().manual_seed(seed)
    targets = torch.rand(planes, h, w, generator=gen)
    if rec['target'] == 'constant':
        targets = torch.full((planes, h, w), 0.5)
    loss_function = None
    if rec['loss'] == 'multiplane_loss':
        ml = LW.multiplane_loss(torch.rand(3, h, w, generator=gen), torch.rand(h, w, generator=gen), number_of_planes=planes, target_blur_size=3)
        loss_function, targets = ml, ml.get_targets()[0]
    kw = dict(wavelength=rec['wavelength'], image_location=rec['image_location'], image_spacing=rec['image_spacing'], slm_pixel_pitch=rec['dx'],
              slm_resolution=[h, w], targets=targets, propagation_type=rec['method'], propagator_type=rec['propagator_type'],
              number_of_iterations=rec['iterations'], learning_rate=0.1, loss_function=loss_function, number_of_planes=planes,
              zero_mode_distance=rec['zero_mode_distance'])
    # the constructor reseeds torch from the clock (torch.random.seed()): pin it so that the run can be replayed from the record
    orig = torch.random.seed
    torch.random.seed = lambda: torch.manual_seed(seed)
    try:
        opt = LW.multiplane_hologram_optimizer(**kw)
    finally:
        torch.random.seed = orig
    phase, amplitude, recon = opt.optimize()
    fails = []
    if tuple(phase.shape) != (h, w) or tuple(amplitude.shape) != (h, w) or tuple(recon.shape) != (planes, h, w):
        return [('finite_shape', 'returns phase %s, amplitude %s, reconstructions %s for a %dx%d SLM and %d planes'
                 % (tuple(phase.shape), tuple(amplitude.shape), tuple(recon.shape), h, w, planes))]
    if not (torch.isfinite(phase).all() and torch.isfinite(amplitude).all() and torch.isfinite(recon).all()):
        return [('finite_shape', 'non-finite phase / amplitude / reconstruction')]
    if float((amplitude - 1).abs().max()) > 1e-5:
        fails.append(('unit_amplitude', 'the phase-only hologram has amplitudes in [%g, %g]' % (float(amplitude.min()), float(amplitude.max()))))
    if float(recon.min()) < 0:
        fails.append(('intensity', 'reconstructed intensities go down to %g' % float(recon.min())))
    holo = torch.polar(amplitude, phase)
    scale = max(1.0, float(recon.abs().max()))
    # (a) the object's own forward model applied to the returned hologram
    again = opt.reconstruct(amplitude, phase).detach()
    if float((again - recon).abs().max()) > 1e-5 * scale:
        fails.append(('reconstruction', 'returned intensities differ from reconstruct(returned amplitude, returned phase) by %.3g'
                      % float((again - recon).abs().max())))
    # (b) a propagator built afresh with the same settings (no history)
    fresh = LW.propagator(resolution=[h, w], wavelengths=[rec['wavelength']], pixel_pitch=rec['dx'], number_of_frames=1, number_of_depth_layers=planes,
                          volume_depth=planes * rec['image_spacing'], image_location_offset=rec['image_location'], propagation_type=rec['method'],
                          propagator_type=rec['propagator_type'], back_and_forth_distance=rec['zero_mode_distance'])
    for d in range(planes):
        indep = fresh(holo, 0, d).abs() ** 2
        if float((indep - recon[d]).abs().max()) > 5e-4 * scale:
            fails.append(('reconstruction_vs_fresh', 'plane %d: returned intensities differ from a fresh propagator with the same settings applied to the '
                          'returned hologram by %.3g (scale %.3g)' % (d, float((indep - recon[d]).abs().max()), scale)))
            break
    # (c) 'forward' propagators: plain pad / propagate / crop with the library's propagate_beam over the propagator's plane distances
    if rec['propagator_type'] == 'forward' and rec['method'] != 'Impulse Response Fresnel':
        for d in range(planes):
            z = float(fresh.distances[d])
            direct = LW.propagate_beam(holo, 2 * math.pi / rec['wavelength'], z, rec['dx'], rec['wavelength'], propagation_type=rec['method'],
                                       zero_padding=[True, False, True], aperture=fresh.aperture).abs() ** 2
            if float((direct - recon[d]).abs().max()) > 5e-4 * scale:
                fails.append(('reconstruction_vs_propagate_beam', 'plane %d at distance %g: returned intensities differ from propagate_beam of the returned '
                              'hologram by %.3g' % (d, z, float((direct - recon[d]).abs().max()))))
                break
    return fails


def legacy_multiplane_cases(ctx):
    rng = ctx.rng
    try:
        import odak.learn.wave as LW
        LW.multiplane_hologram_optimizer
    except (ImportError, AttributeError):
        ctx.note('odak.learn.wave.legacy.multiplane_hologram_optimizer is not importable: not exercised')
        return
    shapes = [(8, 8), (10, 12), (9, 9), (7, 10), (12, 8), (6, 6)] if ctx.quick else [(8, 8), (10, 12), (9, 9), (7, 10), (12, 8), (6, 6), (11, 13), (16, 16)]
    methods = ['Bandlimited Angular Spectrum', 'Angular Spectrum', 'Transfer Function Fresnel']
    k = 0
    for (h, w) in shapes:
        for ptype in ('back and forth', 'forward'):
            for rep_ in range(1 if ctx.quick else 3):
                k += 1
                rec = {'routine': 'multiplane_hologram_optimizer', 'h': h, 'w': w, 'planes': 1 + k % 3, 'iterations': 1 + (k // 2) % 3,
                       'method': methods[k % 3], 'propagator_type': ptype, 'wavelength': rng.choice([0.5, 0.6]), 'dx': rng.uniform(0.7, 1.2),
                       'image_location': rng.choice([1.0, -1.0, 0.0]) * rng.uniform(0.5, 2.0), 'image_spacing': rng.uniform(0.2, 1.0),
                       'zero_mode_distance': rng.uniform(0.5, 2.0), 'target': 'constant' if k % 7 == 0 else 'random',
                       'loss': 'multiplane_loss' if k % 5 == 0 else 'default', 'torch_seed': rng.randrange(10 ** 6)}
                odd = bool(h % 2 or w % 2)
                ctx.case(('legacy', h, w, rec['planes'], rec['iterations'], rec['method'], ptype, rec['torch_seed']), rec['target'] != 'constant',
                         rec if len(ctx.samples) < 6 else None)
                ctx.count('legacy_multiplane/%s/%s/%d planes' % ('odd' if odd else 'even', ptype, rec['planes']))
                ctx.count('legacy_multiplane/loss=%s' % rec['loss'])
                try:
                    fails = legacy_run(rec, rec['torch_seed'])
                except Exception as e:
                    ctx.violation('multiplane_hologram_optimizer raised %r' % e, rec, {'routine': 'multiplane_hologram_optimizer', 'what': 'raises', 'odd': odd,
                                                                                      'loss': rec['loss']})
                    continue
                for what, text in fails:
                    ctx.violation('multiplane_hologram_optimizer (%s, %s, %dx%d): %s' % (rec['method'], ptype, h, w, text), rec,
                                  {'routine': 'multiplane_hologram_optimizer', 'what': what, 'odd': odd, 'propagator_type': ptype})


def gs3d_run(rec):
    """NumPy gerchberg_saxton_3d from a record; returns ('rejected', text) / list of (what, text)"""
    import odak.wave as NW
    h, w, D = rec['h'], rec['w'], len(rec['distances'])
    rs = np.random.RandomState(rec['np_seed'])
    fields = (rs.rand(D, h, w) + 0j) if rec['target'] == 'random' else np.full((D, h, w), 0.5 + 0j)
    init = rs.rand(h, w) * 2 * np.pi if rec['initial_phase'] else None
    args = [fields, rec['iterations'], list(rec['distances']), rec['dx'], rec['wavelength'], 2 * np.pi]
    kw = {} if rec['method'] is None else {'propagation_type': rec['method']}
    np.random.seed(rec['np_seed'])
    holo = NW.gerchberg_saxton_3d(*args, initial_phase=None if init is None else init.copy(), **kw)
    holo = np.asarray(holo)
    fails = []
    if holo.shape != (h, w):
        return [('shape', 'returns a %s hologram for %dx%d targets' % (holo.shape, h, w))]
    if not np.isfinite(holo).all():
        return [('finite', 'hologram has %d non-finite samples' % int((~np.isfinite(holo)).sum()))]
    a = np.abs(holo)
    if D == 1 and np.max(np.abs(a - 1)) > 1e-5:
        fails.append(('unit_amplitude', 'single-plane hologram is not phase-only: amplitudes in [%g, %g]' % (a.min(), a.max())))
    if a.max() > D + 1e-4:
        fails.append(('amplitude_bound', 'the sum of %d phase-only layers has amplitude %g' % (D, a.max())))
    if init is not None:
        np.random.seed(rec['np_seed'] + 1)
        other = np.asarray(NW.gerchberg_saxton_3d(*args, initial_phase=init.copy(), **kw))
        if not np.array_equal(holo, other):
            fails.append(('initial_phase', 'with the same initial_phase two calls differ by %.3g (the start is not the given phase)' % np.max(np.abs(holo - other))))
    return fails


def gs3d_cases(ctx):
    rng = ctx.rng
    methods = ['Transfer Function Fresnel', 'Angular Spectrum', 'Bandlimited Angular Spectrum', 'Impulse Response Fresnel', 'Fraunhofer', 'Fraunhofer Inverse', None]
    shapes = [(6, 6), (6, 8), (8, 6), (10, 10), (7, 7), (6, 9)] if ctx.quick else [(6, 6), (6, 8), (8, 6), (10, 10), (12, 8), (7, 7), (6, 9), (9, 8), (16, 16)]
    k = 0
    for (h, w) in shapes:
        for method in methods:
            k += 1
            D = 1 + k % 3
            rec = {'routine': 'np.gerchberg_saxton_3d', 'h': h, 'w': w, 'iterations': 1 + (k // 3) % 3, 'method': method,
                   'distances': [rng.choice([-1, 1]) * rng.uniform(0.5, 4) for _ in range(D)], 'dx': rng.uniform(0.7, 1.2), 'wavelength': rng.choice([0.5, 0.6]),
                   'np_seed': rng.randrange(2 ** 31 - 2), 'target': 'constant' if k % 6 == 0 else 'random', 'initial_phase': (k // 2) % 2 == 0}
            odd = bool(h % 2 or w % 2)
            try:
                fails = gs3d_run(rec)
            except Exception as e:
                if odd and isinstance(e, ValueError) and 'broadcast' in str(e):
                    ctx.count('gs3d/rejected: odd side (crop window of 2*(side//2) samples)')       # same mechanism as listed finding F30
                    continue
                fails = e
            ctx.case(('gs3d', h, w, method, D, rec['iterations'], rec['np_seed']), rec['target'] != 'constant', rec if len(ctx.samples) < 6 else None)
            ctx.count('gs3d/%s/%s/%d planes%s' % ('odd' if odd else 'even', method or 'default method', D, '/initial_phase' if rec['initial_phase'] else ''))
            if isinstance(fails, Exception):
                e = fails
                ctx.violation('NumPy gerchberg_saxton_3d(propagation_type=%s) raised %r for %dx%d targets'
                              % ('its default' if method is None else repr(method), e, h, w), rec,
                              {'routine': 'np.gerchberg_saxton_3d', 'what': 'raises', 'odd': odd, 'default_method': method is None})
                continue
            for what, text in fails:
                ctx.violation('NumPy gerchberg_saxton_3d (%s, %dx%d, %d planes): %s' % (method, h, w, D, text), rec,
                              {'routine': 'np.gerchberg_saxton_3d', 'what': what, 'odd': odd})


def replay(ctx, rep):
    import odak.learn.wave as LW
    r = rep['replay']
    if r.get('routine') == 'multiplane_hologram_optimizer':
        fails = legacy_run(r, r['torch_seed'])
        for f in fails:
            print('fails:', f[1])
        return not fails
    if r.get('routine') == 'np.gerchberg_saxton_3d':
        try:
            fails = gs3d_run(r)
        except Exception as e:
            print('raised %r' % e)
            return False
        for f in fails:
            print('fails:', f[1])
        return not fails
    if r.get('routine') == 'shift_w_double_phase':
        out = LW.shift_w_double_phase(torch.rand(r['h'], r['w']) * 6.28, r['depth_shift'], 8e-6, 515e-9)
        print('NaN count', int(torch.isnan(out).sum()))
        return bool(torch.isfinite(out).all())
    return True
