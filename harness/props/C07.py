"""C07 – hologram optimisers return a displayable hologram and its true reconstruction.
For every routine (torch / NumPy Gerchberg-Saxton, stochastic gradient descent, multi-colour optimiser, double-phase depth shift):
finite output of the input's resolution, the advertised display constraint, and the returned reconstruction compared with (a) the
implementation re-propagating the returned hologram with the same settings and (b) the Lean model's forward of the returned hologram."""
import logging
import math
import warnings
import numpy as np
import torch
from ..lib.core import f2b, b2f
from . import wavelib as W

logging.disable(logging.WARNING)
warnings.filterwarnings('ignore')

TRUSTED = ['Adam / AdamW and the random initial phases are not modelled: contracts are checked on whatever state the optimiser ends in',
           'FFT = model DFT; pad / crop through the regenerated index maps']
ASSUMPTIONS = ['1-3 iterations (the contracts do not depend on convergence); non-dimensional optics lambda ~ 0.5, dx ~ 1']


def run(ctx):
    import odak.learn.wave as LW
    import odak.wave as NW
    rng = ctx.rng
    ctx.rule = ('targets of even / odd / non-square resolution x distances of either sign x 1-3 iterations x seeds x methods x bit depths; '
                'non-trivial = non-constant target; distinct by (routine, resolution, distance, iterations, seed)')
    k = lambda lam: 2 * math.pi / lam
    lam, dx = 0.5, 0.8
    shapes = [(6, 6), (5, 7), (7, 5), (8, 8), (9, 9)] if ctx.quick else [(a, b) for a in (5, 6, 7, 8, 9, 12) for b in (5, 6, 7, 9)]
    # ---------------- torch Gerchberg-Saxton
    for (h, w) in shapes:
        for n_it in (1, 2, 3):
            for z in (rng.uniform(0.5, 5), -rng.uniform(0.5, 5)):
                for name, mi in (('Transfer Function Fresnel', 1), ('Angular Spectrum', 0)):
                    if ctx.quick and rng.random() < 0.6:
                        continue
                    torch.manual_seed(rng.randrange(10 ** 6))
                    field = torch.rand(h, w, dtype=torch.float64) * torch.exp(1j * torch.rand(h, w, dtype=torch.float64) * 6.28)
                    rec = {'routine': 'gerchberg_saxton', 'h': h, 'w': w, 'iterations': n_it, 'distance': z, 'method': name}
                    ctx.case(('gs', h, w, n_it, round(z, 6), name), True, rec if len(ctx.samples) < 3 else None)
                    ctx.count('gs/%s/%s' % ('odd' if (h % 2 or w % 2) else 'even', 'neg' if z < 0 else 'pos'))
                    try:
                        holo, recon = LW.gerchberg_saxton(field, n_it, z, dx, lam, propagation_type=name)
                    except Exception as e:
                        ctx.violation('torch gerchberg_saxton raised %r' % e, rec, {'routine': 'gerchberg_saxton', 'what': 'raises'})
                        continue
                    hn, rn = holo.numpy().astype(np.complex128), recon.numpy().astype(np.complex128)
                    if hn.shape != (h, w) or rn.shape != (h, w) or not (np.isfinite(hn).all() and np.isfinite(rn).all()):
                        ctx.violation('torch gerchberg_saxton: non-finite output or wrong resolution', rec, {'routine': 'gerchberg_saxton', 'what': 'finite_shape'})
                        continue
                    again = W.impl('torch', 'tf' if mi == 1 else 'as', hn, dx, lam, z, zero_padding=(True, False, True)).reshape(h, w)
                    scale = max(1.0, float(np.max(np.abs(again))))
                    if W.maxdiff(rn, again) > 5e-4 * scale:
                        ctx.violation('torch gerchberg_saxton: the returned reconstruction is not the propagation of the returned hologram (diff %.3g)'
                                      % W.maxdiff(rn, again), rec, {'routine': 'gerchberg_saxton', 'what': 'reconstruction'})
                    if ctx.drv_ok:
                        mo = W.dec_field(ctx.model.ask(['t_pc %d %d %d %d %d %d %s' % (mi, h, w, f2b(dx), f2b(lam), f2b(z), W.enc_field(hn))])[0], h, w)
                        if W.maxdiff(rn, mo) > 5e-4 * scale:
                            ctx.alarm('correspondence', 'gerchberg_saxton reconstruction differs from the model forward of the returned hologram by %.3g (%s)'
                                      % (W.maxdiff(rn, mo), rec))
    # ---------------- torch stochastic gradient descent (pad-then-crop propagation)
    sgd_methods = (('Bandlimited Angular Spectrum', 'bl', 2), ('Angular Spectrum', 'as', 0), ('Transfer Function Fresnel', 'tf', 1))
    for (h, w) in shapes:
        for z in (rng.uniform(0.5, 5), -rng.uniform(0.5, 5)):
            # every advertised propagation type: the loop and the final reconstruction must use the one the caller asked for
            for (name, short, mi) in sgd_methods:
                if ctx.quick and rng.random() < 0.6:
                    continue
                n_it = rng.choice([1, 2, 3])
                torch.manual_seed(rng.randrange(10 ** 6))
                target = torch.rand(h, w)
                rec = {'routine': 'stochastic_gradient_descent', 'h': h, 'w': w, 'iterations': n_it, 'distance': z, 'method': name}
                ctx.case(('sgd', h, w, n_it, round(z, 6), name), True, rec if len(ctx.samples) < 5 else None)
                ctx.count('sgd/%s/%s' % (short, 'odd' if (h % 2 or w % 2) else 'even'))
                try:
                    holo, recon = LW.stochastic_gradient_descent(target, lam, z, dx, propagation_type=name, n_iteration=n_it)
                except Exception as e:
                    ctx.violation('stochastic_gradient_descent raised %r' % e, rec, {'routine': 'stochastic_gradient_descent', 'what': 'raises'})
                    continue
                hn, rn = holo.detach().numpy().astype(np.complex128), recon.detach().numpy().astype(np.complex128)
                if hn.shape != (h, w) or rn.shape[-2:] != (h, w) or not (np.isfinite(hn).all() and np.isfinite(rn).all()):
                    ctx.violation('stochastic_gradient_descent: non-finite output or wrong resolution %s / %s' % (hn.shape, rn.shape), rec,
                                  {'routine': 'stochastic_gradient_descent', 'what': 'finite_shape', 'odd': bool(h % 2 or w % 2)})
                    continue
                if np.max(np.abs(np.abs(hn) - 1)) > 1e-5:
                    ctx.violation('stochastic_gradient_descent: the returned phase-only hologram does not have unit amplitude', rec,
                                  {'routine': 'stochastic_gradient_descent', 'what': 'unit_amplitude'})
                again = W.impl('torch', short, hn.astype(np.complex64), dx, lam, z, zero_padding=(True, False, True))
                scale = max(1.0, float(np.max(np.abs(again))))
                if W.maxdiff(rn.reshape(h, w), again.reshape(h, w)) > 5e-4 * scale:
                    ctx.violation('stochastic_gradient_descent(%s): the returned reconstruction is not the propagation of the returned hologram '
                                  'with the requested method (diff %.3g)' % (name, W.maxdiff(rn.reshape(h, w), again.reshape(h, w))), rec,
                                  {'routine': 'stochastic_gradient_descent', 'what': 'reconstruction'})
                if ctx.drv_ok and (short != 'bl' or W.bl_margin_ok(2 * h, 2 * w, dx, lam, z, 'torch')):
                    line = 't_pc %d %d %d %d %d %d %s' % (mi, h, w, f2b(dx), f2b(lam), f2b(z), W.enc_field(hn))
                    mo = W.dec_field(ctx.model.ask([line])[0], h, w)
                    if W.maxdiff(rn.reshape(h, w), mo) > 1e-3 * scale:
                        ctx.alarm('correspondence', 'SGD reconstruction differs from the model (pad, %s, crop) of the returned hologram by %.3g (%s)'
                                  % (name, W.maxdiff(rn.reshape(h, w), mo), rec))
    # ---------------- NumPy Gerchberg-Saxton
    for (h, w) in shapes:
        for z in (rng.uniform(0.5, 3), -rng.uniform(0.5, 3)):
            if ctx.quick and rng.random() < 0.5:
                continue
            np.random.seed(rng.randrange(10 ** 6))
            field = np.random.rand(h, w) + 0j
            rec = {'routine': 'np.gerchberg_saxton', 'h': h, 'w': w, 'distance': z}
            ctx.case(('npgs', h, w, round(z, 6)), True)
            odd = bool(h % 2 or w % 2)
            try:
                holo, recon = NW.gerchberg_saxton(field, 2, z, dx, lam, 2 * np.pi, 'Transfer Function Fresnel')
            except Exception as e:
                ctx.violation('NumPy gerchberg_saxton raised %r for a %dx%d field' % (e, h, w), rec,
                              {'routine': 'np.gerchberg_saxton', 'what': 'raises', 'odd': odd})
                continue
            if holo.shape != (h, w) or recon.shape != (h, w):
                ctx.violation('NumPy gerchberg_saxton returns %s / %s for a %dx%d field' % (holo.shape, recon.shape, h, w), rec,
                              {'routine': 'np.gerchberg_saxton', 'what': 'shape', 'odd': odd})
                continue
            if not np.isfinite(holo).all() or np.max(np.abs(np.abs(holo) - 1)) > 1e-9:
                ctx.violation('NumPy gerchberg_saxton: hologram is not finite / unit amplitude', rec, {'routine': 'np.gerchberg_saxton', 'what': 'unit_amplitude'})
            import odak.tools as NT
            again = NT.crop_center(NW.propagate_beam(NT.zero_pad(holo), k(lam), z, dx, lam, 'Transfer Function Fresnel'))
            if W.maxdiff(recon, again) > 1e-9 * max(1.0, float(np.max(np.abs(again)))):
                ctx.violation('NumPy gerchberg_saxton: returned reconstruction is not the propagation of the returned hologram', rec,
                              {'routine': 'np.gerchberg_saxton', 'what': 'reconstruction'})
    # ---------------- multi-colour optimiser: quantised phases on the grid, reconstruction = propagator.reconstruct(returned phases)
    for (h, w) in ([(32, 32), (33, 35)] if ctx.quick else [(32, 32), (33, 35), (40, 32), (37, 37)]):
        for bits in (2, 4, 8):
            for method in ('conventional', 'multi-color'):
                if ctx.quick and rng.random() < 0.5:
                    continue
                torch.manual_seed(rng.randrange(10 ** 6))
                wl = [0.6, 0.5, 0.45]
                # Fourier-plane aperture: the default circular mask or a user-supplied apodised (non-binary) pinhole; both propagator types
                apk = rng.choice(['default', 'apodised'])
                ptype = rng.choice(['forward', 'back and forth'])
                yy, xx = np.meshgrid(np.arange(h) - h // 2, np.arange(w) - w // 2, indexing='ij')
                apt = None if apk == 'default' else torch.tensor(np.exp(-(xx ** 2 + yy ** 2) / (0.35 * min(h, w)) ** 2), dtype=torch.float32)

                def make_prop():
                    return LW.propagator(resolution=[h, w], wavelengths=wl, pixel_pitch=dx, number_of_frames=3, number_of_depth_layers=2,
                                         volume_depth=2.0, image_location_offset=1.0, propagation_type='Bandlimited Angular Spectrum',
                                         propagator_type=ptype, back_and_forth_distance=1.5, aperture=apt, method=method, device=torch.device('cpu'))
                prop = make_prop()
                targets = torch.rand(2, 3, h, w)
                opt = LW.multi_color_hologram_optimizer(wavelengths=wl, resolution=[h, w], targets=targets, propagator=prop, number_of_frames=3,
                                                       number_of_depth_layers=2, learning_rate=0.02, double_phase=bool(rng.random() < 0.5),
                                                       method=method, device=torch.device('cpu'))
                rec = {'routine': 'multi_color_hologram_optimizer', 'h': h, 'w': w, 'bits': bits, 'method': method, 'aperture': apk, 'propagator_type': ptype}
                ctx.case(('mc', h, w, bits, method, apk, ptype), True, rec if len(ctx.samples) < 6 else None)
                ctx.count('multi_color/%d_bits' % bits)
                ctx.count('multi_color/aperture=%s/%s' % (apk, ptype))
                try:
                    phases, recon, _, _, _ = opt.optimize(number_of_iterations=2, weights=[1., 1., 1., 0.], bits=bits)
                except Exception as e:
                    ctx.violation('multi_color_hologram_optimizer.optimize raised %r' % e, rec, {'routine': 'multi_color', 'what': 'raises'})
                    continue
                p = phases.detach().numpy().astype(np.float64)
                lv = p / (2 * np.pi) * 2 ** bits
                tiny = bool(np.any(np.abs(lv - 2 ** bits) < 1e-3))
                if p.shape != (3, h, w) or not np.isfinite(p).all() or p.min() < 0 or p.max() >= 2 * np.pi or np.max(np.abs(lv - np.round(lv))) > 1e-3:
                    ctx.violation('multi_color optimiser: returned phases are not on the 2^%d grid inside [0, 2pi) (min %g max %g)' % (bits, p.min(), p.max()),
                                  rec, {'routine': 'multi_color', 'what': 'phase_grid', 'level_2powbits': tiny})
                again = prop.reconstruct(phases)
                if not torch.allclose(again, recon, atol=1e-5):
                    ctx.violation('multi_color optimiser: returned reconstruction differs from propagator.reconstruct(returned phases)', rec,
                                  {'routine': 'multi_color', 'what': 'reconstruction'})
                # "exactly what propagating that returned hologram with the same settings produces": a propagator built afresh with the
                # same settings has no history (the one inside the optimiser has run the whole optimisation loop before the final pass)
                fresh = make_prop()
                fresh.channel_power = prop.channel_power.detach().clone() if hasattr(prop, 'channel_power') else None
                try:
                    indep = fresh.reconstruct(phases)
                    scale_r = max(1.0, float(indep.abs().max()))
                    if indep.shape == recon.shape and float((indep - recon).abs().max()) > 2e-3 * scale_r:
                        ctx.violation('multi_color optimiser (%s aperture, %s): the returned reconstruction is not what a propagator with the same settings '
                                      'produces from the returned hologram (max difference %.3g, scale %.3g)'
                                      % (apk, ptype, float((indep - recon).abs().max()), scale_r), rec,
                                      {'routine': 'multi_color', 'what': 'reconstruction_vs_fresh', 'aperture': apk})
                except Exception as e:
                    ctx.note('fresh propagator could not re-propagate the returned hologram: %r' % (e,))
    if ctx.drv_ok:
        vals = [rng.uniform(-20, 20) for _ in range(200)] + [0.0, 6.283185307179586, 1e-9]
        for bits in (2, 8):
            mo = ctx.model.ask(['quantized_phase %d %d' % (bits, f2b(v)) for v in vals])
            for v, o in zip(vals, mo):
                q = b2f(o)
                lvl = q / (2 * np.pi) * 2 ** bits
                ctx.case(('qmodel', bits, v), True)
                if not (0 <= q < 2 * np.pi + 1e-12 and abs(lvl - round(lvl)) < 1e-9):
                    ctx.alarm('correspondence', 'model quantizedPhase(%d, %r) = %r is off the grid' % (bits, v, q))
    # ---------------- double-phase depth shift
    for (h, w) in ([(6, 6), (8, 8), (6, 8)] if ctx.quick else [(6, 6), (8, 8), (6, 8), (10, 10), (12, 8)]):
        for d in (1e-3, -1e-3, 5e-4, -2e-3, 0.0):
            torch.manual_seed(rng.randrange(10 ** 6))
            phase = torch.rand(h, w) * 6.28
            rec = {'routine': 'shift_w_double_phase', 'h': h, 'w': w, 'depth_shift': d}
            ctx.case(('shift', h, w, d), True)
            ctx.count('shift/%s' % ('neg' if d < 0 else 'pos' if d > 0 else 'zero'))
            try:
                out = LW.shift_w_double_phase(phase, d, 8e-6, 515e-9)
            except Exception as e:
                ctx.violation('shift_w_double_phase raised %r' % e, rec, {'routine': 'shift_w_double_phase', 'what': 'raises'})
                continue
            if tuple(out.shape) != (h, w) or not torch.isfinite(out).all():
                ctx.violation('shift_w_double_phase returns a non-finite hologram (%d NaN) for depth shift %g' % (int(torch.isnan(out).sum()), d), rec,
                              {'routine': 'shift_w_double_phase', 'what': 'finite', 'negative_shift': d < 0})


def replay(ctx, rep):
    import odak.learn.wave as LW
    r = rep['replay']
    if r.get('routine') == 'shift_w_double_phase':
        out = LW.shift_w_double_phase(torch.rand(r['h'], r['w']) * 6.28, r['depth_shift'], 8e-6, 515e-9)
        print('NaN count', int(torch.isnan(out).sum()))
        return bool(torch.isfinite(out).all())
    return True
