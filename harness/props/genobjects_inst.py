"""Work package 16: the regenerated OBJECT models INSTANTIATED with the grid model, run at Float on real fields.

`check_propagator_instance(ctx)` (called by one line from C06.py): random propagator configurations (4x4 .. 6x7, 1-3 channels, 1-3 planes,
1-2 frames, forward / back and forth, AS / TF / BL, conventional / multi-color, distances / laser powers / aperture given or default) and random
call lists (forward calls, reconstructions with and without amplitude, complex and intensity, set_laser_powers, get_laser_powers,
set_aperture given / default); the driver op `gpi_seq` runs the step functions of `Generated/PropagatorObject.lean` with the operations
`propOpsGrid` (the record `C06_gen_object_documented_model_every_call_list` is about) at Float over a heap of tensors, and EVERY call's
value is compared with the real `odak.learn.wave.propagator`.  A disagreement is an alarm `correspondence`.
`check_loss_instance(ctx)` (C16.py) and `check_mesh_instance(ctx)` (C05.py) do the same for `lossOpsGrid` / `meshOpsGrid`."""
import logging
import math
import warnings
import numpy as np
import torch
from ..lib.core import f2b, b2f

logging.disable(logging.WARNING)
warnings.filterwarnings('ignore')

METHODS = ['conventional', 'multi-color']
TYPES = ['forward', 'back and forth']
PROPAGATION = ['Angular Spectrum', 'Transfer Function Fresnel', 'Bandlimited Angular Spectrum']
SIZES = [(4, 5), (4, 6), (5, 5), (6, 5), (5, 6), (6, 6), (5, 7), (6, 7)]   # torch zero_pad reads a 2-D field narrower than 5 as channels-last: widths >= 5


def enc_real(t):
    return ' '.join(str(f2b(float(v))) for v in np.asarray(t, dtype=np.float64).reshape(-1))


def enc_cx(t):
    out = []
    for v in np.asarray(t, dtype=np.complex128).reshape(-1):
        out.append(str(f2b(v.real)))
        out.append(str(f2b(v.imag)))
    return ' '.join(out)


def dec(seg, shape):
    xs = np.array([b2f(t) for t in seg.split()], dtype=np.float64)
    if xs.size != 2 * int(np.prod(shape)):
        return None
    a = xs.reshape(tuple(shape) + (2,))
    return a[..., 0] + 1j * a[..., 1]


def bl_margin_ok(n, m, dx, lam, z):
    """the band limit of the BL kernel is a comparison: skip cases in which a float32 frequency is within rounding of the limit"""
    from . import wavelib as W
    return W.bl_margin_ok(n, m, dx, lam, z, 'torch')


def check_propagator_instance(ctx):
    if not ctx.drv_ok:
        return
    import odak.learn.wave as LW
    rng = ctx.rng
    lines, cases = [], []
    for it in range(ctx.n(10, 60)):
        h, w = rng.choice(SIZES)
        method, ptype, pk = rng.randrange(2), rng.randrange(2), rng.randrange(3)
        nch, nd, nf = rng.randint(1, 3), rng.randint(1, 3), rng.randint(1, 2)
        dgiven, pgiven, agiven = rng.random() < 0.6, rng.random() < 0.5, rng.random() < 0.5
        lams = [0.5 * rng.uniform(0.8, 1.3) for _ in range(nch)]
        dx = max(lams) / math.sqrt(2) * rng.uniform(1.05, 3.0)
        z0, offset, vd = rng.uniform(0.5, 3.0), rng.uniform(-1, 1), rng.uniform(0.5, 2.0)
        dists = [float(np.float32(0.0 if rng.random() < 0.2 else rng.uniform(-3, 3))) for _ in range(nd)]
        pow0 = [[float(np.float32(rng.uniform(0.2, 1.2))) for _ in range(nch)] for _ in range(nf)]
        ap0 = [[float(np.float32(rng.uniform(0.2, 1.0) if rng.random() < 0.8 else 0.0)) for _ in range(w)] for _ in range(h)]
        p = LW.propagator(resolution=[h, w], wavelengths=lams, pixel_pitch=dx, number_of_frames=nf, number_of_depth_layers=nd,
                          volume_depth=vd, image_location_offset=offset, propagation_type=PROPAGATION[pk], propagator_type=TYPES[ptype],
                          back_and_forth_distance=z0, method=METHODS[method],
                          distances=torch.tensor(dists, dtype=torch.float32) if dgiven else None,
                          laser_channel_power=torch.tensor(pow0, dtype=torch.float32) if pgiven else None,
                          aperture=torch.tensor(ap0, dtype=torch.float32) if agiven else None, device=torch.device('cpu'))
        # what the model is given for the float32 attributes: their float32 values
        z0m = float(np.float32(z0))
        toks = ['gpi_seq', method, ptype, pk, h, w, f2b(dx), f2b(z0m), f2b(offset), f2b(vd), nch] + [f2b(l) for l in lams] + [nd, nf, int(dgiven)]
        parts = [' '.join(str(t) for t in toks)]
        if dgiven:
            parts.append(enc_real(dists))
        parts.append(str(int(pgiven)))
        if pgiven:
            parts.append(enc_real(pow0))
        parts.append(str(int(agiven)))
        if agiven:
            parts.append(enc_real(ap0))
        ncalls = rng.randint(*ctx.n((3, 6), (3, 9)))
        parts.append(str(ncalls))
        impl, kinds = [], []
        try:
            for k in range(ncalls):
                r = rng.random()
                if r < 0.5:
                    c, d = rng.randrange(nch), rng.randrange(nd)
                    u = np.array([[complex(rng.gauss(0, 1), rng.gauss(0, 1)) for _ in range(w)] for _ in range(h)]).astype(np.complex64)
                    parts.append('0 %d %d %s' % (c, d, enc_cx(u)))
                    impl.append(p(torch.from_numpy(u), c, d).detach().numpy().astype(np.complex128))
                    kinds.append(('forward', c, d))
                elif r < 0.7:
                    gc, ag = rng.random() < 0.5, rng.random() < 0.4
                    ph = np.array([[[rng.uniform(0, 6.28) for _ in range(w)] for _ in range(h)] for _ in range(nf)], dtype=np.float32)
                    amp = np.array([[[rng.uniform(0.5, 1.5) for _ in range(w)] for _ in range(h)] for _ in range(nch)], dtype=np.float32) if ag else None
                    parts.append('1 %d %d %s%s' % (int(gc), int(ag), (enc_real(amp) + ' ') if ag else '', enc_real(ph)))
                    ret = p.reconstruct(torch.from_numpy(ph), amplitude=torch.from_numpy(amp) if ag else None, no_grad=True, get_complex=gc)
                    impl.append(ret.detach().numpy().astype(np.complex128))
                    kinds.append(('reconstruct', gc, ag))
                elif r < 0.8:
                    pw = np.array([[rng.uniform(0.2, 1.2) for _ in range(nch)] for _ in range(nf)], dtype=np.float32)
                    parts.append('2 %s' % enc_real(pw))
                    p.set_laser_powers(torch.from_numpy(pw))
                    impl.append(None)
                    kinds.append(('set_laser_powers',))
                elif r < 0.9:
                    parts.append('3')
                    impl.append(p.get_laser_powers().detach().numpy().astype(np.complex128))
                    kinds.append(('get_laser_powers',))
                else:
                    given = rng.random() < 0.6
                    apn = np.array([[rng.uniform(0.2, 1.0) for _ in range(w)] for _ in range(h)], dtype=np.float32) if given else None
                    parts.append('4 %d%s' % (int(given), (' ' + enc_real(apn)) if given else ''))
                    p.set_aperture(torch.from_numpy(apn) if given else None)
                    impl.append(None)
                    kinds.append(('set_aperture', given))
        except Exception as e:
            ctx.alarm('correspondence', 'propagator instance: the implementation raised %r in call %d of %s' % (e, len(impl), kinds))
            continue
        bl_ok = pk != 2 or all(bl_margin_ok(2 * h, 2 * w, dx, lam, z) for lam in lams
                               for z in ([float(v) for v in p.distances] + [z0m] + [-(z0m + offset - float(v)) for v in p.distances]))
        lines.append(' '.join(parts))
        cases.append(dict(h=h, w=w, nch=nch, nd=nd, nf=nf, impl=impl, kinds=kinds, bl_ok=bl_ok,
                          cfg=dict(method=METHODS[method], type=TYPES[ptype], propagation=PROPAGATION[pk], given=(dgiven, pgiven, agiven))))
        ctx.count('instance/propagator/%s/%s/%s' % (TYPES[ptype].replace(' ', '_'), PROPAGATION[pk].split()[0], METHODS[method]))
    outs = ctx.model.ask(lines)
    compared = 0
    for out, cs in zip(outs, cases):
        ctx.case(('gpi', cs['h'], cs['w'], tuple(cs['kinds']), tuple(sorted(cs['cfg'].items()))), True)
        segs = [s.strip() for s in out.split('|')]
        if len(segs) != len(cs['impl']) or 'RAISE' in segs:
            ctx.alarm('correspondence', 'propagator instance: the instantiated object model returns %d values (%s) for %d calls %s on %s'
                      % (len(segs), 'one call raises' if 'RAISE' in segs else 'no raise', len(cs['impl']), cs['kinds'], cs['cfg']))
            continue
        if not cs['bl_ok']:
            continue
        h, w, nch, nd, nf = cs['h'], cs['w'], cs['nch'], cs['nd'], cs['nf']
        for k, (seg, ret, kind) in enumerate(zip(segs, cs['impl'], cs['kinds'])):
            if ret is None:
                if seg != '-':
                    ctx.alarm('correspondence', 'propagator instance: call %d (%s) returns nothing, the model a value' % (k, kind[0]))
                continue
            shape = {'forward': (h, w), 'reconstruct': (nf, nd, nch, h, w), 'get_laser_powers': (nf, nch)}[kind[0]]
            mo = dec(seg, shape)
            if mo is None or tuple(ret.shape) != tuple(shape):
                ctx.alarm('correspondence', 'propagator instance: call %d (%s): shapes differ (implementation %s, model segment of %d numbers)'
                          % (k, kind, tuple(ret.shape), len(seg.split())))
                break
            scale = max(1.0, float(np.max(np.abs(mo))))
            diff = float(np.max(np.abs(ret - mo)))
            compared += 1
            if not diff <= 2e-3 * scale:
                ctx.alarm('correspondence', 'propagator instance: call %d %s of %s on %s (%dx%d, %d channels, %d planes): implementation and the instantiated '
                          'object model differ by %.3g' % (k, kind, cs['kinds'], cs['cfg'], h, w, nch, nd, diff))
                break
    ctx.extra['propagator_instance_values_compared'] = compared


def check_loss_instance(ctx):
    """`multiplane_loss` with `lossOpsGrid` at Float (driver op `gli_seq`): every `get_targets` (targets, all-in-focus target, depth) and every
    `__call__` of random call lists against the real object, naive and defocus schemes."""
    if not ctx.drv_ok:
        return
    import odak.learn.wave as LW
    rng = ctx.rng
    lines, cases = [], []
    for it in range(ctx.n(6, 30)):
        C, H, W = rng.choice([1, 3]), rng.randint(4, 6), rng.randint(4, 7)
        n = rng.randint(1, 4)
        defocus = rng.random() < 0.5
        blur = rng.choice([3, 4, 5])
        ratio, mult = rng.choice([0.25, 0.5, 1.0]), rng.choice([1.0, 0.5])
        img = np.array([[[rng.uniform(0.05, 1.0) for _ in range(W)] for _ in range(H)] for _ in range(C)], dtype=np.float32)
        dep = np.zeros((H, W), dtype=np.float32)
        for i in range(H):
            for j in range(W):
                while True:
                    v = float(np.float32(rng.choice([0.0, 1.0, rng.random(), rng.random()])))
                    fr = (v * (n - 1)) % 1.0
                    if abs(fr - 0.5) > 0.02:        # away from the rounding boundary: float32 and float64 round alike
                        break
                dep[i, j] = v
        try:
            q = LW.multiplane_loss(target_image=torch.from_numpy(img.copy()), target_depth=torch.from_numpy(dep.copy()), blur_ratio=ratio,
                                   target_blur_size=blur, number_of_planes=n, weights=[1., 2.1, 0.6], multiplier=mult,
                                   scheme='defocus' if defocus else 'naive', reduction='mean', device=torch.device('cpu'))
        except Exception as e:
            ctx.alarm('correspondence', 'loss instance: the implementation raised %r in the constructor' % (e,))
            continue
        parts = ['gli_seq %d %d %d %d %d %d %d %d' % (int(defocus), n, blur, f2b(ratio), f2b(mult), C, H, W), enc_real(img), enc_real(dep)]
        ncalls = rng.randint(2, 5)
        parts.append(str(ncalls))
        impl, kinds = [], []
        for k in range(ncalls):
            if rng.random() < 0.5:
                parts.append('0')
                t = q.get_targets()
                impl.append([x.detach().numpy().astype(np.float64) for x in t])
                kinds.append(('get_targets',))
            else:
                given = rng.random() < 0.7
                plane = rng.randrange(n)
                a = np.array([[[rng.uniform(0, 1) for _ in range(W)] for _ in range(H)] for _ in range(C)], dtype=np.float32)
                b = np.array([[[rng.uniform(0, 1) for _ in range(W)] for _ in range(H)] for _ in range(C)], dtype=np.float32)
                parts.append('1 %d %d %s %s' % (int(given), plane, enc_real(a), enc_real(b)))
                impl.append(float(q(torch.from_numpy(a), torch.from_numpy(b), plane_id=plane if given else None)))
                kinds.append(('call', given))
        lines.append(' '.join(parts))
        cases.append(dict(C=C, H=H, W=W, n=n, impl=impl, kinds=kinds, cfg=dict(defocus=defocus, planes=n, blur=blur, ratio=ratio, mult=mult)))
        ctx.count('instance/multiplane_loss/%s/%d_planes' % ('defocus' if defocus else 'naive', n))
    outs = ctx.model.ask(lines)
    compared = 0
    for out, cs in zip(outs, cases):
        ctx.case(('gli', cs['C'], cs['H'], cs['W'], tuple(cs['kinds']), tuple(sorted(cs['cfg'].items()))), True)
        segs = [s.strip() for s in out.split('|')]
        if len(segs) != len(cs['impl']) or 'RAISE' in segs:
            ctx.alarm('correspondence', 'loss instance: the instantiated object model returns %d values for %d calls %s on %s' % (len(segs), len(cs['impl']), cs['kinds'], cs['cfg']))
            continue
        C, H, W, n = cs['C'], cs['H'], cs['W'], cs['n']
        for k, (seg, ret, kind) in enumerate(zip(segs, cs['impl'], cs['kinds'])):
            if kind[0] == 'get_targets':
                sub = [s.strip() for s in seg.split(';')]
                shapes = [(n, C, H, W), (C, H, W), (H, W)]
                names = ['targets', 'focus_target', 'depth']
                bad = None
                for s_, shp, r_, nm in zip(sub, shapes, ret, names):
                    mo = dec(s_, shp)
                    compared += 1
                    if mo is None or tuple(r_.shape) != shp or not float(np.max(np.abs(mo.real - r_))) <= 2e-4 * max(1.0, float(np.max(np.abs(r_)))):
                        bad = nm
                        break
                if len(sub) != 3 or bad:
                    ctx.alarm('correspondence', 'loss instance: call %d get_targets on %s (%dx%dx%d): %s differs between the implementation and the instantiated object model'
                              % (k, cs['cfg'], C, H, W, bad or 'the number of returned tensors'))
                    break
            else:
                mo = dec(seg, ())
                compared += 1
                if mo is None or not abs(float(mo.real) - ret) <= 2e-4 * max(1.0, abs(ret)):
                    ctx.alarm('correspondence', 'loss instance: call %d __call__%s on %s: implementation %r, instantiated object model %r'
                              % (k, kind, cs['cfg'], ret, None if mo is None else float(mo.real)))
                    break
    ctx.extra['loss_instance_values_compared'] = compared


def check_mesh_instance(ctx):
    """`planar_mesh` with `meshOpsGrid` at Float (driver op `gmi_seq`): `mirror`, `get_triangles`, `get_squares` of random call lists
    interleaved with in-place updates of the heights, against the real object."""
    if not ctx.drv_ok:
        return
    import odak.learn.raytracing as LR
    rng = ctx.rng
    lines, cases = [], []
    for it in range(ctx.n(6, 30)):
        n0, n1 = rng.randint(2, 4), rng.randint(2, 4)
        size = [rng.uniform(1.0, 3.0), rng.uniform(1.0, 3.0)]
        angles = [rng.choice([0.0, rng.uniform(-25, 25)]) for _ in range(3)]
        offset = [rng.uniform(-0.5, 0.5) for _ in range(3)]
        hgiven = rng.random() < 0.6
        newh = lambda: np.array([[[rng.uniform(-0.2, 0.2)] for _ in range(n1)] for _ in range(n0)], dtype=np.float32)
        h0 = newh()
        try:
            q = LR.planar_mesh(size=torch.tensor(size, dtype=torch.float32), number_of_meshes=torch.tensor([n0, n1]),
                               angles=torch.tensor(angles, dtype=torch.float32), offset=torch.tensor(offset, dtype=torch.float32),
                               heights=torch.from_numpy(h0.copy()) if hgiven else None)
        except Exception as e:
            ctx.alarm('correspondence', 'mesh instance: the implementation raised %r in the constructor' % (e,))
            continue
        f32 = lambda l: [float(np.float32(v)) for v in l]
        parts = ['gmi_seq %d %d' % (n0, n1), enc_real(f32(size)), enc_real(f32(angles)), enc_real(f32(offset)), str(int(hgiven))]
        if hgiven:
            parts.append(enc_real(h0))
        ncalls = rng.randint(3, 6)
        parts.append(str(ncalls))
        impl, kinds = [], []
        try:
            for k in range(ncalls):
                r = rng.random()
                if r < 0.45:
                    tris = q.get_triangles().detach().numpy().astype(np.float64)
                    good = [t for t in tris if np.linalg.norm(np.cross(t[1] - t[0], t[2] - t[0])) > 1e-6]
                    m = rng.randint(1, 4)
                    rays = np.zeros((m, 2, 3), dtype=np.float32)
                    for i in range(m):
                        t = rng.choice(good)
                        u, v = rng.uniform(0.2, 0.4), rng.uniform(0.2, 0.4)
                        P = t[0] + u * (t[1] - t[0]) + v * (t[2] - t[0])
                        nrm = np.cross(t[1] - t[0], t[2] - t[0])
                        nrm = nrm / np.linalg.norm(nrm)
                        O = P + nrm * rng.choice([-1, 1]) * rng.uniform(0.8, 2.0) + np.array([rng.uniform(-0.3, 0.3), rng.uniform(-0.3, 0.3), 0.0])
                        d = (P - O) / np.linalg.norm(P - O)
                        rays[i, 0], rays[i, 1] = O, d
                    parts.append('0 %d %s' % (m, enc_real(rays)))
                    a, b = q.mirror(torch.from_numpy(rays))
                    impl.append((a.detach().numpy().astype(np.float64), b.detach().numpy().astype(np.float64)))
                    kinds.append(('mirror', m))
                elif r < 0.6:
                    parts.append('1')
                    impl.append(q.get_triangles().detach().numpy().astype(np.float64))
                    kinds.append(('get_triangles',))
                elif r < 0.7:
                    parts.append('2')
                    impl.append(q.get_squares().detach().numpy().astype(np.float64))
                    kinds.append(('get_squares',))
                else:
                    hn = newh()
                    parts.append('3 %s' % enc_real(hn))
                    with torch.no_grad():
                        q.heights.copy_(torch.from_numpy(hn))      # an optimiser step: the heights tensor is updated IN PLACE
                    impl.append(None)
                    kinds.append(('learn',))
        except Exception as e:
            ctx.alarm('correspondence', 'mesh instance: the implementation raised %r in call %d of %s' % (e, len(impl), kinds))
            continue
        lines.append(' '.join(parts))
        cases.append(dict(n0=n0, n1=n1, impl=impl, kinds=kinds, cfg=dict(angles=angles, heights_given=hgiven)))
        ctx.count('instance/planar_mesh/%dx%d/%s' % (n0, n1, 'heights_given' if hgiven else 'default_heights'))
    outs = ctx.model.ask(lines)
    compared = 0

    def dec_rays(s_):
        toks = s_.split()
        cnt = int(toks[0])
        return cnt, dec(' '.join(toks[1:]), (cnt, 2, 3))

    for out, cs in zip(outs, cases):
        ctx.case(('gmi', cs['n0'], cs['n1'], tuple(cs['kinds']), repr(cs['cfg'])), True)
        segs = [s.strip() for s in out.split('|')]
        if len(segs) != len(cs['impl']) or 'RAISE' in segs:
            ctx.alarm('correspondence', 'mesh instance: the instantiated object model returns %d values for %d calls %s' % (len(segs), len(cs['impl']), cs['kinds']))
            continue
        n0, n1 = cs['n0'], cs['n1']
        for k, (seg, ret, kind) in enumerate(zip(segs, cs['impl'], cs['kinds'])):
            what = None
            if ret is None:
                if seg != '-':
                    what = 'the model returns a value for an in-place update'
            elif kind[0] == 'mirror':
                sub = [s.strip() for s in seg.split(';')]
                for s_, r_, nm in zip(sub, ret, ('reflected rays', 'normals')):
                    cnt, mo = dec_rays(s_)
                    compared += 1
                    if cnt != r_.shape[0]:
                        what = '%s: %d in the implementation, %d in the model' % (nm, r_.shape[0], cnt)
                    elif cnt and not float(np.max(np.abs(mo.real - r_))) <= 2e-4 * max(1.0, float(np.max(np.abs(r_)))):
                        what = '%s differ by %.3g' % (nm, float(np.max(np.abs(mo.real - r_))))
                    if what:
                        break
            else:
                shp = (2 * n0 * n1, 3, 3) if kind[0] == 'get_triangles' else (n0, n1, 3)
                mo = dec(seg, shp)
                compared += 1
                if mo is None or tuple(ret.shape) != shp or not float(np.max(np.abs(mo.real - ret))) <= 2e-5 * max(1.0, float(np.max(np.abs(ret)))):
                    what = '%s differs' % kind[0]
            if what:
                ctx.alarm('correspondence', 'mesh instance: call %d %s of %s on a %dx%d mesh %s: %s' % (k, kind, cs['kinds'], n0, n1, cs['cfg'], what))
                break
    ctx.extra['mesh_instance_values_compared'] = compared
