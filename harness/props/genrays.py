"""Executable tie of lean/OdakModel/Generated/RayCreate.lean and RayCreateBatch.lean (the output of harness/translate/raycreate.py):
every generated definition is evaluated at Float by the driver (lean/OdakModel/Exec/OpsGenRay.lean) and compared with the real
function of /repo:

  * torch `create_ray` for the documented sizes [3], [1 x 3], [m x 3] (number of returned rays included), `direction` False / True;
  * NumPy `create_ray`;
  * NumPy `create_ray_from_angles` for a [3], a [1 x 3] and an [m x 3] start point, every rotation mode, start points with three
    distinct coordinates, angle classes including all-zero angles (the early return of `rotate_points`);
  * NumPy `calculate_intersection_of_two_rays` and `find_nearest_points` on generic pairs, on pairs that really meet and on pairs
    whose cross product has a zero component (the first branch of `find_nearest_points`); exactly parallel directions are left out:
    `np.linalg.lstsq` returns the minimum-norm solution of the rank-deficient system there, which `Num.lstsq32` does not model.

A disagreement is a broken correspondence (translator or model), reported as an alarm, never as a violation."""
import logging
import warnings
import numpy as np
import torch
from ..lib.core import f2b, b2f

logging.disable(logging.WARNING)
warnings.filterwarnings('ignore')
MODES = ['XYZ', 'XZY', 'YXZ', 'ZXY', 'ZYX']


def fl(xs):
    return ' '.join(str(f2b(float(x))) for x in np.asarray(xs, dtype=np.float64).reshape(-1))


def unit(rng):
    while True:
        v = np.array([rng.gauss(0, 1) for _ in range(3)])
        n = np.linalg.norm(v)
        if n > 1e-3:
            return v / n


def check_generated_rays(ctx):
    import odak.learn.raytracing as LR
    import odak.raytracing as NR
    rng = ctx.rng
    items = []           # (tag, driver line, implementation numbers, tolerance, record)

    def add(tag, line, want, tol, rec):
        items.append((tag, line, np.asarray(want, dtype=np.float64).reshape(-1), tol, rec))
        ctx.case(('gen', tag, line[:80]), True)
        ctx.count('generated/' + tag)

    def pt():
        return [rng.uniform(-5, 5), rng.uniform(6, 9), rng.uniform(-20, -10)]          # three distinct coordinates

    for it in range(ctx.n(12, 120)):
        # ---------------------------------------------------------------- create_ray
        m = [1, 1, 2, 5][it % 4]
        pts = np.array([pt() for _ in range(m)])
        abg = np.array([[rng.choice([0.0, 90.0, 180.0, rng.uniform(-360, 360)]) for _ in range(3)] for _ in range(m)])
        for direction in (False, True):
            shapes = ['[m x 3]'] + (['[3]'] if m == 1 else [])
            for shp in shapes:
                a, b = (pts[0], abg[0]) if shp == '[3]' else (pts, abg)
                out = LR.create_ray(torch.tensor(a, dtype=torch.float64), torch.tensor(b, dtype=torch.float64), direction=direction)
                rec = {'fn': 'torch create_ray', 'xyz': pts.tolist(), 'abg': abg.tolist(), 'size': shp, 'direction': direction}
                if tuple(out.shape) != (m, 2, 3):
                    ctx.alarm('correspondence', 'torch create_ray returns shape %s for %d start point(s) of size %s; the regenerated definition '
                              'describes %d ray(s) (%s)' % (tuple(out.shape), m, shp, m, rec))
                    continue
                add('create_ray torch', 'gr_create_ray 1 %d %d %s %s' % (int(direction), m, fl(pts), fl(abg)),
                    out.numpy(), 2e-6, rec)          # the returned tensor is float32 (torch.zeros default) whatever the inputs
        add('create_ray numpy', 'gr_create_ray 0 0 1 %s %s' % (fl(pts[0]), fl(abg[0])),
            NR.create_ray(pts[0].tolist(), abg[0].tolist()), 1e-9, {'fn': 'numpy create_ray', 'x0y0z0': pts[0].tolist(), 'abg': abg[0].tolist()})
        # ---------------------------------------------------------------- create_ray_from_angles
        cls = it % 3
        angles = [0.0, 0.0, 0.0] if cls == 0 else [rng.uniform(-180, 180) for _ in range(3)]
        if cls == 1:
            angles[rng.randrange(3)] = 0.0
        zero = int(all(x == 0 for x in angles))
        for mi, mode in enumerate(MODES):
            for shp in ('[3]', '[1 x 3]', '[m x 3]'):
                P = pts[0] if shp == '[3]' else pts[:1] if shp == '[1 x 3]' else pts
                out = np.asarray(NR.create_ray_from_angles(np.array(P, dtype=np.float64), list(angles), mode=mode), dtype=np.float64)
                k = 1 if shp != '[m x 3]' else m
                rec = {'fn': 'create_ray_from_angles', 'point': np.asarray(P).tolist(), 'angles': angles, 'mode': mode, 'size': shp}
                if out.reshape(-1).shape[0] != 6 * k:
                    ctx.alarm('correspondence', 'create_ray_from_angles returns shape %s (%s)' % (out.shape, rec))
                    continue
                for batch in ((0, 1) if k == 1 else (1,)):       # one start point: both the single-point and the batch definition
                    add('create_ray_from_angles' + (' (batch definition)' if batch else ''),
                        'gr_from_angles %d %d %d %d %s %s' % (batch, mi, zero, k, fl(np.asarray(P).reshape(-1)[:3 * k]), fl(angles)),
                        out, 1e-9, rec)
        # ---------------------------------------------------------------- two rays
        kind = ['generic', 'meeting', 'axis-aligned', 'meeting axis-aligned', 'one zero cross component'][it % 5]
        o0 = np.array(pt())
        if kind in ('generic', 'meeting'):
            d0, d1 = unit(rng), unit(rng)
        elif kind in ('axis-aligned', 'meeting axis-aligned'):
            ax = rng.sample(range(3), 2)
            d0, d1 = np.zeros(3), np.zeros(3)
            d0[ax[0]], d1[ax[1]] = rng.choice([-1.0, 1.0]), rng.choice([-1.0, 1.0])
        else:                                  # both directions in a coordinate plane: the cross product is along the third axis
            d0, d1 = np.zeros(3), np.zeros(3)
            a0, a1 = rng.uniform(0.2, 1.2), rng.uniform(1.9, 2.9)
            d0[:2], d1[:2] = [np.cos(a0), np.sin(a0)], [np.cos(a1), np.sin(a1)]
        if np.linalg.norm(np.cross(d0, d1)) < 0.2:
            continue                           # nearly parallel: ill-conditioned least squares
        if kind.startswith('meeting'):
            s0, s1 = rng.uniform(-4, 6), rng.uniform(-4, 6)
            o1 = o0 + s0 * d0 - s1 * d1
        else:
            o1 = np.array(pt()) + np.array([rng.uniform(-3, 3) for _ in range(3)])
        r0, r1 = np.array([o0, d0]), np.array([o1, d1])
        rec = {'kind': kind, 'ray0': r0.tolist(), 'ray1': r1.tolist()}
        scale = 1e-8 * (1 + float(np.max(np.abs(np.concatenate([o0, o1]))))) / float(np.linalg.norm(np.cross(d0, d1))) ** 2
        # `np.allclose(A t, B)` decides between the least-squares distances and (0, 0): keep away from its threshold
        A = np.array([d0, d1]).T
        B = o0 - o1
        t = np.linalg.lstsq(A, B, rcond=None)[0]
        resid = np.abs(A @ t - B) - (1e-8 + 1e-5 * np.abs(B))
        if np.all(np.abs(resid) > 1e-7) and abs(t[0] - t[1]) > 1e-6:
            p, dist = NR.calculate_intersection_of_two_rays(r0.copy(), r1.copy())
            add('calculate_intersection_of_two_rays', 'gr_intersect %s %s' % (fl(r0), fl(r1)),
                np.concatenate([np.asarray(p, dtype=np.float64).reshape(-1), np.asarray(dist, dtype=np.float64).reshape(-1)]), scale, rec)
            n = np.cross(d0, d1)
            if np.all(np.abs(n[n != 0]) > 1e-6):       # the branch test `np.all(n) == 0` is exact: no component within rounding of zero
                c0, c1 = NR.find_nearest_points(r0.copy(), r1.copy())
                add('find_nearest_points (%s branch)' % ('first' if np.any(n == 0) else 'generic'), 'gr_nearest %s %s' % (fl(r0), fl(r1)),
                    np.concatenate([np.asarray(c0, dtype=np.float64).reshape(-1), np.asarray(c1, dtype=np.float64).reshape(-1)]),
                    scale * 10, rec)
    if ctx.drv_ok and items:
        outs = ctx.model.ask([it[1] for it in items])
        bad = 0
        for (tag, line, want, tol, rec), out in zip(items, outs):
            try:
                got = np.array([b2f(t) for t in out.split()], dtype=np.float64)
            except ValueError:
                got = np.array([])
            ok = got.shape == want.shape
            if ok:
                fin = np.isfinite(want)
                ok = np.array_equal(np.isfinite(got), fin) and bool(np.all(np.abs(got[fin] - want[fin]) <= tol * np.maximum(1.0, np.abs(want[fin]))))
            if not ok:
                bad += 1
                if bad <= 5:
                    ctx.alarm('correspondence', 'generated %s: implementation %s vs regenerated definition %s (%s)'
                              % (tag, want.tolist(), got.tolist() if got.size else out[:80], rec))
    ctx.extra.setdefault('generated_ray_definitions_checked', sorted(set(it[0] for it in items)))
