"""Executable tie of lean/OdakModel/Generated/PipelinesMore.lean (the output of harness/translate/pipelines_more.py): the regenerated
NumPy `fraunhofer_inverse`, `rayleigh_sommerfeld` (square fields: the only shapes the source accepts) and
`fraunhofer_equal_size_adjust` are evaluated at Float by the driver (lean/OdakModel/Exec/OpsGenPipeMore.lean) and compared with the
real functions of odak.wave on random fields, both signs of the distance, zero samples in the field (the guard of the direct summation).
Tolerances: float64 paths 1e-9 relative to the output scale; `rayleigh_sommerfeld` accumulates into a complex64 array (float32): 2e-5.
A disagreement is a broken correspondence (translator or model), reported as an alarm."""
import math
import warnings
import numpy as np
from ..lib.core import f2b, b2f
from . import wavelib as W

warnings.filterwarnings('ignore')


def check_generated_pipelines_more(ctx):
    import odak.wave as NW
    rng = ctx.rng
    if not ctx.drv_ok:
        return
    bad = [0]

    def alarm(msg):
        bad[0] += 1
        if bad[0] <= 6:
            ctx.alarm('correspondence', msg)
    fb = lambda *xs: ' '.join(str(f2b(x)) for x in xs)
    # ---------------------------------------------------------------- fraunhofer_inverse
    lines, wants, recs = [], [], []
    for (n, m) in [(4, 4), (5, 6), (6, 5), (7, 7)] + ([] if ctx.quick else [(8, 3), (9, 10)]):
        for zc in ('near', 'far', 'neg'):
            dx, lam, z, _ = W.rand_optics(rng, zc)
            k = 2 * math.pi / lam
            u = W.rand_field(rng, n, m, 'gauss')
            want = np.asarray(NW.propagate_beam(u, k, z, dx, lam, 'Fraunhofer Inverse'), dtype=np.complex128)
            lines.append('gm_frinv %d %d %s %s' % (n, m, fb(dx, lam, k, z), W.enc_field(u)))
            wants.append(want)
            recs.append(('fraunhofer_inverse', n, m, dx, lam, z, 1e-9))
            ctx.case(('gen', 'fraunhofer_inverse', n, m, zc), True)
    ctx.count('generated/numpy fraunhofer_inverse', len(lines))
    # ---------------------------------------------------------------- rayleigh_sommerfeld (square)
    k0 = len(lines)
    for n in [3, 4, 5] + ([] if ctx.quick else [6, 8]):
        for zc in ('near', 'far', 'neg'):
            dx, lam, z, _ = W.rand_optics(rng, zc)
            k = 2 * math.pi / lam
            u = W.rand_field(rng, n, n, 'gauss')
            u[rng.randrange(n), rng.randrange(n)] = 0.0                          # the guard `field[i, j] != 0`
            if zc == 'far':
                u = np.real(u).astype(np.complex128)
            want = np.asarray(NW.propagate_beam(u, k, z, dx, lam, 'Rayleigh-Sommerfeld'), dtype=np.complex128)
            lines.append('gm_rs %d %s %s' % (n, fb(dx, lam, k, z), W.enc_field(u)))
            wants.append(want)
            recs.append(('rayleigh_sommerfeld', n, n, dx, lam, z, 2e-5))
            ctx.case(('gen', 'rayleigh_sommerfeld', n, zc), True)
    ctx.count('generated/numpy rayleigh_sommerfeld', len(lines) - k0)
    outs = ctx.model.ask(lines)
    for want, rec, o in zip(wants, recs, outs):
        name, n, m, dx, lam, z, tol = rec
        try:
            got = W.dec_field(o, n, m)
        except Exception:
            alarm('generated %s: the driver answered %s' % (name, o[:60]))
            continue
        scale = max(1e-12, float(np.max(np.abs(want))))
        d = W.maxdiff(got, want) / scale
        if not d <= tol:
            alarm('generated %s: implementation and regenerated definition differ by %.3g of the output scale (%dx%d, dx=%g lam=%g z=%g)'
                  % (name, d, n, m, dx, lam, z))
    # non-square fields: the source raises (which is why the generated definition is over n x n grids)
    try:
        NW.propagate_beam(W.rand_field(rng, 4, 6, 'gauss'), 2 * math.pi / 0.5, 1.0, 1.0, 0.5, 'Rayleigh-Sommerfeld')
        alarm('numpy rayleigh_sommerfeld accepts a non-square field: the regenerated definition covers square fields only')
    except Exception:
        ctx.count('generated/numpy rayleigh_sommerfeld rejects a non-square field (as the regenerated shapes say)')
    # ---------------------------------------------------------------- fraunhofer_equal_size_adjust
    lines, wants = [], []
    for (n, m) in [(6, 6), (8, 8), (6, 8), (7, 5), (9, 9)]:
        for _ in range(2):
            dx, lam = rng.uniform(0.6, 1.5), rng.uniform(0.4, 0.7)
            z = rng.uniform(1.15, 2.6) * max(n, m) * dx * dx / lam      # l1 / l2 below 1: the window is smaller than the field
            u = W.rand_field(rng, n, m, 'gauss')
            want = np.asarray(NW.fraunhofer_equal_size_adjust(u, z, dx, lam), dtype=np.complex128)
            lines.append('gm_fesa %d %d %s %s' % (n, m, fb(dx, lam, z), W.enc_field(u)))
            wants.append(want)
            ctx.case(('gen', 'fraunhofer_equal_size_adjust', n, m), True)
    ctx.count('generated/numpy fraunhofer_equal_size_adjust', len(lines))
    for want, o, line in zip(wants, ctx.model.ask(lines), lines):
        xs = [b2f(t) for t in o.split()]
        nx, px, ny, py = [int(v) for v in xs[:4]]
        if (px, py) != want.shape:
            # NumPy clips a slice that leaves the array; the definition is stated for windows inside the field only
            if nx < 0 or ny < 0 or nx + px > int(line.split()[1]) or ny + py > int(line.split()[2]):
                ctx.count('generated/numpy fraunhofer_equal_size_adjust: window leaves the field (not compared)')
                continue
            alarm('generated fraunhofer_equal_size_adjust: window %s vs implementation shape %s' % ((nx, px, ny, py), want.shape))
            continue
        got = np.array(xs[4:]).reshape(px, py, 2) if px * py else np.zeros((px, py, 2))
        got = got[..., 0] + 1j * got[..., 1]
        if got.shape != want.shape or (want.size and W.maxdiff(got, want) > 0):
            alarm('generated fraunhofer_equal_size_adjust: copied window differs (window %s)' % ((nx, px, ny, py),))
    done = set(ctx.extra.get('generated_definitions_checked', []))
    ctx.extra['generated_definitions_checked'] = sorted(done | {'numpy fraunhofer_inverse', 'numpy rayleigh_sommerfeld', 'numpy fraunhofer_equal_size_adjust'})
    ctx.note('NumPy band_extended_angular_spectrum / adaptive_sampling_angular_spectrum need the finufft package (not installed): not regenerated')
