"""Executable tie of lean/OdakModel/Generated/CylinderGen.lean (the output of harness/translate/cylinder.py) and of the secant loop
instantiated with it (lean/OdakModel/Cylinder.lean, driver ops of lean/OdakModel/Exec/OpsGenCyl.lean):

 * `point_to_ray_distance`, `closest_point_to_a_ray`, `cylinder_function`, `get_cylinder_normal`: value for value on generated points,
   rays and packed cylinders (axis along a coordinate axis, oblique axes, centres with three distinct coordinates, a degenerate axis);
 * `intersect_w_cylinder` / `intersect_parametric(ray, cylinder, cylinder_function, get_cylinder_normal, ...)`: ITERATE FOR ITERATE -
   exit kind (hit / iteration limit / NaN / guard false on entry), number of passes (observed by counting the calls of the surface
   function), returned distance, point and normal - for rays perpendicular and oblique to the axis, PARALLEL to the axis (outside,
   inside, on the surface), starting inside, on the axis, grazing (exactly tangent, just inside, just outside), pointing away, with a
   zero direction, for a degenerate cylinder, for limits 0 / one short / exact and for a tolerance that makes the guard false on entry;
 * the call `intersect_w_cylinder` makes (regenerated wiring) against what the real function hands to `intersect_parametric`.

A disagreement is a broken correspondence (alarm).  A concrete input on which the real function returns a hit whose point is not on the
cylinder within the tolerance (the conclusion of `C12_gen_cylinder_hit_residual`), needs more than `limit + 1` passes
(`C12_gen_cylinder_bounded`), reports a hit for a ray parallel to the axis that starts off the surface (`C12_gen_cylinder_parallel_ray`) or
raises, is a violation of C12."""
import math
import warnings
import numpy as np
from ..lib.core import f2b, b2f


def fl(xs):
    return ' '.join(str(f2b(float(x))) for x in np.asarray(xs, dtype=np.float64).reshape(-1))


def close(a, b, tol):
    a, b = np.asarray(a, dtype=np.float64).reshape(-1), np.asarray(b, dtype=np.float64).reshape(-1)
    if a.shape != b.shape:
        return False
    fa, fb = np.isfinite(a), np.isfinite(b)
    if not np.array_equal(fa, fb) or not np.array_equal(np.isnan(a), np.isnan(b)):
        return False
    if not np.array_equal(np.sign(a[~fa & ~np.isnan(a)]), np.sign(b[~fb & ~np.isnan(b)])):
        return False
    scale = max(1.0, float(np.max(np.abs(b[fb]))) if fb.any() else 1.0)
    return bool(np.all(np.abs(a[fa] - b[fb]) <= tol * scale))


def unit(v):
    v = np.asarray(v, dtype=np.float64)
    return v / np.linalg.norm(v)


def cylinders(rng, k):
    """packed cylinders [c, r, p]: p = c + unit axis, as define_cylinder builds them"""
    out = [('axis_y_origin', [0.0, 0.0, 0.0, 3.0, 0.0, 1.0, 0.0]), ('axis_z', [1.0, -2.0, 0.5, 2.0, 1.0, -2.0, 1.5]),
           ('axis_x_far_second_point', [0.5, 1.5, -2.5, 1.25, 4.5, 1.5, -2.5])]
    for i in range(k):
        c = np.array([rng.uniform(-3, 3), rng.uniform(4, 7), rng.uniform(-9, -5)])
        ax = unit([rng.gauss(0, 1) for _ in range(3)])
        out.append(('oblique', c.tolist() + [rng.uniform(0.5, 4)] + (c + ax * rng.choice([1.0, 1.0, 2.5])).tolist()))
    return out


def check_values(ctx):
    from odak.tools.vector import point_to_ray_distance, closest_point_to_a_ray
    from odak.raytracing.primitives import cylinder_function
    from odak.raytracing.boundary import get_cylinder_normal
    rng = ctx.rng
    items = []

    def add(tag, line, want, rec):
        items.append((tag, line, np.asarray(want, dtype=np.float64).reshape(-1), rec))
        ctx.case(('gen_cyl', tag, line[:70]), True)
        ctx.count('generated cylinder/' + tag)

    with warnings.catch_warnings():
        warnings.simplefilter('ignore')
        for name, cyl in cylinders(rng, ctx.n(8, 60)) + [('degenerate_axis', [1.0, 2.0, 3.0, 2.0, 1.0, 2.0, 3.0])]:
            cyl = np.array(cyl, dtype=np.float64)
            c, r, p = cyl[0:3], cyl[3], cyl[4:7]
            for j in range(3):
                q = c + np.array([rng.uniform(-6, 6) for _ in range(3)])
                if j == 1 and name != 'degenerate_axis':      # a point exactly on the axis line: the normal has zero length (NaN direction)
                    q = c + (p - c) * rng.uniform(-2, 2)
                rec = {'cylinder': cyl.tolist(), 'point': q.tolist(), 'class': name}
                add('point_to_ray_distance', 'gc_linedist %s %s %s' % (fl(q), fl(c), fl(p)),
                    [point_to_ray_distance(q.reshape(1, 3), c.copy(), p.copy())], rec)
                add('cylinder_function', 'gc_cylfn %s %s' % (fl(q), fl(cyl)), [cylinder_function(q.copy(), cyl.copy())], rec)
                # a point ON the axis: the direction is (q - foot) / |q - foot| with q - foot = rounding noise (0 / 0 or a random unit vector): only the
                # foot of the perpendicular is compared there
                add('get_cylinder_normal' + (' (point on the axis: foot only)' if j == 1 and name != 'degenerate_axis' else ''),
                    'gc_cylnormal %s %s' % (fl(q), fl(cyl)), np.asarray(get_cylinder_normal(q.copy(), cyl.copy()), dtype=np.float64).reshape(6), rec)
                d = np.array([rng.gauss(0, 1) for _ in range(3)]) if j else np.zeros(3)
                if j == 2:
                    d = unit(d)
                ray = np.array([c, d])
                add('closest_point_to_a_ray', 'gc_closest %s %s' % (fl(q), fl(ray)), closest_point_to_a_ray(q.copy(), ray.copy()), rec)
    if not (ctx.drv_ok and items):
        return
    bad = 0
    for (tag, line, want, rec), out in zip(items, ctx.model.ask([it[1] for it in items])):
        try:
            got = np.array([b2f(t) for t in out.split()], dtype=np.float64)
        except ValueError:
            got = np.array([])
        if 'foot only' in tag:
            got, want = got[:3], want[:3]
        if not close(got, want, 1e-9):
            bad += 1
            if bad <= 5:
                ctx.alarm('correspondence', 'generated %s: implementation %s vs regenerated definition %s (%s)'
                          % (tag, want.tolist(), got.tolist() if got.size else out[:80], rec))


def loop_cases(rng, n_random):
    cy = [0.0, 0.0, 0.0, 3.0, 0.0, 1.0, 0.0]                     # axis = y axis through the origin, radius 3
    cases = [('hit_perpendicular', [[0, 0, -10.0], [0, 0, 1.0]], cy, 1e-8, None),
             ('hit_oblique', [[1.0, -4.0, -10.0], unit([0.2, 0.5, 1.0]).tolist()], cy, 1e-8, None),
             ('parallel_to_axis_outside', [[10.0, 0, 0], [0, 1.0, 0]], cy, 1e-8, 300),
             ('parallel_to_axis_outside_backwards', [[0.0, 5.0, 7.0], [0, -1.0, 0]], cy, 1e-8, 300),
             ('parallel_to_axis_inside', [[1.0, 0, 1.0], [0, 1.0, 0]], cy, 1e-8, 300),
             ('parallel_to_axis_on_surface', [[3.0, 0, 0], [0, 1.0, 0]], cy, 1e-8, 300),
             ('along_the_axis', [[0.0, -2.0, 0.0], [0, 1.0, 0]], cy, 1e-8, 300),
             ('parallel_oblique_axis', None, None, 1e-8, 300),
             ('miss', [[10.0, 0, -10.0], [0, 0, 1.0]], cy, 1e-8, 400),
             ('pointing_away', [[0, 0, -10.0], [0, 0, -1.0]], cy, 1e-8, 300),
             ('grazing_exact', [[3.0, 0, -10.0], [0, 0, 1.0]], cy, 1e-8, 2000),
             ('grazing_inside', [[3.0 - 1e-6, 0, -10.0], [0, 0, 1.0]], cy, 1e-8, 2000),
             ('grazing_outside', [[3.0 + 1e-6, 0, -10.0], [0, 0, 1.0]], cy, 1e-8, 600),
             ('inside_start_on_axis', [[0, 0, 0], [0, 0, 1.0]], cy, 1e-8, None),
             ('inside_start', [[0.5, -1.0, 1.0], [0.6, 0.0, 0.8]], cy, 1e-8, None),
             ('inside_start_oblique', [[-1.0, 2.0, 0.5], unit([0.3, 0.8, -0.5]).tolist()], cy, 1e-8, 500),
             ('start_on_surface', [[3.0, 1.0, 0.0], [-1.0, 0, 0]], cy, 1e-8, 500),
             ('zero_direction', [[0, 0, -10.0], [0, 0, 0]], cy, 1e-8, 300),
             ('zero_direction_on_surface', [[0, 2.0, 3.0], [0, 0, 0]], cy, 1e-8, 300),
             ('degenerate_axis', [[0, 0, -10.0], [0, 0, 1.0]], [0.0, 0.0, 0.0, 3.0, 0.0, 0.0, 0.0], 1e-8, 300),
             ('zero_radius', [[0.5, 0, -10.0], [0, 0, 1.0]], [0.0, 0.0, 0.0, 0.0, 0.0, 1.0, 0.0], 1e-8, 400),
             ('limit_zero', [[0, 0, -10.0], [0, 0, 1.0]], cy, 1e-8, 0),
             ('limit_one_short', [[0, 0, -10.0], [0, 0, 1.0]], cy, 1e-8, 'short'),
             ('limit_exact', [[0, 0, -10.0], [0, 0, 1.0]], cy, 1e-8, 'exact'),
             ('loose_tolerance', [[0, 0, -10.0], [0, 0, 1.0]], cy, 1e-2, 300),
             ('guard_false_on_entry', [[0, 0, -10.0], [0, 0, 1.0]], cy, 100.0, 300)]
    for i in range(n_random):
        c = np.array([rng.uniform(-1, 1), rng.uniform(-1, 1), rng.uniform(6, 14)])
        ax = unit([rng.gauss(0, 1) for _ in range(3)])
        r = rng.uniform(0.5, 4)
        cyl = c.tolist() + [r] + (c + ax).tolist()
        kind = rng.choice(['hit', 'hit', 'miss', 'grazing', 'parallel', 'inside'])
        u = np.array([rng.gauss(0, 1) for _ in range(3)])
        u = unit(u - np.dot(u, ax) * ax)                            # unit vector perpendicular to the axis
        w = np.cross(ax, u)
        if kind == 'parallel':
            off = rng.choice([0.3, 0.9, 1.5, 3.0])
            o = c + off * r * u + rng.uniform(-3, 3) * ax
            d = ax * rng.choice([1.0, -1.0])
        elif kind == 'inside':
            o = c + rng.uniform(0, 0.9) * r * u + rng.uniform(-2, 2) * ax
            d = unit([rng.gauss(0, 1) for _ in range(3)])
        else:
            off = {'hit': rng.uniform(0, 0.8), 'miss': rng.uniform(1.3, 3), 'grazing': 1 + rng.choice([-1, 1]) * 10 ** rng.uniform(-7, -3)}[kind]
            o = c + off * r * u - rng.uniform(5, 12) * w + rng.uniform(-2, 2) * ax
            d = unit(w + rng.uniform(-0.5, 0.5) * ax)               # travels across the axis direction at lateral offset `off * r`
        cases.append(('random_' + kind, [o.tolist(), d.tolist()], cyl, rng.choice([1e-8, 1e-8, 1e-5]), rng.choice([150, 400])))
    # the oblique-axis parallel case, built here so that the direction is the axis direction bit for bit
    c = np.array([1.0, -2.0, 3.0]); ax = unit([1.0, 2.0, 2.0])
    cyl = c.tolist() + [1.5] + (c + ax).tolist()
    cases = [(n, [(c + np.array([0.0, 4.0, -1.0])).tolist(), (np.array(cyl[4:7]) - c).tolist()], cyl, t, l) if n == 'parallel_oblique_axis' else (n, ray, cy_, t, l)
             for n, ray, cy_, t, l in cases]
    return cases


def check_loop(ctx):
    import odak.raytracing as NR
    from odak.raytracing.boundary import intersect_parametric, get_cylinder_normal
    from odak.raytracing.primitives import cylinder_function
    rng = ctx.rng
    dflt = ctx.model.ask(['param_defaults'])[0].split() if ctx.drv_ok else None
    default_limit = int(dflt[1]) if dflt else 100000
    cases = loop_cases(rng, ctx.n(30, 300))

    def real(ray, cyl, target, limit):
        calls = [0, None]

        def counting(p, s):
            calls[0] += 1
            calls[1] = np.array(p, dtype=np.float64).reshape(3)        # the last point the surface function saw is the returned `point`
            return cylinder_function(p, s)
        kw = {} if limit is None else {'iter_no_limit': limit}
        with warnings.catch_warnings():
            warnings.simplefilter('ignore')
            try:
                dist, normal = intersect_parametric(np.array(ray, dtype=np.float64), np.array(cyl, dtype=np.float64), counting,
                                                    get_cylinder_normal, target_error=target, **kw)
            except UnboundLocalError:
                return ('unbound', calls[0])
            except Exception as e:          # an exception from deep inside
                return ('raised', calls[0], repr(e))
        if normal is False:
            return ('miss', calls[0])
        n = np.asarray(normal, dtype=np.float64).reshape(2, 3)
        return ('hit', calls[0], float(np.asarray(dist).reshape(-1)[0]), n, calls[1])

    # the two limit cases depend on the number of passes the unlimited run needs
    base = real([[0, 0, -10.0], [0, 0, 1.0]], [0.0, 0.0, 0.0, 3.0, 0.0, 1.0, 0.0], 1e-8, 1000)
    need = base[1] if base[0] == 'hit' else 10
    cases = [(n, ray, cyl, t, {'short': need - 1, 'exact': need}.get(l, l)) for n, ray, cyl, t, l in cases]
    lines = ['param_cylinder %s %s %d %d' % (fl(ray), fl(cyl), f2b(target), default_limit if limit is None else limit)
             for name, ray, cyl, target, limit in cases]
    outs = ctx.model.ask(lines) if ctx.drv_ok else [None] * len(lines)
    for (name, ray, cyl, target, limit), out in zip(cases, outs):
        rec = {'kind': 'cylinder_model', 'name': name, 'ray': ray, 'cylinder': cyl, 'target_error': target, 'limit': limit}
        ctx.case(('cylinder_model', name, tuple(ray[0]), tuple(ray[1])), True, rec if name == 'hit_perpendicular' else None)
        ctx.count('cylinder_model/' + name.replace('random_', 'random '))
        lim = default_limit if limit is None else limit
        py = real(ray, cyl, target, limit)
        cls = {'fn': 'intersect_w_cylinder', 'api': 'numpy', 'case': name}
        if py[0] == 'raised':
            ctx.violation('intersect_parametric on a cylinder raised %s (%s)' % (py[2], name), rec, dict(cls, what='exception'))
            continue
        if limit is None and py[0] == 'hit':       # the public entry point with the defaults gives the same answer, normal first
            with warnings.catch_warnings():
                warnings.simplefilter('ignore')
                n2, d2 = NR.intersect_w_cylinder(np.array(ray, dtype=np.float64), np.array(cyl, dtype=np.float64))
            if float(np.asarray(d2).reshape(-1)[0]) != py[2] or not np.array_equal(np.asarray(n2, dtype=np.float64).reshape(2, 3), py[3], equal_nan=True):
                ctx.alarm('correspondence', 'intersect_w_cylinder and intersect_parametric(cylinder_function, get_cylinder_normal) disagree for %s' % rec)
        # ---- the conclusions of the C12 corollaries on the implementation's own output
        if py[1] > lim + 1:
            ctx.violation('intersect_parametric on a cylinder made %d passes with iter_no_limit = %d' % (py[1], lim), rec, dict(cls, what='unbounded'))
        cv = np.array(cyl, dtype=np.float64)
        degenerate = bool(np.all(cv[0:3] == cv[4:7]))
        # a returned distance that is NaN is an explicit mark ("no solution"), like (False, False): C12 accepts it.  This is how a ray
        # parallel to an OBLIQUE axis ends: the distance runs to inf, the point is (inf, inf, inf) - not NaN, so the NaN exit is not taken -
        # the cylinder function there is NaN, the guard `abs(nan) > target` is false and the loop ends with distance NaN and a NaN normal.
        solved = py[0] == 'hit' and not math.isnan(py[2])
        if py[0] == 'hit' and not solved:
            ctx.count('cylinder_model/observation: loop left through a NaN residual, returned distance NaN (marked)')
        if solved and not degenerate:
            with np.errstate(all='ignore'):
                resid = abs(float(cylinder_function(py[4].copy(), cv.copy())))
                ax = cv[4:7] - cv[0:3]
                qq = py[4] - cv[0:3]
                axis_d2 = float(np.dot(qq, qq) - np.dot(qq, ax) ** 2 / np.dot(ax, ax))
            geo = abs(axis_d2 - cv[3] ** 2)
            if not (resid <= target and geo <= target + 1e-9 * max(1.0, cv[3] ** 2, float(np.dot(qq, qq))) and 1 <= py[1] <= lim) \
                    or not np.isfinite(py[2]):
                ctx.violation('intersect_parametric on a cylinder returns a hit (distance %r) whose point %s has |dist(point, axis)^2 - r^2| = %g > '
                              'target_error %g (or after %d > limit passes)' % (py[2], py[4].tolist(), geo, target, py[1]), rec,
                              dict(cls, what='hit_residual'))
        if solved and name.startswith(('parallel_to_axis_outside', 'parallel_to_axis_inside', 'along_the_axis', 'zero_direction', 'parallel_oblique',
                                               'random_parallel')) and name != 'zero_direction_on_surface':
            with np.errstate(all='ignore'):
                start = abs(float(cylinder_function(np.array(ray[0], dtype=np.float64), cv.copy())))
            if start > target:
                ctx.violation('a ray parallel to the cylinder axis (or of zero direction) that starts with residual %g is reported as a hit at distance %r'
                              % (start, py[2]), rec, dict(cls, what='unflagged'))
        if out is None:
            continue
        tok = out.split()
        mk, mit = tok[0], int(tok[1])
        if mk == '0':
            md, mp, mn = b2f(tok[2]), np.array([b2f(t) for t in tok[3:6]]), np.array([b2f(t) for t in tok[6:12]])
            ok = py[0] == 'hit' and py[1] == mit and close([py[2]], [md], 1e-9) and close(py[4], mp, 1e-9) and close(py[3].reshape(6), mn, 1e-7)
        elif mk == '1':
            ok = py[0] == 'miss' and py[1] == mit == lim + 1
        elif mk == '2':
            ok = py[0] == 'miss' and py[1] == mit and mit <= lim
        else:
            ok = py[0] == 'unbound' and py[1] == 0
        if not ok:
            ctx.alarm('correspondence', 'intersect_parametric on a cylinder %s vs model %s (%s)' % (
                [x.tolist() if isinstance(x, np.ndarray) else x for x in py], out if mk != '0' else [mk, mit, md, mp.tolist(), mn.tolist()], rec))


def check_wiring(ctx):
    """the regenerated call of `intersect_w_cylinder` against what the real function hands to `intersect_parametric`"""
    import odak.raytracing.boundary as B
    seen = {}
    orig = B.intersect_parametric

    def spy(*a, **k):
        seen['args'] = [getattr(x, '__name__', None) for x in a]
        seen['kw'] = sorted(k)
        return 'D', 'N'
    B.intersect_parametric = spy
    try:
        res = B.intersect_w_cylinder(np.zeros((2, 3)), np.zeros(7))
    finally:
        B.intersect_parametric = orig
    ctx.case(('cylinder_wiring',), True)
    ctx.count('cylinder_model/wiring')
    real = ['intersect_parametric', 'ray', 'cylinder'] + [a for a in seen.get('args', [])[2:]] + seen.get('kw', [])
    ret = ['normal' if x == 'N' else 'distance' if x == 'D' else repr(x) for x in res]
    if ctx.drv_ok:
        call, unpack, back = [part.strip('|').split('|') for part in ctx.model.ask(['cyl_wiring'])[0].split('->')]
        if call != real or back != ret or unpack != ['distance', 'normal']:
            ctx.alarm('correspondence', 'intersect_w_cylinder calls %s and returns %s; regenerated wiring: %s -> %s -> %s' % (real, ret, call, unpack, back))


def check_generated_cylinder(ctx):
    check_values(ctx)
    check_loop(ctx)
    check_wiring(ctx)
    ctx.extra.setdefault('generated_definitions_checked', [])
    ctx.extra['generated_definitions_checked'] = sorted(set(ctx.extra['generated_definitions_checked']) | {
        'point_to_ray_distance', 'closest_point_to_a_ray', 'cylinder_function', 'get_cylinder_normal', 'intersect_w_cylinder (loop, iterate for iterate)',
        'intersect_w_cylinder (wiring)'})
