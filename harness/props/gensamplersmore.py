"""Executable tie of lean/OdakModel/Generated/SamplersMore.lean (the output of harness/translate/samplers_more.py): every generated
definition is evaluated at Float by the driver (lean/OdakModel/Exec/OpsGenSampMore.lean), ALL returned rows IN ORDER, and compared with
the real function of /repo:

  circular_uniform_sample          `no` with no[0] = 1 (no point at all), no[0] dividing no[1] and not, no[0] > no[1]; tilts incl. the
                                   all-zero tilt (early return of rotate_points); centres with three distinct coordinates
  circular_uniform_random_sample   the two np.random.uniform calls replayed from the seeded NumPy RNG with the REGENERATED bounds and sizes
  random_sample_point_cloud        np.random.choice replayed from the seeded RNG with the REGENERATED call (which expression in which
                                   parameter), with and without a probability list
  batch_of_rays                    n-n, 1-n, n-1, [3]-[3] and (outside the documented domain) unequal counts; a coincident entry / exit pair

The row COUNT is part of the comparison.  A disagreement is a broken correspondence (translator or model): an alarm."""
import logging
import warnings
import numpy as np
from ..lib.core import f2b, b2f

logging.disable(logging.WARNING)
warnings.filterwarnings('ignore')


def fl(xs):
    return ' '.join(str(f2b(float(x))) for x in np.asarray(xs, dtype=np.float64).reshape(-1))


def check_generated_samplers_more(ctx):
    import odak.tools as NT
    rng = ctx.rng
    items = []           # (tag, driver line, implementation rows, tolerance, record)

    def add(tag, line, want, tol, rec):
        items.append((tag, line, np.asarray(want, dtype=np.float64), tol, rec))
        ctx.case(('gen_more', tag, line[:80]), True)
        ctx.count('generated/' + tag)

    draws = call = None
    if ctx.drv_ok:
        d, c = ctx.model.ask(['gm_circ_random_draws', 'gm_cloud_call'])
        draws = [b2f(t) for t in d.split()]
        call = dict(tok.split('=', 1) for tok in c.split('|'))
    if draws is None or len(draws) != 4:
        draws = [0.0, 1.0, 0.0, 2 * np.pi]
    NOS = [[1, 5], [2, 1], [2, 4], [3, 7], [4, 3], [5, 10], [6, 7], [7, 2], [10, 50]]
    for it in range(ctx.n(12, 90)):
        center = [rng.uniform(-5, 5), rng.uniform(6, 9), rng.uniform(-20, -10)]          # three distinct coordinates
        angles = [rng.uniform(-180, 180) for _ in range(3)] if it % 4 else [0.0, 0.0, 0.0]
        if it % 4 == 1:
            angles[rng.randrange(3)] = 0.0
        zero = int(all(a == 0 for a in angles))
        no = NOS[it % len(NOS)] if it % 3 else [rng.randint(1, 7), rng.randint(1, 12)]
        radius = rng.choice([0.01, 1.0, rng.uniform(0.5, 10), 250.0])
        rec = {'no': no, 'radius': radius, 'center': center, 'angles': angles}
        add('circular_uniform_sample', 'gm_circ_uniform %d %d %d %s %s %d' % (no[0], no[1], f2b(radius), fl(center), fl(angles), zero),
            np.asarray(NT.circular_uniform_sample(no=list(no), radius=radius, center=list(center), angles=list(angles))).reshape(-1, 3), 1e-9 * 30, rec)
        nor = [rng.randint(1, 5), rng.randint(1, 6)]
        if nor[0] == nor[1]:
            nor[1] += 1
        seed = rng.randrange(2 ** 31)
        np.random.seed(seed)
        got = np.asarray(NT.circular_uniform_random_sample(no=list(nor), radius=radius, center=list(center), angles=list(angles))).reshape(-1, 3)
        np.random.seed(seed)
        U = np.random.uniform(draws[0], draws[1], nor[0])
        V = np.random.uniform(draws[2], draws[3], nor[1])
        add('circular_uniform_random_sample',
            'gm_circ_random %d %d %d %s %s %d %s %s' % (nor[0], nor[1], f2b(radius), fl(center), fl(angles), zero, fl(U), fl(V)),
            got, 1e-9 * 30, dict(rec, no=nor, np_seed=seed))
        # ---- random_sample_point_cloud
        n = [1, 2, 5, 17][it % 4]
        cloud = np.array([[rng.uniform(-9, 9) for _ in range(3)] for _ in range(n)])
        withp = it % 3 == 2
        size = rng.randint(1, 12) if withp else rng.randint(1, n)
        p = None
        if withp:
            keep = [i for i in range(n) if rng.random() < 0.6] or [0]
            p = [1.0 / len(keep) if i in keep else 0.0 for i in range(n)]
        seed = rng.randrange(2 ** 31)
        np.random.seed(seed)
        sub = np.asarray(NT.random_sample_point_cloud(cloud.copy(), size, None if p is None else list(p)))
        if call is not None:
            scope = {'point_cloud': cloud, 'no': size, 'p': None if p is None else list(p)}
            try:
                kw = {k: eval(v, {'__builtins__': {}}, scope) for k, v in call.items()}      # the regenerated call, parameter by parameter
                np.random.seed(seed)
                choice = np.atleast_1d(np.random.choice(**kw))
            except Exception as e:
                ctx.alarm('correspondence', 'the regenerated np.random.choice call %s cannot be replayed: %r' % (call, e))
                choice = None
            if choice is not None:
                add('random_sample_point_cloud', 'gm_cloud %d %d %d %s %s' % (n, size, len(choice), fl(cloud), ' '.join(str(int(k)) for k in choice)),
                    sub.reshape(-1, 3), 0.0, {'cloud': cloud.tolist(), 'no': size, 'p': p, 'np_seed': seed})
        # ---- batch_of_rays
        k = 1 + it % 4
        form = ['n-n', '1-n', 'n-1', '[3]-[3]', 'm-n unequal (outside the documented domain)', 'n-n with a coincident pair'][it % 6]
        ent = np.array([[rng.uniform(-5, 5) for _ in range(3)] for _ in range(k)])
        ext = np.array([[rng.uniform(-5, 5) for _ in range(3)] for _ in range(k)]) + np.array([0.0, 0.0, 20.0])
        a_ent, a_ext = ent, ext
        if form == '1-n':
            a_ent = ent[0]
        elif form == 'n-1':
            a_ext = ext[0]
        elif form == '[3]-[3]':
            a_ent, a_ext = ent[0], ext[0]
        elif form.startswith('m-n'):
            a_ent = np.array([[rng.uniform(-5, 5) for _ in range(3)] for _ in range(k + 2)])
            a_ext = np.array([[rng.uniform(-5, 5) for _ in range(3)] for _ in range(2)]) + np.array([0.0, 0.0, 20.0])
            if it % 2:
                a_ent, a_ext = a_ext, a_ent
        elif form.endswith('coincident pair'):
            a_ext = ext.copy()
            a_ext[k - 1] = ent[k - 1]
        try:
            rays = np.asarray(NT.batch_of_rays(np.array(a_ent), np.array(a_ext)), dtype=np.float64).reshape(-1, 6)
        except Exception as e:
            ctx.count('generated/batch_of_rays rejected: ' + form)
            rays = None
        if rays is not None:
            e2, x2 = np.asarray(a_ent).reshape(-1, 3), np.asarray(a_ext).reshape(-1, 3)
            add('batch_of_rays ' + form, 'gm_batch %d %d %s %s' % (len(e2), len(x2), fl(e2), fl(x2)), rays, 1e-9,
                {'entry': np.asarray(a_ent).tolist(), 'exit': np.asarray(a_ext).tolist(), 'form': form})
    if ctx.drv_ok and items:
        outs = ctx.model.ask([it[1] for it in items])
        bad = 0
        for (tag, line, want, tol, rec), out in zip(items, outs):
            try:
                got = np.array([b2f(t) for t in out.split()], dtype=np.float64)
            except ValueError:
                got = np.array([])
            ok = got.size == want.size          # the number of generated rows is the implementation's number of rows
            if ok and want.size:
                got = got.reshape(want.shape)
                fin = np.isfinite(want)
                ok = np.array_equal(np.isfinite(got), fin) and bool(np.all(np.abs(got[fin] - want[fin]) <= tol * max(1.0, float(np.max(np.abs(want[fin]), initial=0.0)))))
            if not ok:
                bad += 1
                if bad <= 5:
                    ctx.alarm('correspondence', 'generated %s: implementation (%d numbers) %s vs regenerated definition (%d numbers) %s (%s)'
                              % (tag, want.size, np.round(want, 6).tolist()[:3], got.size, np.round(got, 6).tolist()[:3] if got.size else out[:80], rec))
    ctx.extra.setdefault('generated_definitions_checked', [])
    ctx.extra['generated_definitions_checked'] = sorted(set(ctx.extra['generated_definitions_checked']) | set(it[0].split(' ')[0] for it in items))
