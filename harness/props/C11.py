"""C11 – reflection and refraction obey the law of reflection and Snell's law.
Correspondence: reflect (both APIs) and torch refract (direction and Newton iterate) vs the Lean model;
monitors measure the physical laws on the implementation's outputs."""
import logging
import math
import warnings
import numpy as np
import torch
from ..lib.core import f2b, b2f
from ..lib.watchdog import time_limit, CallTimeout

logging.disable(logging.WARNING)
warnings.filterwarnings('ignore')

TRUSTED = ['the torch refract loop is modelled with fuel 100000 (refrLoop); epsilon in reflect and the default tolerance are regenerated constants',
           'reflect and the straight-line parts / loop body of refract are regenerated from the source and proved equal to the model (GenGeometry.lean); the '
           'while loop itself is the hand-written refrLoop']
ASSUMPTIONS = ['unit incident directions, non-zero normals, index pairs with a transmitted solution (no total internal reflection); '
               'float32 in the torch API: tolerance 5e-4']


def fl(xs):
    return ' '.join(str(f2b(float(x))) for x in xs)


def unit(rng):
    while True:
        v = np.array([rng.gauss(0, 1) for _ in range(3)])
        if np.linalg.norm(v) > 1e-3:
            return v / np.linalg.norm(v)


def run(ctx):
    import odak.learn.raytracing as LR
    import odak.raytracing as NR
    rng = ctx.rng
    ctx.rule = ('random unit incident directions x normals of length 1e-3..1e3 and either sign x index pairs with a transmitted '
                'solution (incl. n1 = n2, dense -> rare below the critical angle) x batch sizes 1-4; distinct by coordinates')
    __import__('harness.props.gengeom', fromlist=['x']).check_generated_geometry(ctx, 'C11')   # regenerated definitions vs /repo
    N = ctx.n(200, 3000)
    cases, lines = [], []
    for _ in range(N):
        d = unit(rng)
        nlen = 10 ** rng.uniform(-3, 3) if rng.random() < 0.6 else 1.0
        n = unit(rng) * nlen
        hit = np.array([rng.uniform(-2, 2) for _ in range(3)])
        n1, n2 = rng.choice([(1.0, 1.5), (1.5, 1.0), (1.0, 1.0), (1.33, 1.5), (1.7, 1.2), (1.0, 2.4)])
        mu = n1 / n2
        cosi = abs(np.dot(d, n)) / np.linalg.norm(n)
        sin2t = mu * mu * (1 - cosi * cosi)
        err = rng.choice([0.01, 1e-3, 1e-5])
        cases.append((d, n, hit, n1, n2, sin2t, err))
        lines.append('reflect 0 %s %s' % (fl(d), fl(n)))
        lines.append('reflect 1 %s %s' % (fl(d), fl(n)))
        lines.append('refract %s %s %d %d' % (fl(d), fl(n), f2b(mu), f2b(err)))
    outs = iter(ctx.model.ask(lines)) if ctx.drv_ok else None

    def nxt():
        return next(outs).split() if outs is not None else None

    for (d, n, hit, n1, n2, sin2t, err) in cases:
        nlen = np.linalg.norm(n)
        rec = {'d': d.tolist(), 'n': n.tolist(), 'n1': n1, 'n2': n2, 'normal_length': nlen, 'error': err}
        ctx.case((tuple(np.round(d, 9)), tuple(np.round(n, 9)), n1, n2), True, rec)
        ctx.count('normal_length/' + ('short' if nlen < 1e-2 else 'long' if nlen > 1e2 else 'ordinary'))
        ray = np.array([[0.5, -0.25, 1.0], d])
        nrm = np.array([hit, n])
        # ---------------- reflection
        rn = np.asarray(NR.reflect(ray.copy(), nrm.copy()), dtype=np.float64).reshape(2, 3)
        rt = LR.reflect(torch.tensor(ray, dtype=torch.float64), torch.tensor(nrm, dtype=torch.float64)).numpy().astype(np.float64).reshape(2, 3)
        m0, m1 = nxt(), nxt()
        if m0 is not None:
            w0 = np.array([b2f(x) for x in m0]); w1 = np.array([b2f(x) for x in m1])
            if not np.allclose(rn[1], w0, atol=1e-9):
                ctx.alarm('correspondence', 'numpy reflect %s vs model %s (%s)' % (rn[1].tolist(), w0.tolist(), rec))
            if not np.allclose(rt[1], w1, atol=5e-4):
                ctx.alarm('correspondence', 'torch reflect %s vs model %s (%s)' % (rt[1].tolist(), w1.tolist(), rec))
        exact = d - 2 * np.dot(d, n) / np.dot(n, n) * n
        for api, r, tol in (('numpy', rn, 1e-9), ('torch', rt, 5e-4)):
            out = r[1]
            ok = np.allclose(r[0], hit, atol=1e-6) and abs(np.linalg.norm(out) - 1) <= tol and \
                abs(np.dot(out, n) + np.dot(d, n)) <= tol * nlen and np.linalg.norm(np.cross(out - d, n)) <= tol * nlen and \
                np.allclose(out, exact, atol=tol)
            if not ok:
                ctx.violation('%s reflect violates the law of reflection for a normal of length %.3g: got %s, mirror image is %s'
                              % (api, nlen, out.tolist(), exact.tolist()), dict(rec, api=api),
                              {'api': api, 'fn': 'reflect', 'what': 'mirror_law', 'short_normal': bool(nlen < 0.3)})
        # reflecting twice restores (NumPy)
        back = np.asarray(NR.reflect(np.array([hit, rn[1]]), nrm.copy()), dtype=np.float64).reshape(2, 3)[1]
        if not np.allclose(back, d, atol=1e-9):
            ctx.violation('numpy: reflecting twice does not restore the direction', rec, {'api': 'numpy', 'fn': 'reflect', 'what': 'involution'})
        # ---------------- refraction (torch only; the NumPy API has no refract)
        mref = nxt()
        if sin2t >= 1 - 1e-3:
            continue          # total internal reflection / critical angle: C12
        if abs(np.dot(d, n)) / nlen < 1e-3:
            continue          # grazing: C12
        v = torch.tensor(ray, dtype=torch.float64)
        nv = torch.tensor(nrm, dtype=torch.float64)
        try:
            with time_limit(20.0):
                out = LR.refract(v, nv, n1, n2, error=err).numpy().astype(np.float64).reshape(2, 3)
        except CallTimeout:
            ctx.note('refract did not return within 20 s for an ordinary ray (termination is decided by C12): %s' % (rec,))
            ctx.count('refract/no_return_within_20s')
            continue
        o = out[1]
        ctx.count('refract/' + ('equal' if n1 == n2 else 'dense_to_rare' if n1 > n2 else 'rare_to_dense'))
        if mref is not None:
            if mref[0] != '0':
                ctx.alarm('correspondence', 'model refract status %s but the implementation returned %s (%s)' % (mref[0], o.tolist(), rec))
            else:
                w = np.array([b2f(x) for x in mref[3:6]])
                if not np.allclose(o, w, atol=1e-9 * max(1.0, 1 / nlen)):
                    ctx.alarm('correspondence', 'torch refract %s vs model %s (%s)' % (o.tolist(), w.tolist(), rec))
        mu = n1 / n2
        lenerr = abs(np.dot(o, o) - 1)
        nhat = n / nlen
        sin1 = np.linalg.norm(np.cross(d, nhat))
        sin2 = np.linalg.norm(np.cross(o / max(np.linalg.norm(o), 1e-300), nhat))
        bad = []
        if not np.allclose(out[0], hit, atol=1e-9):
            bad.append('origin is not the hit point')
        if lenerr > nlen ** 2 * err ** 2 * 1.01 + 1e-9:
            bad.append('length^2 deviates from one by %.3g > |n|^2 error^2' % lenerr)
        if abs(n1 * sin1 - n2 * sin2) > max(2 * err * nlen * max(n1, n2), 1e-6) + 1e-9:
            bad.append("Snell: n1 sin t1 = %.6g, n2 sin t2 = %.6g" % (n1 * sin1, n2 * sin2))
        if abs(np.dot(np.cross(d, n), o)) > 1e-9 * nlen:
            bad.append('not coplanar')
        if np.dot(o, n) * np.dot(d, n) <= 0:
            bad.append('does not continue to the far side')
        if n1 == n2 and not np.allclose(o, d, atol=1e-9):
            bad.append('equal indices change the direction')
        if bad:
            ctx.violation('torch refract: ' + '; '.join(bad), rec, {'api': 'torch', 'fn': 'refract', 'what': 'refraction_law'})

    # ---------------- the same normal ARRAY serves several calls (one mirror, many rays; reflecting twice off the same mirror): the caller's
    # arrays are its own, a call must neither change them nor depend on earlier calls
    for _ in range(ctx.n(6, 40)):
        nfix = unit(rng) * 10 ** rng.uniform(-0.5, 0.5)
        hitp = np.array([rng.uniform(-1, 1) for _ in range(3)])
        nrm_np = np.array([hitp, nfix], dtype=np.float64)
        nrm_t = torch.tensor(np.array([hitp, nfix]), dtype=torch.float64)
        keep = nrm_np.copy()
        ds = [unit(rng) for _ in range(3)]
        ctx.case(('same_normal', tuple(np.round(nfix, 6))), True)
        ctx.count('reflect/same_normal_array_reused')
        for api in ('numpy', 'torch'):
            ok = True
            for d in ds:
                exact = d - 2 * np.dot(d, nfix) / np.dot(nfix, nfix) * nfix
                if api == 'numpy':
                    r1 = np.array(np.asarray(NR.reflect(np.array([hitp, d]), nrm_np), dtype=np.float64).reshape(2, 3)[1])   # copy: the result may alias
                    r2 = np.array(np.asarray(NR.reflect(np.array([hitp, r1]), nrm_np), dtype=np.float64).reshape(2, 3)[1])
                else:
                    r1 = LR.reflect(torch.tensor(np.array([hitp, d]), dtype=torch.float64), nrm_t).numpy().reshape(2, 3)[1].astype(np.float64).copy()
                    r2 = LR.reflect(torch.tensor(np.array([hitp, r1]), dtype=torch.float64), nrm_t).numpy().reshape(2, 3)[1].astype(np.float64).copy()
                tol_ = 1e-9 if api == 'numpy' else 5e-4
                if not np.allclose(r1, exact, atol=tol_) or not np.allclose(r2, d, atol=10 * tol_):
                    ctx.violation('%s reflect with ONE normal array used for several calls: ray %s reflects to %s (mirror image %s), reflecting again gives %s '
                                  '(should restore the ray)' % (api, d.tolist(), r1.tolist(), exact.tolist(), r2.tolist()),
                                  {'d': d.tolist(), 'n': nfix.tolist(), 'api': api, 'reuse': True},
                                  {'api': api, 'fn': 'reflect', 'what': 'reused_normal'})
                    ok = False
                    break
            if ok and api == 'numpy' and not np.array_equal(nrm_np, keep):
                ctx.violation('numpy reflect changed the normal array it was given: %s -> %s' % (keep.tolist(), nrm_np.tolist()),
                              {'n': nfix.tolist(), 'api': 'numpy', 'reuse': True}, {'api': 'numpy', 'fn': 'reflect', 'what': 'reused_normal'})

    # ---------------- number types: rays and normals written with integers (axis directions, lattice points) or in another precision than the
    # other argument.  Every combination the functions accept must give the mirror image / Snell direction computed in real arithmetic.
    tdt = {'float32': torch.float32, 'float64': torch.float64, 'int32': torch.int32, 'int64': torch.int64}
    ndt = {'float32': np.float32, 'float64': np.float64, 'int32': np.int32, 'int64': np.int64}
    axis_dirs = [[0, 0, 1], [0, 1, 0], [-1, 0, 0], [0, 0, -1]]
    tilted = [[0.0, 0.7071067811865476, 0.7071067811865476], [0.6, 0.0, 0.8], [0.3, -0.4, 0.8660254037844386], [2.0, 1.0, 2.0], [0.0, 3.0, 4.0]]
    for dray in axis_dirs + [[0.6, 0.0, 0.8]]:
        for nvec in tilted + [[0, 0, 1], [1, 1, 1]]:
            d_, n_ = np.array(dray, dtype=np.float64), np.array(nvec, dtype=np.float64)
            if abs(np.dot(d_, n_)) < 1e-9:
                continue
            exact = d_ - 2 * np.dot(d_, n_) / np.dot(n_, n_) * n_
            ray_int = all(float(v).is_integer() for v in dray)
            nrm_int = all(float(v).is_integer() for v in nvec)
            for rdt in tdt:
                if rdt.startswith('int') and not ray_int:
                    continue
                for ndt_ in tdt:
                    if ndt_.startswith('int') and not nrm_int:
                        continue
                    if rdt == ndt_ and rdt.startswith('float'):
                        continue          # covered above
                    hitp = [2, -1, 3] if ndt_.startswith('int') else [2.5, -1.25, 3.75]
                    org = [1, 0, -2] if rdt.startswith('int') else [1.5, 0.25, -2.0]
                    rec = {'d': dray, 'n': nvec, 'ray_dtype': rdt, 'normal_dtype': ndt_, 'kind': 'dtype_combination'}
                    ctx.case(('dtypes', tuple(dray), tuple(nvec), rdt, ndt_), True)
                    ctx.count('dtype_combination/%s ray, %s normal' % (rdt[:3], ndt_[:3]))
                    for api in ('torch', 'numpy'):
                        try:
                            if api == 'torch':
                                out = LR.reflect(torch.tensor([org, dray], dtype=tdt[rdt]), torch.tensor([hitp, nvec], dtype=tdt[ndt_]))
                                out = out.detach().double().numpy().reshape(2, 3)
                            else:
                                out = np.asarray(NR.reflect(np.array([org, dray], dtype=ndt[rdt]), np.array([hitp, nvec], dtype=ndt[ndt_])), dtype=np.float64).reshape(2, 3)
                        except Exception:
                            ctx.count('dtype_combination/rejected by %s' % api)
                            continue
                        if not np.allclose(out[1], exact, atol=5e-4) or not np.allclose(out[0], np.array(hitp, dtype=np.float64), atol=1e-5):
                            ctx.violation('%s reflect with a %s ray %s and a %s normal %s at %s returns start %s, direction %s; the mirror image is %s from the hit point'
                                          % (api, rdt, dray, ndt_, nvec, hitp, out[0].tolist(), out[1].tolist(), exact.tolist()), dict(rec, api=api),
                                          {'api': api, 'fn': 'reflect', 'what': 'dtype_combination'})
    # refraction with mixed number types (torch): normal incidence on an axis and 30 degrees, air to glass
    for dray, nvec in (([0, 0, 1], [0.0, 0.0, 1.0]), ([0, 0, 1], [0.0, 0.5, 0.8660254037844386]), ([0.0, 0.5, 0.8660254037844386], [0, 0, 1]),
                       ([0, 0, 1], [0, 0, 2])):
        d_, n_ = np.array(dray, dtype=np.float64), np.array(nvec, dtype=np.float64)
        nu = n_ / np.linalg.norm(n_)
        mu = 1.0 / 1.5
        cosi = float(np.dot(d_, nu))
        want = mu * d_ + (math.sqrt(1 - mu * mu * (1 - cosi * cosi)) - mu * cosi) * nu
        for rdt in tdt:
            if rdt.startswith('int') and not all(float(v).is_integer() for v in dray):
                continue
            for ndt_ in tdt:
                if ndt_.startswith('int') and not all(float(v).is_integer() for v in nvec):
                    continue
                if rdt == ndt_ == 'float64':
                    continue
                ctx.case(('dtypes_refract', tuple(dray), tuple(nvec), rdt, ndt_), True)
                ctx.count('dtype_combination/refract')
                try:
                    with time_limit(20.0):
                        hitp = [0, 0, 1] if ndt_.startswith('int') else [0.0, 0.0, 1.0]
                        org = [0, 0, 0] if rdt.startswith('int') else [0.0, 0.0, 0.0]
                        out = LR.refract(torch.tensor([org, dray], dtype=tdt[rdt]), torch.tensor([hitp, nvec], dtype=tdt[ndt_]), 1.0, 1.5)
                        out = out.detach().double().numpy().reshape(2, 3)
                except Exception:
                    ctx.count('dtype_combination/refract rejected')
                    continue
                if not np.all(np.isfinite(out[1])):
                    continue
                if rdt.startswith('int'):
                    # refract writes its result into a clone of the ray tensor: an integer-typed ray tensor truncates the refracted direction
                    # (unchanged tree: [0, 0, 1] int32 with a tilted normal comes back as [0, 0, 0]).  Integer direction cosines are not an
                    # input the property names; recorded as an observation, not judged
                    if not np.allclose(out[1], want, atol=2e-2):
                        ctx.count('dtype_combination/refract integer ray truncated (observation)')
                    continue
                if not np.allclose(out[1], want, atol=2e-2):
                    ctx.violation('torch refract (air to glass) with a %s ray %s and a %s normal %s returns %s; Snell direction is %s'
                                  % (rdt, dray, ndt_, nvec, out[1].tolist(), want.tolist()),
                                  {'d': dray, 'n': nvec, 'ray_dtype': rdt, 'normal_dtype': ndt_, 'kind': 'dtype_combination_refract'},
                                  {'api': 'torch', 'fn': 'refract', 'what': 'dtype_combination'})
    # ---------------- the same laws when the caller's program runs under a global setting of torch: CPU autocast (a mixed-precision training step that contains
    # the ray tracer), default dtype float64, grad mode off.  reflect / refract are element-wise arithmetic: float32 rays come back as on the default settings.
    from ..lib import settings as ST
    for sname in ("torch.autocast('cpu')", 'torch.set_default_dtype(torch.float64)', 'torch.set_grad_enabled(False)'):
        for bs in (1, 7, 41):
            for nlen_s in (1.0, 3.5, 0.2):
                ds = np.array([[rng.gauss(0, 1) for _ in range(3)] for _ in range(bs)])
                ds = ds / np.linalg.norm(ds, axis=1, keepdims=True)
                ns = np.array([[rng.gauss(0, 1) for _ in range(3)] for _ in range(bs)])
                ns = nlen_s * ns / np.linalg.norm(ns, axis=1, keepdims=True)
                ns[np.sum(ds * ns, axis=1) < 0] *= -1.0
                keep_rows = np.abs(np.sum(ds * ns, axis=1)) / nlen_s > 0.2
                ds, ns = ds[keep_rows], ns[keep_rows]
                if not len(ds):
                    continue
                rays_s = torch.tensor(np.stack([np.zeros_like(ds), ds], axis=1), dtype=torch.float32)
                nrms_s = torch.tensor(np.stack([np.ones_like(ns), ns], axis=1), dtype=torch.float32)
                exact = ds - 2 * np.sum(ds * ns, axis=1, keepdims=True) / np.sum(ns * ns, axis=1, keepdims=True) * ns
                ctx.case(('global_setting', sname, bs, nlen_s), True)
                ctx.count('global_setting/' + sname)
                rec = {'kind': 'global_setting', 'setting': sname, 'd': ds.tolist(), 'n': ns.tolist()}
                try:
                    with ST.SETTINGS[sname]():
                        out = LR.reflect(rays_s.clone(), nrms_s.clone()).detach().float().numpy().astype(np.float64).reshape(-1, 2, 3)
                        with time_limit(30.0):
                            outr = LR.refract(rays_s.clone(), nrms_s.clone(), 1.0, 1.5).detach().float().numpy().astype(np.float64).reshape(-1, 2, 3)
                except CallTimeout:
                    ctx.note('refract did not return within 30 s under %s (termination is decided by C12)' % sname)
                    continue
                except Exception:
                    ctx.count('global_setting/rejected under ' + sname)
                    continue
                err = float(np.max(np.abs(out[:, 1] - exact)))
                if err > 5e-4:
                    ctx.violation('torch reflect with %s in force: the reflected directions of %d float32 rays (normals of length %g) are off the mirror image by %.3g'
                                  % (sname, len(ds), nlen_s, err), rec, {'api': 'torch', 'fn': 'reflect', 'what': 'global_setting', 'setting': sname})
                    break
                mu_ = 1.0 / 1.5
                nu_ = ns / nlen_s
                cosi_ = np.sum(ds * nu_, axis=1, keepdims=True)
                wantr = mu_ * ds + (np.sqrt(1 - mu_ * mu_ * (1 - cosi_ * cosi_)) - mu_ * cosi_) * nu_
                errr = float(np.nanmax(np.abs(outr[:, 1] - wantr)))
                if errr > 3e-2:
                    ctx.violation('torch refract (air to glass) with %s in force: the refracted directions of %d float32 rays are off Snell\'s law by %.3g'
                                  % (sname, len(ds), errr), rec, {'api': 'torch', 'fn': 'refract', 'what': 'global_setting', 'setting': sname})
                    break
    # ---------------- mixed batches: one ray beyond the critical angle (flagged NaN) must not spoil the others of the same call.
    # Run under the watchdog (a non-returning call is C12's subject, not judged here).
    from ..lib.watchdog import Watchdog
    wd = Watchdog(20.0)
    for err_m in (0.01, 1e-4):
        for nlen_m in (1.0, 2.0):
            angs = [0.0, 8.0, 17.0, 25.0, 33.0, 39.0, 60.0]
            az = rng.uniform(0, 2 * math.pi)
            rays_m = [[[0.1, 0.2, 0.3], [math.sin(math.radians(a)) * math.cos(az), math.sin(math.radians(a)) * math.sin(az), math.cos(math.radians(a))]] for a in angs]
            nrms_m = [[[0.1, 0.2, 0.3], [0.0, 0.0, nlen_m]] for _ in angs]
            rec = {'kind': 'refract', 'rays': rays_m, 'normals': nrms_m, 'n1': 1.5, 'n2': 1.0, 'error': err_m, 'name': 'mixed_fan'}
            st, res = wd.run(rec)
            ctx.case(('mixed_fan', err_m, nlen_m), True)
            ctx.count('refract/mixed_batch_with_one_ray_beyond_the_critical_angle')
            if st != 'ok' or 'exception' in (res or {}):
                ctx.note('refract did not return / raised for a mixed batch (termination is decided by C12): %s' % (res,))
                continue
            outs = np.array(res['out'], dtype=np.float64)
            for i, a in enumerate(angs[:-1]):
                o = outs[i, 1]
                sin1 = math.sin(math.radians(a))
                sin2 = float(np.linalg.norm(np.cross(o / max(np.linalg.norm(o), 1e-300), [0, 0, 1.0]))) if np.all(np.isfinite(o)) else float('nan')
                lenerr = abs(float(np.dot(o, o)) - 1)
                if not np.all(np.isfinite(o)) or lenerr > nlen_m ** 2 * err_m ** 2 * 1.01 + 1e-9 or \
                        abs(1.5 * sin1 - 1.0 * sin2) > max(2 * err_m * nlen_m * 1.5, 1e-6) + 1e-9:
                    ctx.violation('torch refract, batch with one ray beyond the critical angle: the ray at %g degrees comes back as %s (|out|^2 - 1 = %.3g, '
                                  'n1 sin t1 = %.6g, n2 sin t2 = %.6g) for the requested tolerance %g' % (a, o.tolist(), lenerr, 1.5 * sin1, sin2, err_m),
                                  dict(rec, ray=i), {'api': 'torch', 'fn': 'refract', 'what': 'refraction_law', 'batch': 'mixed'})
                    break
    wd.close()

    # ---------------- batches: the batched call equals the single calls (both APIs)
    for bs in (2, 3, 4):
        ds = np.array([unit(rng) for _ in range(bs)])
        ns = np.array([unit(rng) * 10 ** rng.uniform(-1, 1) for _ in range(bs)])
        rays = np.stack([np.zeros((bs, 3)), ds], axis=1)
        nrms = np.stack([np.ones((bs, 3)), ns], axis=1)
        ctx.case(('batch', bs), True)
        try:
            rb = np.asarray(NR.reflect(rays.copy(), nrms.copy()), dtype=np.float64).reshape(bs, 2, 3)
            singles = np.array([np.asarray(NR.reflect(rays[i].copy(), nrms[i].copy())).reshape(2, 3) for i in range(bs)])
            if not np.allclose(rb, singles, atol=1e-12):
                ctx.violation('numpy reflect: batch of %d differs from ray-by-ray calls' % bs, {'batch': bs, 'd': ds.tolist(), 'n': ns.tolist()},
                              {'api': 'numpy', 'fn': 'reflect', 'what': 'batch'})
        except Exception as e:
            ctx.violation('numpy reflect raised %r for a batch of %d' % (e, bs), {'batch': bs, 'd': ds.tolist(), 'n': ns.tolist()},
                          {'api': 'numpy', 'fn': 'reflect', 'what': 'batch'})
        tb = LR.reflect(torch.tensor(rays), torch.tensor(nrms)).numpy().reshape(bs, 2, 3)
        ts = np.array([LR.reflect(torch.tensor(rays[i]), torch.tensor(nrms[i])).numpy().reshape(2, 3) for i in range(bs)])
        if not np.allclose(tb, ts, atol=1e-6):
            ctx.violation('torch reflect: batch differs from ray-by-ray calls', {'batch': bs}, {'api': 'torch', 'fn': 'reflect', 'what': 'batch'})
        try:
            with time_limit(60.0):
                rb = LR.refract(torch.tensor(rays), torch.tensor(nrms), 1.0, 1.5).numpy().reshape(bs, 2, 3)
                rs = np.array([LR.refract(torch.tensor(rays[i]), torch.tensor(nrms[i]), 1.0, 1.5).numpy().reshape(2, 3) for i in range(bs)])
        except CallTimeout:
            ctx.note('refract did not return within 60 s for a batch of ordinary rays (termination is decided by C12)')
            continue
        # the batch iterates until every ray has converged, so batch results are at least as accurate: compare within tolerance
        if not np.allclose(rb, rs, atol=2e-2):
            ctx.violation('torch refract: batch differs from ray-by-ray calls', {'batch': bs}, {'api': 'torch', 'fn': 'refract', 'what': 'batch'})


def replay(ctx, rep):
    import odak.learn.raytracing as LR
    r = rep['replay']
    d, n = np.array(r['d']), np.array(r['n'])
    api = r.get('api', 'torch')
    if api == 'numpy':
        import odak.raytracing as NR
        out = np.asarray(NR.reflect(np.array([[0, 0, 0], d]), np.array([[0, 0, 0], n]))).reshape(2, 3)[1]
    else:
        out = LR.reflect(torch.tensor([[0, 0, 0], d.tolist()], dtype=torch.float64), torch.tensor([[0, 0, 0], n.tolist()], dtype=torch.float64)).numpy().reshape(2, 3)[1]
    exact = d - 2 * np.dot(d, n) / np.dot(n, n) * n
    print('reflected', out.tolist(), 'mirror image', exact.tolist())
    return bool(np.allclose(out, exact, atol=5e-4))
