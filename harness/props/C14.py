"""C14 – generated rays and sample points lie where their description says.
Correspondence: create_ray_from_two_points / all_pairs (both APIs), the luminous-angle generators (uniform variates
replayed through torch's seeded RNG), grid / box / circular / spherical samplers vs the Lean model.
Monitors: unit length, reach, row-major order, deviation <= limit, membership in the described shape, exact counts."""
import logging
import math
import warnings
import numpy as np
import torch
from ..lib.core import f2b, b2f

logging.disable(logging.WARNING)
warnings.filterwarnings('ignore')

TRUSTED = ['torch.rand under torch.manual_seed is replayed to obtain the uniform variates the generators consume (U first, then phi)',
           'np.mgrid / torch.linspace / meshgrid lattices as modelled']
ASSUMPTIONS = ['torch ray generators are float32: tolerance 5e-4; lattice generators need no >= 2 per axis for grid_sample']


def fl(xs):
    return ' '.join(str(f2b(float(x))) for x in xs)


def vec(rng, s=3.0):
    return [rng.uniform(-s, s) for _ in range(3)]


def run(ctx):
    import odak.learn.raytracing as LR
    import odak.raytracing as NR
    import odak.tools as NT
    import odak.learn.tools as LT
    rng = ctx.rng
    ctx.rule = ('random point pairs (incl. coincident), all-pairs m x n, luminous cones with tilts/limits/seeds, lattice samplers with '
                'centres of distinct coordinates, tilts, sizes and counts; distinct by arguments')
    # ---------------- two points
    lines, cases = [], []
    for _ in range(ctx.n(60, 600)):
        p0, p1 = vec(rng, 5), vec(rng, 5)
        if rng.random() < 0.1:
            p1 = list(p0)
        cases.append((p0, p1))
        lines.append('ray2 %s %s' % (fl(p0), fl(p1)))
    outs = ctx.model.ask(lines) if ctx.drv_ok else [None] * len(cases)
    for (p0, p1), o in zip(cases, outs):
        rec = {'p0': p0, 'p1': p1}
        same = p0 == p1
        ctx.case(('two', tuple(p0), tuple(p1)), not same, rec)
        rn = np.asarray(NR.create_ray_from_two_points(np.array(p0), np.array(p1)), dtype=np.float64).reshape(2, 3)
        rt = LR.create_ray_from_two_points(torch.tensor(p0, dtype=torch.float64), torch.tensor(p1, dtype=torch.float64)).numpy().astype(np.float64).reshape(2, 3)
        dist = np.linalg.norm(np.array(p1) - np.array(p0))
        for api, r, tol in (('numpy', rn, 1e-9), ('torch', rt, 5e-4)):
            if same:
                if np.all(np.isfinite(r[1])):
                    ctx.violation('%s: coincident points give the finite direction %s (should be flagged NaN)' % (api, r[1].tolist()), rec,
                                  {'api': api, 'fn': 'create_ray_from_two_points', 'what': 'coincident'})
                continue
            if abs(np.linalg.norm(r[1]) - 1) > tol or not np.allclose(r[0], p0, atol=tol * 5) or \
                    np.linalg.norm(r[0] + dist * r[1] - np.array(p1)) > tol * (1 + dist) * 5:
                ctx.violation('%s create_ray_from_two_points: not unit / does not reach the end point' % api, rec,
                              {'api': api, 'fn': 'create_ray_from_two_points', 'what': 'unit_reach'})
            if o is not None:
                w = np.array([b2f(x) for x in o.split()])
                if not np.allclose(r[1], w, atol=tol):
                    ctx.alarm('correspondence', '%s two-point direction %s vs model %s' % (api, r[1].tolist(), w.tolist()))
    # ---------------- all pairs (row major)
    for _ in range(ctx.n(8, 60)):
        m, n = rng.randint(1, 5), rng.randint(1, 5)
        a = np.array([vec(rng) for _ in range(m)]); b = np.array([vec(rng) for _ in range(n)]) + 10.0
        rays = LR.create_ray_from_all_pairs(torch.tensor(a, dtype=torch.float64), torch.tensor(b, dtype=torch.float64)).numpy().astype(np.float64)
        ctx.case(('pairs', m, n, tuple(a[0])), True, {'m': m, 'n': n})
        ok = rays.shape == (m * n, 2, 3)
        idx_lines = ['allpairs %d %d' % (n, k) for k in range(m * n)]
        mo = ctx.model.ask(idx_lines) if ctx.drv_ok else None
        if ok:
            for i in range(m):
                for j in range(n):
                    k = i * n + j
                    d = (b[j] - a[i]) / np.linalg.norm(b[j] - a[i])
                    ok &= np.allclose(rays[k, 0], a[i], atol=1e-4) and np.allclose(rays[k, 1], d, atol=1e-4)
                    if mo is not None and [int(x) for x in mo[k].split()] != [i, j]:
                        ctx.alarm('correspondence', 'all-pairs index law differs from the model at %d' % k)
        if not ok:
            ctx.violation('create_ray_from_all_pairs is not one ray per (start, end) pair in row-major order (m=%d n=%d)' % (m, n),
                          {'m': m, 'n': n, 'starts': a.tolist(), 'ends': b.tolist()}, {'fn': 'create_ray_from_all_pairs', 'what': 'row_major'})
    # ---------------- luminous-angle cones
    for _ in range(ctx.n(25, 300)):
        tilt = [rng.uniform(-180, 180) for _ in range(3)] if rng.random() < 0.8 else [0.0, 0.0, 0.0]
        limit = rng.choice([0.0, 5.0, 30.0, 60.0, 90.0, 120.0, 179.0, rng.uniform(0, 180)])
        num = rng.choice([1, 7, 64])
        seed = rng.randrange(10 ** 6)
        origin = vec(rng)
        which = rng.randrange(2)
        rec = {'tilt': tilt, 'limit': limit, 'num': num, 'seed': seed, 'origin': origin, 'generator': ['point', 'grid'][which]}
        ctx.case(('cone', which, tuple(tilt), limit, num, seed), limit > 0, rec)
        ctx.count('cone/' + ['point', 'grid'][which])
        torch.manual_seed(seed)
        if which == 0:
            rays = LR.create_ray_from_point_w_luminous_angle(torch.tensor(origin), num, torch.tensor(tilt), limit)
            torch.manual_seed(seed)
            U = torch.rand(num); V = torch.rand(num)
            origins = np.tile(np.array(origin), (num, 1))
        else:
            no = [rng.randint(1, 3), rng.randint(1, 3)]
            size = [rng.uniform(0.5, 4), rng.uniform(0.5, 4)]
            rays = LR.create_ray_from_grid_w_luminous_angle(torch.tensor(origin), size, no, torch.tensor(tilt), num, limit)
            torch.manual_seed(seed)
            S = no[0] * no[1]
            U = torch.rand(num * S); V = torch.rand(num * S)
            rec.update(no=no, size=size)
            g, *_ = LT.grid_sample(no=no, size=size, center=origin, angles=tilt)
            origins = np.tile(g.numpy().astype(np.float64), (num, 1))
        rays = rays.numpy().astype(np.float64)
        U, V = U.numpy().astype(np.float64), V.numpy().astype(np.float64)
        t = np.radians(tilt)
        Rx = np.array([[1, 0, 0], [0, math.cos(t[0]), -math.sin(t[0])], [0, math.sin(t[0]), math.cos(t[0])]])
        Ry = np.array([[math.cos(t[1]), 0, math.sin(t[1])], [0, 1, 0], [-math.sin(t[1]), 0, math.cos(t[1])]])
        Rz = np.array([[math.cos(t[2]), -math.sin(t[2]), 0], [math.sin(t[2]), math.cos(t[2]), 0], [0, 0, 1]])
        axis = (Rz @ Ry @ Rx) @ np.array([0, 0, 1.0])
        cosdev = rays[:, 1] @ axis
        dev = np.degrees(np.arccos(np.clip(cosdev, -1, 1)))
        if rays.shape[0] != len(U) or not np.allclose(np.linalg.norm(rays[:, 1], axis=1), 1, atol=5e-4):
            ctx.violation('luminous-angle rays are not unit length / wrong count', rec, {'fn': 'luminous_angle', 'what': 'unit'})
        elif not np.allclose(rays[:, 0], origins, atol=5e-4 * 5):
            ctx.violation('luminous-angle rays do not start at the stated origins', rec, {'fn': 'luminous_angle', 'what': 'origin'})
        elif np.max(dev) > limit + 0.2:
            ctx.violation('luminous-angle ray deviates %.3f degrees from the tilted axis, limit %.3f' % (float(np.max(dev)), limit), rec,
                          {'fn': 'luminous_angle', 'what': 'within_limit'})
        if ctx.drv_ok:
            k = min(len(U), 8)
            mo = ctx.model.ask(['cone %d %s %d %d %d' % (which, fl(tilt), f2b(limit), f2b(U[i]), f2b(V[i])) for i in range(k)])
            for i in range(k):
                w = np.array([b2f(x) for x in mo[i].split()])
                if not np.allclose(rays[i, 1], w, atol=2e-3):
                    ctx.alarm('correspondence', 'cone direction %s vs model %s (%s)' % (rays[i, 1].tolist(), w.tolist(), rec))
                    break
    # ---------------- lattice samplers
    for _ in range(ctx.n(12, 120)):
        center = [rng.uniform(-5, 5), rng.uniform(6, 9), rng.uniform(-20, -10)]      # distinct x, y, z
        angles = [rng.uniform(-180, 180) for _ in range(3)] if rng.random() < 0.7 else [0.0, 0.0, 0.0]
        zero = int(all(a == 0 for a in angles))
        R = None
        # grid
        no = [rng.randint(2, 5), rng.randint(2, 5)]
        size = [rng.uniform(0.5, 20), rng.uniform(0.5, 20)]
        g = NT.grid_sample(no=no, size=size, center=center, angles=angles)
        gt, *_ = LT.grid_sample(no=no, size=size, center=center, angles=angles)
        rec = {'sampler': 'grid', 'no': no, 'size': size, 'center': center, 'angles': angles}
        ctx.case(('grid', tuple(no), tuple(center)), True, rec)
        back = NT.rotate_points(np.array(g) - np.array(center), angles=[-angles[0], -angles[1], -angles[2]], mode='ZYX')
        if g.shape != (no[0] * no[1], 3) or np.max(np.abs(back[:, 0])) > size[0] / 2 + 1e-6 or np.max(np.abs(back[:, 1])) > size[1] / 2 + 1e-6 \
                or np.max(np.abs(back[:, 2])) > 1e-6:
            ctx.violation('grid_sample points are not %d points on the tilted %gx%g rectangle about the centre' % (no[0] * no[1], size[0], size[1]),
                          rec, {'fn': 'grid_sample', 'api': 'numpy', 'what': 'membership'})
        if not np.allclose(gt.numpy(), g, atol=5e-3):
            ctx.violation('NumPy and torch grid_sample differ', rec, {'fn': 'grid_sample', 'what': 'np_vs_torch'})
        if ctx.drv_ok:
            mo = ctx.model.ask(['grid_pt %d %d %d %d %d %d %s %s %d' % (no[0], no[1], f2b(size[0]), f2b(size[1]), i, j, fl(angles), fl(center), zero)
                                for i in range(no[0]) for j in range(no[1])])
            w = np.array([[b2f(x) for x in l.split()] for l in mo])
            if not np.allclose(g, w, atol=1e-8):
                ctx.alarm('correspondence', 'grid_sample differs from the model (%s)' % rec)
        # box
        no3 = [rng.randint(1, 3), rng.randint(1, 3), rng.randint(1, 3)]
        size3 = [rng.uniform(0.5, 10) for _ in range(3)]
        b = NT.box_volume_sample(no=no3, size=size3, center=center, angles=angles)
        rec = {'sampler': 'box', 'no': no3, 'size': size3, 'center': center, 'angles': angles}
        ctx.case(('box', tuple(no3), tuple(center)), True, rec)
        back = NT.rotate_points(np.array(b) - np.array(center), angles=[-angles[0], -angles[1], -angles[2]], mode='ZYX')
        if b.shape != (no3[0] * no3[1] * no3[2], 3) or any(np.max(np.abs(back[:, k])) > size3[k] / 2 + 1e-6 for k in range(3)):
            ctx.violation('box_volume_sample points are not inside the tilted box about the centre', rec,
                          {'fn': 'box_volume_sample', 'what': 'membership'})
        if ctx.drv_ok:
            mo = ctx.model.ask(['box_pt %d %d %d %s %d %d %d %s %s %d' % (no3[0], no3[1], no3[2], fl(size3), i, j, k, fl(angles), fl(center), zero)
                                for i in range(no3[0]) for j in range(no3[1]) for k in range(no3[2])])
            w = np.array([[b2f(x) for x in l.split()] for l in mo])
            if not np.allclose(b, w, atol=1e-8):
                ctx.alarm('correspondence', 'box_volume_sample differs from the model (%s)' % rec)
        # circular
        noc = [rng.randint(1, 6), rng.randint(1, 6)]
        radius = rng.uniform(0.5, 10)
        c = NT.circular_sample(no=noc, radius=radius, center=center, angles=angles)
        rec = {'sampler': 'circular', 'no': noc, 'radius': radius, 'center': center, 'angles': angles}
        ctx.case(('circular', tuple(noc), tuple(center)), True, rec)
        back = NT.rotate_points(np.array(c) - np.array(center), angles=[-angles[0], -angles[1], -angles[2]], mode='ZYX')
        if c.shape != (noc[0] * noc[1], 3) or np.max(np.linalg.norm(back[:, :2], axis=1)) > radius + 1e-6 or np.max(np.abs(back[:, 2])) > 1e-6:
            ctx.violation('circular_sample points are not %d points in the tilted disc of radius %g' % (noc[0] * noc[1], radius), rec,
                          {'fn': 'circular_sample', 'what': 'membership'})
        if ctx.drv_ok:
            mo = ctx.model.ask(['circ_pt %d %d %d %d %d %s %s %d' % (noc[0], noc[1], f2b(radius), a, r, fl(angles), fl(center), zero)
                                for a in range(1, noc[0] + 1) for r in range(1, noc[1] + 1)])
            w = np.array([[b2f(x) for x in l.split()] for l in mo])
            if not np.allclose(c, w, atol=1e-8):
                ctx.alarm('correspondence', 'circular_sample differs from the model (%s)' % rec)
        # spheres
        nos = [rng.randint(1, 6), rng.randint(1, 6)]
        for fn in ('sphere_sample', 'sphere_sample_uniform'):
            if fn == 'sphere_sample_uniform':
                nos = [nos[0], nos[0]]
            s = getattr(NT, fn)(no=nos, radius=radius, center=center)
            rec = {'sampler': fn, 'no': nos, 'radius': radius, 'center': center}
            ctx.case((fn, tuple(nos), tuple(center)), True, rec)
            if s.shape != (nos[0] * nos[1], 3) or not np.allclose(np.linalg.norm(s - np.array(center), axis=1), radius, atol=1e-8):
                ctx.violation('%s points do not lie on the sphere of radius %g about %s' % (fn, radius, center), rec,
                              {'fn': fn, 'what': 'membership'})
            if fn == 'sphere_sample' and ctx.drv_ok:
                mo = ctx.model.ask(['sphere_pt %d %d %d %s %d %d %d %d' % (nos[0], nos[1], f2b(radius), fl(center), f2b(1.0), f2b(2.0), i, j)
                                    for i in range(nos[0]) for j in range(nos[1])])
                w = np.array([[b2f(x) for x in l.split()] for l in mo])
                if not np.allclose(s, w, atol=1e-8):
                    ctx.alarm('correspondence', 'sphere_sample differs from the model (%s)' % rec)
    from .gensamplers import check_generated_samplers
    check_generated_samplers(ctx)          # the definitions regenerated from the source (Generated/Samplers.lean) vs the real functions


def replay(ctx, rep):
    import odak.learn.raytracing as LR
    r = rep['replay']
    if 'limit' in r:
        torch.manual_seed(r['seed'])
        rays = LR.create_ray_from_point_w_luminous_angle(torch.tensor(r['origin']), r['num'], torch.tensor(r['tilt']), r['limit']).numpy()
        t = np.radians(r['tilt'])
        Rx = np.array([[1, 0, 0], [0, math.cos(t[0]), -math.sin(t[0])], [0, math.sin(t[0]), math.cos(t[0])]])
        Ry = np.array([[math.cos(t[1]), 0, math.sin(t[1])], [0, 1, 0], [-math.sin(t[1]), 0, math.cos(t[1])]])
        Rz = np.array([[math.cos(t[2]), -math.sin(t[2]), 0], [math.sin(t[2]), math.cos(t[2]), 0], [0, 0, 1]])
        dev = np.degrees(np.arccos(np.clip(rays[:, 1] @ ((Rz @ Ry @ Rx) @ np.array([0, 0, 1.0])), -1, 1)))
        print('max deviation', float(dev.max()), 'limit', r['limit'])
        return float(dev.max()) <= r['limit'] + 0.2
    return True
