"""C14 – generated rays and sample points lie where their description says.
Correspondence: create_ray_from_two_points / all_pairs (both APIs), the luminous-angle generators (uniform variates
replayed through torch's seeded RNG), grid / box / circular / spherical samplers vs the Lean model.
Monitors: unit length, reach, row-major order, deviation <= limit, membership in the described shape, exact counts."""
import logging
import math
import warnings
import numpy as np
import torch
from ..lib.core import f2b, b2f

logging.disable(logging.WARNING)
warnings.filterwarnings('ignore')

TRUSTED = ['torch.rand under torch.manual_seed is replayed to obtain the uniform variates the generators consume (U first, then phi)',
           'np.mgrid / torch.linspace / meshgrid lattices as modelled']
ASSUMPTIONS = ['torch ray generators are float32: tolerance 5e-4; lattice generators need no >= 2 per axis for grid_sample']


def fl(xs):
    return ' '.join(str(f2b(float(x))) for x in xs)


def vec(rng, s=3.0):
    return [rng.uniform(-s, s) for _ in range(3)]


def run(ctx):
    import odak.learn.raytracing as LR
    import odak.raytracing as NR
    import odak.tools as NT
    import odak.learn.tools as LT
    rng = ctx.rng
    ctx.rule = ('random point pairs (incl. coincident), all-pairs m x n, luminous cones with tilts/limits/seeds, lattice samplers with '
                'centres of distinct coordinates, tilts, sizes and counts; distinct by arguments')
    # ---------------- two points
    lines, cases = [], []
    for _ in range(ctx.n(60, 600)):
        p0, p1 = vec(rng, 5), vec(rng, 5)
        if rng.random() < 0.1:
            p1 = list(p0)
        cases.append((p0, p1))
        lines.append('ray2 %s %s' % (fl(p0), fl(p1)))
    outs = ctx.model.ask(lines) if ctx.drv_ok else [None] * len(cases)
    for (p0, p1), o in zip(cases, outs):
        rec = {'p0': p0, 'p1': p1}
        same = p0 == p1
        ctx.case(('two', tuple(p0), tuple(p1)), not same, rec)
        rn = np.asarray(NR.create_ray_from_two_points(np.array(p0), np.array(p1)), dtype=np.float64).reshape(2, 3)
        rt = LR.create_ray_from_two_points(torch.tensor(p0, dtype=torch.float64), torch.tensor(p1, dtype=torch.float64)).numpy().astype(np.float64).reshape(2, 3)
        dist = np.linalg.norm(np.array(p1) - np.array(p0))
        for api, r, tol in (('numpy', rn, 1e-9), ('torch', rt, 5e-4)):
            if same:
                if np.all(np.isfinite(r[1])):
                    ctx.violation('%s: coincident points give the finite direction %s (should be flagged NaN)' % (api, r[1].tolist()), rec,
                                  {'api': api, 'fn': 'create_ray_from_two_points', 'what': 'coincident'})
                continue
            if abs(np.linalg.norm(r[1]) - 1) > tol or not np.allclose(r[0], p0, atol=tol * 5) or \
                    np.linalg.norm(r[0] + dist * r[1] - np.array(p1)) > tol * (1 + dist) * 5:
                ctx.violation('%s create_ray_from_two_points: not unit / does not reach the end point' % api, rec,
                              {'api': api, 'fn': 'create_ray_from_two_points', 'what': 'unit_reach'})
            if o is not None:
                w = np.array([b2f(x) for x in o.split()])
                if not np.allclose(r[1], w, atol=tol):
                    ctx.alarm('correspondence', '%s two-point direction %s vs model %s' % (api, r[1].tolist(), w.tolist()))
    # ---------------- all pairs (row major)
    for _ in range(ctx.n(8, 60)):
        m, n = rng.randint(1, 5), rng.randint(1, 5)
        a = np.array([vec(rng) for _ in range(m)]); b = np.array([vec(rng) for _ in range(n)]) + 10.0
        rays = LR.create_ray_from_all_pairs(torch.tensor(a, dtype=torch.float64), torch.tensor(b, dtype=torch.float64)).numpy().astype(np.float64)
        ctx.case(('pairs', m, n, tuple(a[0])), True, {'m': m, 'n': n})
        ok = rays.shape == (m * n, 2, 3)
        idx_lines = ['allpairs %d %d' % (n, k) for k in range(m * n)]
        mo = ctx.model.ask(idx_lines) if ctx.drv_ok else None
        if ok:
            for i in range(m):
                for j in range(n):
                    k = i * n + j
                    d = (b[j] - a[i]) / np.linalg.norm(b[j] - a[i])
                    ok &= np.allclose(rays[k, 0], a[i], atol=1e-4) and np.allclose(rays[k, 1], d, atol=1e-4)
                    if mo is not None and [int(x) for x in mo[k].split()] != [i, j]:
                        ctx.alarm('correspondence', 'all-pairs index law differs from the model at %d' % k)
        if not ok:
            ctx.violation('create_ray_from_all_pairs is not one ray per (start, end) pair in row-major order (m=%d n=%d)' % (m, n),
                          {'m': m, 'n': n, 'starts': a.tolist(), 'ends': b.tolist()}, {'fn': 'create_ray_from_all_pairs', 'what': 'row_major'})
    # ---------------- luminous-angle cones
    for _ in range(ctx.n(25, 300)):
        tilt = [rng.uniform(-180, 180) for _ in range(3)] if rng.random() < 0.8 else [0.0, 0.0, 0.0]
        limit = rng.choice([0.0, 5.0, 30.0, 60.0, 90.0, 120.0, 179.0, rng.uniform(0, 180)])
        num = rng.choice([1, 7, 64])
        seed = rng.randrange(10 ** 6)
        origin = vec(rng)
        which = rng.randrange(2)
        rec = {'tilt': tilt, 'limit': limit, 'num': num, 'seed': seed, 'origin': origin, 'generator': ['point', 'grid'][which]}
        ctx.case(('cone', which, tuple(tilt), limit, num, seed), limit > 0, rec)
        ctx.count('cone/' + ['point', 'grid'][which])
        torch.manual_seed(seed)
        if which == 0:
            rays = LR.create_ray_from_point_w_luminous_angle(torch.tensor(origin), num, torch.tensor(tilt), limit)
            torch.manual_seed(seed)
            U = torch.rand(num); V = torch.rand(num)
            origins = np.tile(np.array(origin), (num, 1))
        else:
            no = [rng.randint(1, 3), rng.randint(1, 3)]
            size = [rng.uniform(0.5, 4), rng.uniform(0.5, 4)]
            rays = LR.create_ray_from_grid_w_luminous_angle(torch.tensor(origin), size, no, torch.tensor(tilt), num, limit)
            torch.manual_seed(seed)
            S = no[0] * no[1]
            U = torch.rand(num * S); V = torch.rand(num * S)
            rec.update(no=no, size=size)
            g, *_ = LT.grid_sample(no=no, size=size, center=origin, angles=tilt)
            origins = np.tile(g.numpy().astype(np.float64), (num, 1))
        rays = rays.numpy().astype(np.float64)
        U, V = U.numpy().astype(np.float64), V.numpy().astype(np.float64)
        t = np.radians(tilt)
        Rx = np.array([[1, 0, 0], [0, math.cos(t[0]), -math.sin(t[0])], [0, math.sin(t[0]), math.cos(t[0])]])
        Ry = np.array([[math.cos(t[1]), 0, math.sin(t[1])], [0, 1, 0], [-math.sin(t[1]), 0, math.cos(t[1])]])
        Rz = np.array([[math.cos(t[2]), -math.sin(t[2]), 0], [math.sin(t[2]), math.cos(t[2]), 0], [0, 0, 1]])
        axis = (Rz @ Ry @ Rx) @ np.array([0, 0, 1.0])
        cosdev = rays[:, 1] @ axis
        dev = np.degrees(np.arccos(np.clip(cosdev, -1, 1)))
        if rays.shape[0] != len(U) or not np.allclose(np.linalg.norm(rays[:, 1], axis=1), 1, atol=5e-4):
            ctx.violation('luminous-angle rays are not unit length / wrong count', rec, {'fn': 'luminous_angle', 'what': 'unit'})
        elif not np.allclose(rays[:, 0], origins, atol=5e-4 * 5):
            ctx.violation('luminous-angle rays do not start at the stated origins', rec, {'fn': 'luminous_angle', 'what': 'origin'})
        elif np.max(dev) > limit + 0.2:
            ctx.violation('luminous-angle ray deviates %.3f degrees from the tilted axis, limit %.3f' % (float(np.max(dev)), limit), rec,
                          {'fn': 'luminous_angle', 'what': 'within_limit'})
        if ctx.drv_ok:
            k = min(len(U), 8)
            mo = ctx.model.ask(['cone %d %s %d %d %d' % (which, fl(tilt), f2b(limit), f2b(U[i]), f2b(V[i])) for i in range(k)])
            for i in range(k):
                w = np.array([b2f(x) for x in mo[i].split()])
                if not np.allclose(rays[i, 1], w, atol=2e-3):
                    ctx.alarm('correspondence', 'cone direction %s vs model %s (%s)' % (rays[i, 1].tolist(), w.tolist(), rec))
                    break
    # ---------------- lattice samplers
    for _ in range(ctx.n(12, 120)):
        center = [rng.uniform(-5, 5), rng.uniform(6, 9), rng.uniform(-20, -10)]      # distinct x, y, z
        angles = [rng.uniform(-180, 180) for _ in range(3)] if rng.random() < 0.7 else [0.0, 0.0, 0.0]
        zero = int(all(a == 0 for a in angles))
        R = None
        # grid
        no = [rng.randint(2, 5), rng.randint(2, 5)]
        size = [rng.uniform(0.5, 20), rng.uniform(0.5, 20)]
        g = NT.grid_sample(no=no, size=size, center=center, angles=angles)
        gt, *_ = LT.grid_sample(no=no, size=size, center=center, angles=angles)
        rec = {'sampler': 'grid', 'no': no, 'size': size, 'center': center, 'angles': angles}
        ctx.case(('grid', tuple(no), tuple(center)), True, rec)
        back = NT.rotate_points(np.array(g) - np.array(center), angles=[-angles[0], -angles[1], -angles[2]], mode='ZYX')
        if g.shape != (no[0] * no[1], 3) or np.max(np.abs(back[:, 0])) > size[0] / 2 + 1e-6 or np.max(np.abs(back[:, 1])) > size[1] / 2 + 1e-6 \
                or np.max(np.abs(back[:, 2])) > 1e-6:
            ctx.violation('grid_sample points are not %d points on the tilted %gx%g rectangle about the centre' % (no[0] * no[1], size[0], size[1]),
                          rec, {'fn': 'grid_sample', 'api': 'numpy', 'what': 'membership'})
        if not np.allclose(gt.numpy(), g, atol=5e-3):
            ctx.violation('NumPy and torch grid_sample differ', rec, {'fn': 'grid_sample', 'what': 'np_vs_torch'})
        if ctx.drv_ok:
            mo = ctx.model.ask(['grid_pt %d %d %d %d %d %d %s %s %d' % (no[0], no[1], f2b(size[0]), f2b(size[1]), i, j, fl(angles), fl(center), zero)
                                for i in range(no[0]) for j in range(no[1])])
            w = np.array([[b2f(x) for x in l.split()] for l in mo])
            if not np.allclose(g, w, atol=1e-8):
                ctx.alarm('correspondence', 'grid_sample differs from the model (%s)' % rec)
        # box
        no3 = [rng.randint(1, 3), rng.randint(1, 3), rng.randint(1, 3)]
        size3 = [rng.uniform(0.5, 10) for _ in range(3)]
        b = NT.box_volume_sample(no=no3, size=size3, center=center, angles=angles)
        rec = {'sampler': 'box', 'no': no3, 'size': size3, 'center': center, 'angles': angles}
        ctx.case(('box', tuple(no3), tuple(center)), True, rec)
        back = NT.rotate_points(np.array(b) - np.array(center), angles=[-angles[0], -angles[1], -angles[2]], mode='ZYX')
        if b.shape != (no3[0] * no3[1] * no3[2], 3) or any(np.max(np.abs(back[:, k])) > size3[k] / 2 + 1e-6 for k in range(3)):
            ctx.violation('box_volume_sample points are not inside the tilted box about the centre', rec,
                          {'fn': 'box_volume_sample', 'what': 'membership'})
        if ctx.drv_ok:
            mo = ctx.model.ask(['box_pt %d %d %d %s %d %d %d %s %s %d' % (no3[0], no3[1], no3[2], fl(size3), i, j, k, fl(angles), fl(center), zero)
                                for i in range(no3[0]) for j in range(no3[1]) for k in range(no3[2])])
            w = np.array([[b2f(x) for x in l.split()] for l in mo])
            if not np.allclose(b, w, atol=1e-8):
                ctx.alarm('correspondence', 'box_volume_sample differs from the model (%s)' % rec)
        # circular
        noc = [rng.randint(1, 6), rng.randint(1, 6)]
        radius = rng.uniform(0.5, 10)
        c = NT.circular_sample(no=noc, radius=radius, center=center, angles=angles)
        rec = {'sampler': 'circular', 'no': noc, 'radius': radius, 'center': center, 'angles': angles}
        ctx.case(('circular', tuple(noc), tuple(center)), True, rec)
        back = NT.rotate_points(np.array(c) - np.array(center), angles=[-angles[0], -angles[1], -angles[2]], mode='ZYX')
        if c.shape != (noc[0] * noc[1], 3) or np.max(np.linalg.norm(back[:, :2], axis=1)) > radius + 1e-6 or np.max(np.abs(back[:, 2])) > 1e-6:
            ctx.violation('circular_sample points are not %d points in the tilted disc of radius %g' % (noc[0] * noc[1], radius), rec,
                          {'fn': 'circular_sample', 'what': 'membership'})
        if ctx.drv_ok:
            mo = ctx.model.ask(['circ_pt %d %d %d %d %d %s %s %d' % (noc[0], noc[1], f2b(radius), a, r, fl(angles), fl(center), zero)
                                for a in range(1, noc[0] + 1) for r in range(1, noc[1] + 1)])
            w = np.array([[b2f(x) for x in l.split()] for l in mo])
            if not np.allclose(c, w, atol=1e-8):
                ctx.alarm('correspondence', 'circular_sample differs from the model (%s)' % rec)
        # spheres
        nos = [rng.randint(1, 6), rng.randint(1, 6)]
        for fn in ('sphere_sample', 'sphere_sample_uniform'):
            if fn == 'sphere_sample_uniform':
                nos = [nos[0], nos[0]]
            s = getattr(NT, fn)(no=nos, radius=radius, center=center)
            rec = {'sampler': fn, 'no': nos, 'radius': radius, 'center': center}
            ctx.case((fn, tuple(nos), tuple(center)), True, rec)
            if s.shape != (nos[0] * nos[1], 3) or not np.allclose(np.linalg.norm(s - np.array(center), axis=1), radius, atol=1e-8):
                ctx.violation('%s points do not lie on the sphere of radius %g about %s' % (fn, radius, center), rec,
                              {'fn': fn, 'what': 'membership'})
            if fn == 'sphere_sample' and ctx.drv_ok:
                mo = ctx.model.ask(['sphere_pt %d %d %d %s %d %d %d %d' % (nos[0], nos[1], f2b(radius), fl(center), f2b(1.0), f2b(2.0), i, j)
                                    for i in range(nos[0]) for j in range(nos[1])])
                w = np.array([[b2f(x) for x in l.split()] for l in mo])
                if not np.allclose(s, w, atol=1e-8):
                    ctx.alarm('correspondence', 'sphere_sample differs from the model (%s)' % rec)
    # ---------------- a session of lattice samplers with related counts (a sampler with counts [a, b] after another one with [a +- 1, b +- 1] and
    # with the same counts): each result is exactly its documented lattice, whatever ran before.  Untilted, centre 0: the oracle is closed form.
    seq = []
    for a in range(2, 5):
        for b in range(2, 5):
            for da, db in ((0, 0), (1, 1), (-1, -1), (1, 0)):
                seq.append(('circular', [a, b]))
                seq.append(('grid', [max(2, a + da), max(2, b + db)]))
                seq.append(('box', [max(1, a + da - 1), max(1, b + db - 1), 2]))
                seq.append(('grid', [a, b]))
                seq.append(('circular', [max(1, a + da), max(1, b + db)]))
    for kind, no in seq:
        ctx.count('session/' + kind)
        ctx.case(('session', kind, tuple(no), len(ctx.counts) if hasattr(ctx, 'counts') else 0), True)
        rec = {'sampler': kind, 'no': no, 'session': True}
        if kind == 'grid':
            size = [3.0, 5.0]
            gs = np.asarray(NT.grid_sample(no=no, size=size, center=[0., 0., 0.], angles=[0., 0., 0.]), dtype=np.float64)
            want = np.array([[i * size[0] / (no[0] - 1) - size[0] / 2, j * size[1] / (no[1] - 1) - size[1] / 2, 0.0] for i in range(no[0]) for j in range(no[1])])
            gt, *_ = LT.grid_sample(no=no, size=size, center=[0., 0., 0.], angles=[0., 0., 0.])
            if gs.shape != want.shape or not np.allclose(gs, want, atol=1e-9):
                ctx.violation('grid_sample(no=%s, size=%s) in the middle of a session of sampler calls is not the regular %dx%d lattice over the '
                              'rectangle: first points %s, expected %s' % (no, size, no[0], no[1], np.round(gs[:3], 6).tolist(), np.round(want[:3], 6).tolist()),
                              rec, {'fn': 'grid_sample', 'api': 'numpy', 'what': 'session'})
                break
            if tuple(gt.shape) != want.shape or not np.allclose(gt.numpy(), want, atol=1e-5):
                ctx.violation('torch grid_sample(no=%s) in the middle of a session is not the regular lattice' % (no,), rec,
                              {'fn': 'grid_sample', 'api': 'torch', 'what': 'session'})
                break
        elif kind == 'circular':
            rad = 2.5
            cs_ = np.asarray(NT.circular_sample(no=no, radius=rad, center=[0., 0., 0.], angles=[0., 0., 0.]), dtype=np.float64)
            want = np.array([[(r / no[1]) * rad * math.cos(a / no[0] * 2 * math.pi), (r / no[1]) * rad * math.sin(a / no[0] * 2 * math.pi), 0.0]
                             for a in range(1, no[0] + 1) for r in range(1, no[1] + 1)])
            if cs_.shape != want.shape or not np.allclose(cs_, want, atol=1e-9):
                ctx.violation('circular_sample(no=%s, radius=%g) in the middle of a session of sampler calls is not its polar lattice: first points %s, '
                              'expected %s' % (no, rad, np.round(cs_[:3], 6).tolist(), np.round(want[:3], 6).tolist()), rec,
                              {'fn': 'circular_sample', 'what': 'session'})
                break
        else:
            size3 = [2.0, 3.0, 4.0]
            bs_ = np.asarray(NT.box_volume_sample(no=no, size=size3, center=[0., 0., 0.], angles=[0., 0., 0.]), dtype=np.float64)
            if bs_.shape != (no[0] * no[1] * no[2], 3) or len({tuple(np.round(p_, 9)) for p_ in bs_}) != no[0] * no[1] * no[2] or \
                    any(np.max(np.abs(bs_[:, k])) > size3[k] / 2 + 1e-9 for k in range(3)):
                ctx.violation('box_volume_sample(no=%s) in the middle of a session is not %d distinct points inside the box' % (no, no[0] * no[1] * no[2]),
                              rec, {'fn': 'box_volume_sample', 'what': 'session'})
                break
    # ---------------- ray bundles between two small point sets that lie FAR from the origin of the coordinate system compared with their separation (an
    # aperture of 10 mm and a detector 5 mm behind it, 1 m from the origin), also with more than 25 / 32 points per set: the cosines are unit length and the
    # ray reaches its end point, to the accuracy the float32 coordinates allow (about (distance / separation) * eps)
    for (m_, n_, ratio) in ((4, 5, 100.0), (36, 64, 200.0), (30, 3, 1000.0), (3, 40, 50.0)):
        sep = 5.0
        base = np.array([rng.gauss(0, 1) for _ in range(3)])
        base = ratio * sep * base / np.linalg.norm(base)
        starts = base + np.array([[rng.uniform(-5, 5), rng.uniform(-5, 5), 0.0] for _ in range(m_)])
        ends = base + np.array([[rng.uniform(-5, 5), rng.uniform(-5, 5), sep] for _ in range(n_)])
        ts, te = torch.tensor(starts, dtype=torch.float32), torch.tensor(ends, dtype=torch.float32)
        rec = {'kind': 'far_from_origin', 'starts': m_, 'ends': n_, 'distance_over_separation': ratio}
        ctx.case(('far_from_origin', m_, n_, ratio), True)
        ctx.count('far_from_origin/%dx%d pairs' % (m_, n_))
        rays = LR.create_ray_from_all_pairs(ts, te).double().numpy().reshape(-1, 2, 3)
        s64, e64 = ts.double().numpy(), te.double().numpy()
        want_d = (e64[None, :, :] - s64[:, None, :]).reshape(-1, 3)
        dist = np.linalg.norm(want_d, axis=1, keepdims=True)
        want_d = want_d / dist
        tol_u = 60 * ratio * 6e-8 + 1e-6
        unit_err = float(np.max(np.abs(np.linalg.norm(rays[:, 1], axis=1) - 1)))
        dir_err = float(np.max(np.abs(rays[:, 1] - want_d)))
        if rays.shape[0] != m_ * n_ or unit_err > tol_u or dir_err > tol_u:
            ctx.violation('torch create_ray_from_all_pairs (%d x %d points, %g separations away from the origin): direction cosines off unit length by %.3g, off the '
                          'true directions by %.3g (the float32 coordinates allow about %.3g)' % (m_, n_, ratio, unit_err, dir_err, tol_u), rec,
                          {'api': 'torch', 'fn': 'create_ray_from_all_pairs', 'what': 'far_from_origin'})
        k_ = min(m_, n_)
        r2 = LR.create_ray_from_two_points(ts[:k_], te[:k_]).double().numpy().reshape(-1, 2, 3)
        w2 = (e64[:k_] - s64[:k_]) / np.linalg.norm(e64[:k_] - s64[:k_], axis=1, keepdims=True)
        if float(np.max(np.abs(r2[:, 1] - w2))) > tol_u:
            ctx.violation('torch create_ray_from_two_points (%d pairs, %g separations away from the origin): direction cosines off by %.3g (allowed %.3g)'
                          % (k_, ratio, float(np.max(np.abs(r2[:, 1] - w2))), tol_u), rec, {'api': 'torch', 'fn': 'create_ray_from_two_points', 'what': 'far_from_origin'})
        rn = np.asarray(NR.create_ray_from_two_points(starts[:k_], ends[:k_]), dtype=np.float64).reshape(-1, 2, 3)
        wn = (ends[:k_] - starts[:k_]) / np.linalg.norm(ends[:k_] - starts[:k_], axis=1, keepdims=True)
        if float(np.max(np.abs(rn[:, 1] - wn))) > 1e-9:
            ctx.violation('numpy create_ray_from_two_points (%d pairs, %g separations away from the origin): direction cosines off by %.3g'
                          % (k_, ratio, float(np.max(np.abs(rn[:, 1] - wn)))), rec, {'api': 'numpy', 'fn': 'create_ray_from_two_points', 'what': 'far_from_origin'})
    # ---------------- all pairs between two planes of ordinary resolution (65 x 65 samples each: 17.8 million rays, beyond 2^24, where float32 can no longer
    # count): ray k still starts at point k // n and points at point k % n.  Checked on sampled rows (first, last, around 2^24 and random ones) to keep memory low.
    import gc
    for (m_, n_) in ((4099, 4225),) if ctx.quick else ((4099, 4225), (4225, 4225), (5003, 4097)):
        gpts = torch.Generator().manual_seed(ctx.seed + m_)
        st_ = torch.rand(m_, 3, generator=gpts) * 10.0
        en_ = torch.rand(n_, 3, generator=gpts) * 10.0 + torch.tensor([0., 0., 50.])
        ctx.case(('all_pairs_large', m_, n_), True)
        ctx.count('all_pairs/more than 2^24 rays')
        rec = {'kind': 'all_pairs_large', 'starts': m_, 'ends': n_}
        try:
            big = LR.create_ray_from_all_pairs(st_, en_)
        except Exception as e:
            ctx.violation('torch create_ray_from_all_pairs raised %r for %d x %d points' % (e, m_, n_), rec, {'api': 'torch', 'fn': 'create_ray_from_all_pairs', 'what': 'raises', 'large': True})
            continue
        N_ = m_ * n_
        ks = sorted({0, 1, n_ - 1, n_, N_ - 1, N_ - n_, N_ - n_ - 1} | {2 ** 24 + d_ for d_ in (-2, -1, 0, 1, 2, n_, 2 * n_ + 1) if 0 <= 2 ** 24 + d_ < N_} |
                    {rng.randrange(2 ** 24, N_) for _ in range(400)} | {rng.randrange(N_) for _ in range(100)} | {r_ * n_ + c_ for r_ in range(m_ - 40, m_) for c_ in (0, n_ // 2, n_ - 1)})
        ks_t = torch.tensor(ks)
        sub = big.reshape(-1, 2, 3)[ks_t].double()
        if big.reshape(-1, 2, 3).shape[0] != N_:
            ctx.violation('torch create_ray_from_all_pairs returns %d rays for %d x %d points' % (big.reshape(-1, 2, 3).shape[0], m_, n_), rec,
                          {'api': 'torch', 'fn': 'create_ray_from_all_pairs', 'what': 'count', 'large': True})
        else:
            s_want = st_[ks_t // n_].double()
            d_want = en_[ks_t % n_].double() - s_want
            d_want = d_want / d_want.norm(dim=1, keepdim=True)
            bad = torch.nonzero(((sub[:, 0] - s_want).abs().max(dim=1)[0] > 1e-4) | ((sub[:, 1] - d_want).abs().max(dim=1)[0] > 1e-4)).reshape(-1)
            if len(bad):
                kbad = ks[int(bad[0])]
                ctx.violation('torch create_ray_from_all_pairs (%d x %d points, %d rays): ray %d does not go from start point %d to end point %d (%d of %d sampled rays wrong)'
                              % (m_, n_, N_, kbad, kbad // n_, kbad % n_, len(bad), len(ks)), dict(rec, ray=kbad), {'api': 'torch', 'fn': 'create_ray_from_all_pairs', 'what': 'index_law', 'large': True})
        del big, sub
        gc.collect()
    from .gensamplers import check_generated_samplers
    check_generated_samplers(ctx)          # the definitions regenerated from the source (Generated/Samplers.lean) vs the real functions
    from .genrays import check_generated_rays
    check_generated_rays(ctx)              # Generated/RayCreate.lean, RayCreateBatch.lean (ray creation, both APIs) vs the real functions
    from .gensamplersmore import check_generated_samplers_more; check_generated_samplers_more(ctx)   # Generated/SamplersMore.lean (loop-built generators) vs the real functions
    more_generators(ctx)


# ======================================================================================================================
#  create_ray (both APIs), create_ray_from_angles, propagate, circular_uniform(_random)_sample, random_sample_point_cloud,
#  batch_of_rays
# ======================================================================================================================

def rot_mode(angles, mode='XYZ'):
    """documented rotation modes of rotate_point(s): the letters give the order in which the axis rotations are applied"""
    a = np.radians(angles)
    R = {'X': np.array([[1, 0, 0], [0, math.cos(a[0]), -math.sin(a[0])], [0, math.sin(a[0]), math.cos(a[0])]]),
         'Y': np.array([[math.cos(a[1]), 0, math.sin(a[1])], [0, 1, 0], [-math.sin(a[1]), 0, math.cos(a[1])]]),
         'Z': np.array([[math.cos(a[2]), -math.sin(a[2]), 0], [math.sin(a[2]), math.cos(a[2]), 0], [0, 0, 1]])}
    return R[mode[2]] @ R[mode[1]] @ R[mode[0]]


def unit_dir(rng, cls):
    if cls == 'axis':
        d = np.zeros(3); d[rng.randrange(3)] = rng.choice([-1.0, 1.0])
        return d
    if cls == 'plane':
        t = rng.uniform(0, 2 * math.pi)
        d = np.array([math.cos(t), math.sin(t), 0.0])
        return np.roll(d, rng.randrange(3))
    d = np.array([rng.gauss(0, 1) for _ in range(3)])
    return d / np.linalg.norm(d)


def angle_class(rng, cls):
    a = lambda: rng.choice([-1, 1]) * rng.uniform(1, 179)
    return {'zero': [0., 0., 0.], 'x': [a(), 0., 0.], 'y': [0., a(), 0.], 'z': [0., 0., a()], 'xy': [a(), a(), 0.],
            'xyz': [a(), a(), a()], 'right': [rng.choice([0., 90., 180., -90.]) for _ in range(3)]}[cls]


def check_create_ray_numpy(point, angles_deg, as_list):
    """returns (ok, text)"""
    import odak.raytracing as NR
    d = np.cos(np.radians(np.asarray(angles_deg, dtype=np.float64)))
    ray = NR.create_ray(list(point) if as_list else np.array(point), list(angles_deg) if as_list else np.array(angles_deg))
    ray = np.asarray(ray)
    if ray.shape != (2, 3):
        return False, 'shape %s' % (ray.shape,)
    if not np.array_equal(ray[0], np.asarray(point, dtype=np.float64)):
        return False, 'start %s is not the given point %s' % (ray[0].tolist(), list(point))
    if np.max(np.abs(ray[1] - d)) > 1e-9:
        return False, 'direction cosines %s are not the cosines %s of the given angles' % (ray[1].tolist(), d.tolist())
    return True, ''


def check_create_ray_torch(xyz, abg, direction, dtype):
    """xyz, abg: nested lists of the documented sizes [3], [1 x 3] or [m x 3]; returns (ok, what, text)"""
    import odak.learn.raytracing as LR
    dt = torch.float32 if dtype == 'float32' else torch.float64
    tx, ta = torch.tensor(xyz, dtype=dt), torch.tensor(abg, dtype=dt)
    ray = LR.create_ray(tx, ta, direction=direction).detach().numpy().astype(np.float64)
    pts = np.asarray(tx.numpy(), dtype=np.float64).reshape(-1, 3)
    ang = np.asarray(ta.numpy(), dtype=np.float64).reshape(-1, 3)
    m = pts.shape[0]
    want = ang if direction else np.cos(np.radians(ang))
    if ray.shape != (m, 2, 3):
        return False, 'count', 'returns %s for %d start point(s) of size %s (documented: one ray per point, [1 x 2 x 3] or [m x 2 x 3])' % (
            ray.shape, m, list(np.shape(xyz)))
    if np.max(np.abs(ray[:, 0] - pts)) > 5e-4 * max(1.0, float(np.max(np.abs(pts)))):
        return False, 'origin', 'start points %s are not the given points %s' % (ray[:, 0].tolist(), pts.tolist())
    if np.max(np.abs(ray[:, 1] - want)) > 5e-4 * max(1.0, float(np.max(np.abs(want)))):
        return False, 'direction', 'directions %s, expected %s' % (ray[:, 1].tolist(), want.tolist())
    return True, '', ''


def check_from_angles(point, angles, mode, shape2d):
    import odak.raytracing as NR
    pt = np.array([point]) if shape2d else np.array(point)
    kw = {} if mode is None else {'mode': mode}
    ray = np.asarray(NR.create_ray_from_angles(pt, list(angles), **kw), dtype=np.float64)
    want = rot_mode(angles, mode or 'XYZ') @ np.array([0., 0., 1.])
    if ray.shape != (2, 3):
        return False, 'shape', 'shape %s' % (ray.shape,)
    if np.max(np.abs(ray[0] - np.asarray(point))) > 1e-9:
        return False, 'origin', 'start %s is not the given point %s' % (ray[0].tolist(), list(point))
    if np.max(np.abs(ray[1] - want)) > 1e-9:
        return False, 'direction', 'direction %s is not the Z axis rotated by the angles %s in mode %s, i.e. %s' % (
            ray[1].tolist(), list(angles), mode or 'XYZ (default)', want.tolist())
    return True, '', ''


def check_disc(samples, radius, center, angles, count, tol=1e-9):
    """points of the disc of the given radius about the centre in the plane tilted by the angles (mode XYZ); returns text or None"""
    s = np.asarray(samples, dtype=np.float64)
    if s.ndim != 2 or s.shape[1] != 3 or (count is not None and s.shape[0] != count):
        return 'returns shape %s, expected (%s, 3)' % (s.shape, count), None
    if s.shape[0] == 0:
        return None, s
    local = (s - np.asarray(center)) @ rot_mode(angles)          # R^T (p - c)
    sc = max(1.0, radius, float(np.max(np.abs(center))))
    if not np.all(np.isfinite(s)):
        return 'non-finite sample points', None
    if np.max(np.abs(local[:, 2])) > tol * sc * 10:
        return 'points are up to %.3g off the tilted plane through the centre' % float(np.max(np.abs(local[:, 2]))), None
    if np.max(np.linalg.norm(local[:, :2], axis=1)) > radius * (1 + 1e-9) + tol * sc * 10:
        return 'points reach %.6g from the centre, radius %.6g' % (float(np.max(np.linalg.norm(local[:, :2], axis=1))), radius), None
    return None, local


def more_generators(ctx):
    import odak.learn.raytracing as LR
    import odak.raytracing as NR
    import odak.tools as NT
    rng = ctx.rng
    ctx.rule += ('; create_ray (NumPy: list/array arguments, direction classes; torch: sizes [3], [1x3], [mx3] m = 2..4, direction False/True, '
                 'float32/64), create_ray_from_angles (point sizes [3], [1x3], every mode, angle classes), propagate along the ray, '
                 'circular_uniform_sample / circular_uniform_random_sample / random_sample_point_cloud / batch_of_rays with tilts, '
                 'centres of distinct coordinates, counts 1..n and seeds')
    DIRS = ['random', 'random', 'axis', 'plane']
    ANG = ['zero', 'x', 'y', 'z', 'xy', 'xyz', 'right']
    MODES = [None, 'XYZ', 'XZY', 'YXZ', 'ZXY', 'ZYX']
    # ---------------- NumPy create_ray: point + direction angles
    for k in range(ctx.n(24, 200)):
        d = unit_dir(rng, DIRS[k % 4])
        ang = np.degrees(np.arccos(np.clip(d, -1, 1))).tolist()
        pt = vec(rng, 5)
        rec = {'gen': 'np.create_ray', 'point': pt, 'angles': ang, 'as_list': bool(k % 2)}
        ctx.case(('np.create_ray', tuple(pt), tuple(ang)), True, rec)
        ctx.count('create_ray/numpy/' + DIRS[k % 4])
        try:
            ok, text = check_create_ray_numpy(pt, ang, bool(k % 2))
        except Exception as e:
            ok, text = False, 'raised %r' % e
        if ok:
            ray = np.asarray(NR.create_ray(pt, ang))
            if abs(np.linalg.norm(ray[1]) - 1) > 1e-9:
                ok, text = False, 'direction cosines %s of the direction angles %s are not unit length' % (ray[1].tolist(), ang)
        if not ok:
            ctx.violation('numpy create_ray: ' + text, rec, {'api': 'numpy', 'fn': 'create_ray', 'what': 'point_and_cosines'})
    # ---------------- torch create_ray: documented sizes, direction False / True
    SHAPES = ['[3]', '[1x3]', '[mx3]']
    for k in range(ctx.n(36, 300)):
        shp = SHAPES[k % 3]
        direction = bool((k // 3) % 2)
        dtype = 'float32' if (k // 6) % 2 == 0 else 'float64'
        m = 1 if shp != '[mx3]' else 2 + (k // 3) % 3
        dirs = [unit_dir(rng, DIRS[(k + i) % 4]) for i in range(m)]
        pts = [vec(rng, 5) for _ in range(m)]
        abg = [d.tolist() for d in dirs] if direction else [np.degrees(np.arccos(np.clip(d, -1, 1))).tolist() for d in dirs]
        xyz = pts[0] if shp == '[3]' else pts
        abg = abg[0] if shp == '[3]' else abg
        rec = {'gen': 'torch.create_ray', 'xyz': xyz, 'abg': abg, 'direction': direction, 'dtype': dtype, 'size': shp}
        ctx.case(('torch.create_ray', shp, direction, dtype, tuple(pts[0])), True, rec)
        ctx.count('create_ray/torch/%s direction=%s' % (shp, direction))
        try:
            ok, what, text = check_create_ray_torch(xyz, abg, direction, dtype)
        except Exception as e:
            ok, what, text = False, 'raises', 'raised %r' % e
        if not ok:
            ctx.violation('torch create_ray(%s, direction=%s): %s' % (shp, direction, text), rec,
                          {'api': 'torch', 'fn': 'create_ray', 'what': what, 'size': shp})
    # ---------------- NumPy create_ray_from_angles
    for k in range(ctx.n(42, 300)):
        acls, mode = ANG[k % len(ANG)], MODES[(k // len(ANG)) % len(MODES)]
        angles = angle_class(rng, acls)
        pt = vec(rng, 5) if k % 5 else [rng.uniform(-3, 3)] * 3          # every fifth point has x = y = z
        rec = {'gen': 'create_ray_from_angles', 'point': pt, 'angles': angles, 'mode': mode, 'point_size': '[1x3]' if k % 2 else '[3]'}
        ctx.case(('from_angles', acls, mode, tuple(pt)), True, rec)
        ctx.count('create_ray_from_angles/%s/%s' % (acls, 'x=y=z' if k % 5 == 0 else 'distinct coordinates'))
        try:
            ok, what, text = check_from_angles(pt, angles, mode, bool(k % 2))
        except Exception as e:
            ok, what, text = False, 'raises', 'raised %r' % e
        if not ok:
            ctx.violation('numpy create_ray_from_angles: ' + text, rec,
                          {'api': 'numpy', 'fn': 'create_ray_from_angles', 'what': what, 'equal_coordinates': k % 5 == 0})
    # ---------------- travelling the distance between the two points along the created ray reaches the end point
    for k in range(ctx.n(20, 200)):
        m = 1 + k % 3
        p0 = np.array([vec(rng, 5) for _ in range(m)]); p1 = np.array([vec(rng, 5) for _ in range(m)])
        dist = np.linalg.norm(p1 - p0, axis=1)
        rec = {'gen': 'propagate', 'p0': p0.tolist(), 'p1': p1.tolist()}
        ctx.case(('propagate', m, tuple(p0[0])), True, rec)
        ctx.count('propagate/%d rays' % m)
        rt = LR.create_ray_from_two_points(torch.tensor(p0, dtype=torch.float64), torch.tensor(p1, dtype=torch.float64))
        end_t = LR.propagate_ray(rt, torch.tensor(dist, dtype=torch.float64)).detach().numpy().astype(np.float64).reshape(m, 2, 3)
        # (the direction row of torch propagate_ray's result is all zeros - the property speaks about the point reached only)
        if np.max(np.abs(end_t[:, 0] - p1)) > 5e-4 * 10:
            ctx.violation('torch: propagating the ray from p0 towards p1 by |p1 - p0| ends at %s, not at p1 = %s' % (end_t[:, 0].tolist(), p1.tolist()),
                          rec, {'api': 'torch', 'fn': 'propagate_ray', 'what': 'reach'})
        for i in range(m):
            rn = NR.create_ray_from_two_points(p0[i].copy(), p1[i].copy())
            end_n = np.asarray(NR.propagate_a_ray(rn, float(dist[i])), dtype=np.float64).reshape(2, 3)
            if np.max(np.abs(end_n[0] - p1[i])) > 1e-9 * 10 or np.max(np.abs(end_n[1] - np.asarray(rn).reshape(2, 3)[1])) > 1e-12:
                ctx.violation('numpy: propagating the ray from p0 towards p1 by |p1 - p0| ends at %s, not at p1 = %s' % (end_n[0].tolist(), p1[i].tolist()),
                              rec, {'api': 'numpy', 'fn': 'propagate_a_ray', 'what': 'reach'})
    # ---------------- circular_uniform_sample (rings), circular_uniform_random_sample (seeded)
    for k in range(ctx.n(21, 150)):
        acls = ANG[k % len(ANG)]
        angles = angle_class(rng, acls)
        center = [rng.uniform(-5, 5), rng.uniform(6, 9), rng.uniform(-20, -10)] if k % 4 else [0., 0., 0.]
        radius = rng.choice([0.01, 1.0, rng.uniform(0.5, 10), 250.0])
        no = [[1, 1], [1, 5], [2, 1], [2, 4], [3, 6], [4, 3], [5, 10], [6, 7]][k % 8]
        rec = {'sampler': 'circular_uniform_sample', 'no': no, 'radius': radius, 'center': center, 'angles': angles}
        ctx.case(('circular_uniform', tuple(no), acls, tuple(center), radius), no[0] > 1, rec)
        ctx.count('circular_uniform_sample/' + acls)
        try:
            c = NT.circular_uniform_sample(no=list(no), radius=radius, center=list(center), angles=list(angles))
            rings = [int(no[1] * i / no[0]) for i in range(no[0])]
            text, local = check_disc(c, radius, center, angles, sum(rings))
            if text is None and local is not None and local.shape[0]:
                # ring i holds int(no[1] * i / no[0]) points at radius i / no[0] * radius: density proportional to the radius
                rr = np.linalg.norm(local[:, :2], axis=1)
                want = np.concatenate([np.full(n, i / no[0] * radius) for i, n in enumerate(rings)]) if sum(rings) else np.zeros(0)
                if np.max(np.abs(np.sort(rr) - np.sort(want))) > 1e-9 * max(1.0, radius, float(np.max(np.abs(center)))) * 10:
                    text = 'ring radii %s are not i / no[0] * radius with int(no[1] * i / no[0]) points on ring i' % np.unique(np.round(rr, 9)).tolist()
        except Exception as e:
            text = 'raised %r' % e
        if text:
            ctx.violation('circular_uniform_sample: ' + text, rec, {'fn': 'circular_uniform_sample', 'what': 'membership', 'api': 'numpy'})
        seed = rng.randrange(2 ** 31)
        rec = {'sampler': 'circular_uniform_random_sample', 'no': no, 'radius': radius, 'center': center, 'angles': angles, 'np_seed': seed}
        ctx.case(('circular_uniform_random', tuple(no), acls, tuple(center), radius, seed), True, rec)
        ctx.count('circular_uniform_random_sample/' + acls)
        try:
            np.random.seed(seed)
            c = NT.circular_uniform_random_sample(no=list(no), radius=radius, center=list(center), angles=list(angles))
            text, local = check_disc(c, radius, center, angles, no[0] * no[1])
        except Exception as e:
            text = 'raised %r' % e
        if text:
            ctx.violation('circular_uniform_random_sample: ' + text, rec, {'fn': 'circular_uniform_random_sample', 'what': 'membership', 'api': 'numpy'})
    # ---------------- random_sample_point_cloud
    for k in range(ctx.n(24, 150)):
        n = [1, 2, 5, 17][k % 4]
        cloud = np.array([vec(rng, 9) for _ in range(n)])
        pcls = ['none', 'none', 'one_hot', 'some_zero', 'uniform', 'one_hot'][k % 6]
        if pcls == 'none':
            no, p = rng.randint(1, n), None                   # without probabilities the draw is without replacement (no <= n)
        else:
            no = rng.randint(1, 12)
            if pcls == 'one_hot':
                p = [0.0] * n; p[rng.randrange(n)] = 1.0
            elif pcls == 'uniform':
                p = [1.0 / n] * n
            else:
                keep = [i for i in range(n) if rng.random() < 0.5] or [0]
                p = [1.0 / len(keep) if i in keep else 0.0 for i in range(n)]
        seed = rng.randrange(2 ** 31)
        rec = {'sampler': 'random_sample_point_cloud', 'cloud': cloud.tolist(), 'no': no, 'p': p, 'np_seed': seed}
        ctx.case(('point_cloud', n, no, pcls, seed), True, rec)
        ctx.count('random_sample_point_cloud/p=' + pcls)
        text, what = point_cloud_check(cloud, no, p, seed)
        if text and what == 'probability_zero_drawn':
            # OBSERVATION, not judged: the probability list is passed in the `replace` position of np.random.choice and is ignored.  The drawn points
            # are still rows of the given cloud ("lie where described" in the sense of C14, which names the grid / circular / spherical / box
            # generators); the docstring of `p` ("same size as no") does not pin the intended meaning down.
            ctx.count('random_sample_point_cloud/observation: rows with probability 0 drawn (p is ignored)')
        elif text:
            ctx.violation('random_sample_point_cloud: ' + text, rec, {'fn': 'random_sample_point_cloud', 'what': what, 'api': 'numpy', 'p': pcls})
    # ---------------- batch_of_rays: one-to-one, single point on either side repeated
    for k in range(ctx.n(24, 150)):
        n = 1 + k % 3
        form = ['n-n', '1-n', 'n-1', '3-3'][k % 4] if n > 1 else ['[3]-[3]', '[1x3]-[3]', '[3]-[1x3]', '[1x3]-[1x3]'][(k // 3) % 4]
        ent = np.array([vec(rng, 5) for _ in range(n)]); ext = np.array([vec(rng, 5) for _ in range(n)]) + np.array([0., 0., 20.])
        if form == '1-n':
            a_ent, a_ext, ent = ent[0], ext, np.repeat(ent[:1], n, axis=0)
        elif form == 'n-1':
            a_ent, a_ext, ext = ent, ext[0], np.repeat(ext[:1], n, axis=0)
        elif form in ('[3]-[3]', '[1x3]-[3]', '[3]-[1x3]', '[1x3]-[1x3]'):
            a_ent = ent[0] if form.startswith('[3]') else ent
            a_ext = ext[0] if form.endswith('-[3]') else ext
        else:
            a_ent, a_ext = ent, ext
        rec = {'gen': 'batch_of_rays', 'entry': np.asarray(a_ent).tolist(), 'exit': np.asarray(a_ext).tolist(), 'form': form}
        ctx.case(('batch_of_rays', form, n, tuple(ent[0])), True, rec)
        ctx.count('batch_of_rays/' + form)
        try:
            rays = np.asarray(NT.batch_of_rays(np.array(a_ent), np.array(a_ext)), dtype=np.float64)
            dist = np.linalg.norm(ext - ent, axis=1)
            text = None
            if rays.shape != (n, 2, 3):
                text = 'returns shape %s for %d entry/exit pair(s)' % (rays.shape, n)
            elif np.max(np.abs(rays[:, 0] - ent)) > 1e-9:
                text = 'ray i does not start at entry point i: %s vs %s' % (rays[:, 0].tolist(), ent.tolist())
            elif np.max(np.abs(np.linalg.norm(rays[:, 1], axis=1) - 1)) > 1e-9 or np.max(np.abs(rays[:, 0] + dist[:, None] * rays[:, 1] - ext)) > 1e-9 * 30:
                text = 'ray i is not the unit direction that reaches exit point i after |exit - entry|: directions %s' % rays[:, 1].tolist()
        except Exception as e:
            text = 'raised %r' % e
        if text:
            ctx.violation('batch_of_rays (%s): %s' % (form, text), rec, {'fn': 'batch_of_rays', 'what': 'one_to_one', 'api': 'numpy', 'form': form})


def point_cloud_check(cloud, no, p, seed):
    import odak.tools as NT
    cloud = np.asarray(cloud, dtype=np.float64)
    try:
        np.random.seed(seed)
        sub = np.asarray(NT.random_sample_point_cloud(cloud.copy(), no, None if p is None else list(p)))
    except Exception as e:
        return 'raised %r' % e, 'raises'
    if sub.shape != (no, 3):
        return 'returns shape %s for no = %d' % (sub.shape, no), 'count'
    idx = []
    for row in sub:
        hit = np.nonzero(np.all(cloud == row, axis=1))[0]
        if len(hit) == 0:
            return 'returned point %s is not a point of the cloud' % row.tolist(), 'membership'
        idx.append(int(hit[0]))
    if p is not None:
        bad = [i for i in idx if p[i] == 0.0]
        if bad:
            return ('point %d of the cloud has probability 0 in p = %s but was drawn (drawn indices %s)' % (bad[0], list(p), idx)), 'probability_zero_drawn'
    return None, None


def replay(ctx, rep):
    import odak.learn.raytracing as LR
    r = rep['replay']
    if r.get('gen') == 'np.create_ray':
        ok, text = check_create_ray_numpy(r['point'], r['angles'], r['as_list']); print(text); return ok
    if r.get('gen') == 'torch.create_ray':
        ok, what, text = check_create_ray_torch(r['xyz'], r['abg'], r['direction'], r['dtype']); print(text); return ok
    if r.get('gen') == 'create_ray_from_angles':
        ok, what, text = check_from_angles(r['point'], r['angles'], r['mode'], r['point_size'] == '[1x3]'); print(text); return ok
    if r.get('sampler') == 'random_sample_point_cloud':
        text, what = point_cloud_check(r['cloud'], r['no'], r['p'], r['np_seed']); print(text); return text is None
    if r.get('sampler') in ('circular_uniform_sample', 'circular_uniform_random_sample'):
        import odak.tools as NT
        np.random.seed(r.get('np_seed', 0))
        c = getattr(NT, r['sampler'])(no=r['no'], radius=r['radius'], center=r['center'], angles=r['angles'])
        text, _ = check_disc(c, r['radius'], r['center'], r['angles'], None); print(text); return text is None
    if 'limit' in r:
        torch.manual_seed(r['seed'])
        rays = LR.create_ray_from_point_w_luminous_angle(torch.tensor(r['origin']), r['num'], torch.tensor(r['tilt']), r['limit']).numpy()
        t = np.radians(r['tilt'])
        Rx = np.array([[1, 0, 0], [0, math.cos(t[0]), -math.sin(t[0])], [0, math.sin(t[0]), math.cos(t[0])]])
        Ry = np.array([[math.cos(t[1]), 0, math.sin(t[1])], [0, 1, 0], [-math.sin(t[1]), 0, math.cos(t[1])]])
        Rz = np.array([[math.cos(t[2]), -math.sin(t[2]), 0], [math.sin(t[2]), math.cos(t[2]), 0], [0, 0, 1]])
        dev = np.degrees(np.arccos(np.clip(rays[:, 1] @ ((Rz @ Ry @ Rx) @ np.array([0, 0, 1.0])), -1, 1)))
        print('max deviation', float(dev.max()), 'limit', r['limit'])
        return float(dev.max()) <= r['limit'] + 0.2
    return True
