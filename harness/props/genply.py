"""Executable tie of lean/OdakModel/Generated/PlyGen.lean (the output of harness/translate/plygen.py; driver ops of
lean/OdakModel/Exec/OpsGenPly.lean) with what the real functions of odak/tools/asset.py and odak/tools/file.py write, read and call:

 * write_PLY_from_points  grids m x n (square, non-square both ways, a single row / column, 2 x 2 .. 5 x 7): the file it writes is parsed with
                          plyfile itself; EVERY vertex row must hold the array elements the regenerated reference list names, EVERY face
                          row the regenerated indices and colours; the file must be in the format the regenerated `text` flag means
 * write_PLY              the same for k = 0 .. 6 triangles
 * read_PLY               files built with plyfile directly - shared vertices, indices in any order, offsets, angles, a `mode` other than
                          the default - against the regenerated reader (which says the mode is not handed on)
 * the conclusion of C19_gen_ply_points_roundtrip / C19_gen_ply_roundtrip on the real functions (read(write(x)) = the stated triangles)
 * save_dictionary / load_dictionary / write_to_text_file: the calls they make (observed by putting recording stand-ins for `open`,
   `json.dump`, `json.load`, `expanduser` into the module) against the regenerated tables; list_files / check_directory: behaviour on a
   scratch directory tree against what the regenerated table says

A disagreement is a broken correspondence (alarm); a concrete mesh that does not read back is a violation of C19."""
import json
import os
import tempfile
import numpy as np
from ..lib.core import f2b, b2f


def fl(xs):
    return ' '.join(str(f2b(float(x))) for x in np.asarray(xs, dtype=np.float64).reshape(-1))


def ints(line):
    return [int(t) for t in line.split()]


def parse_tables(line):
    return [dict(row.split(' := ', 1) for row in t.split(' ;; ') if ' := ' in row) for t in line.split(' ## ')]


def check_writers(ctx, tmp):
    from plyfile import PlyData
    from odak.tools.asset import write_PLY_from_points, write_PLY, read_PLY
    rng = ctx.rng
    grids = [(2, 2), (2, 3), (3, 2), (1, 4), (4, 1), (3, 3), (2, 5), (5, 2), (4, 3), (3, 5), (5, 7)] + \
        [(rng.randint(2, 6), rng.randint(2, 6)) for _ in range(ctx.n(3, 30))]
    lines = []
    for m, n in grids:
        lines += ['gp_points_vertices %d %d' % (m, n), 'gp_points_faces %d %d' % (m, n)]
    ks = list(range(0, 7))
    for k in ks:
        lines += ['gp_write_vertices %d' % k, 'gp_write_faces %d' % k]
    outs = ctx.model.ask(lines + ['gp_wiring_ply']) if ctx.drv_ok else None
    wiring = parse_tables(outs[-1]) if outs else None
    bad = 0

    def compare(tag, fn, arr, refs, faces, rec):
        """the written file against the regenerated vertex references and faces"""
        nonlocal bad
        with open(fn, 'rb') as f:
            head = f.read(64)
            f.seek(0)
            ply = PlyData.read(f)
        names = [e.name for e in ply.elements]
        v = np.array([[r['x'], r['y'], r['z']] for r in ply['vertex'].data], dtype=np.float64).reshape(-1, 3)
        fdat = ply['face'].data
        fid = np.array([list(r['vertex_indices']) for r in fdat], dtype=np.int64).reshape(-1, 3)
        col = np.array([[r['red'], r['green'], r['blue']] for r in fdat], dtype=np.int64).reshape(-1, 3)
        want_v = np.array([[arr[tuple(refs[9 * r + 3 * c: 9 * r + 3 * c + 3])] for c in range(3)] for r in range(len(refs) // 9)],
                          dtype=np.float32).astype(np.float64).reshape(-1, 3)
        want_f = np.array(faces, dtype=np.int64).reshape(-1, 6)
        ok = v.shape == want_v.shape and np.array_equal(v, want_v) and fid.shape == want_f[:, :3].shape and np.array_equal(fid, want_f[:, :3]) \
            and np.array_equal(col, want_f[:, 3:])
        if wiring is not None:
            w = wiring[0] if tag == 'write_PLY_from_points' else wiring[1]
            ok = ok and ', '.join(names) == w.get('elements') and (b'format ascii' in head) == (w.get('text') not in ('', 'False', 'None', "''", '0'))
            ok = ok and str(ply['vertex'].data.dtype['x']) == 'float32' and "'f4'" in w.get('vertex dtype', '') and "'i4'" in w.get('face dtype', '')
        if not ok:
            bad += 1
            if bad <= 4:
                ctx.alarm('correspondence', 'generated %s: the file holds vertices %s faces %s colours %s elements %s; regenerated: vertices %s faces %s (%s)'
                          % (tag, v.tolist()[:3], fid.tolist()[:4], col.tolist()[:1], names, want_v.tolist()[:3], want_f.tolist()[:4], rec))

    fn = os.path.join(tmp, 'gen.ply')
    pos = 0
    for m, n in grids:
        pts = np.array([[[rng.uniform(-5, 5) for _ in range(3)] for _ in range(n)] for _ in range(m)], dtype=np.float32).astype(np.float64)
        rec = {'fn': 'write_PLY_from_points', 'points': pts.tolist()}
        ctx.case(('gen_ply_points', m, n, float(pts.sum())), True)
        ctx.count('generated/write_PLY_from_points ' + ('square' if m == n else 'single row or column' if min(m, n) == 1 else 'non-square'))
        try:
            write_PLY_from_points(pts.copy(), fn)
        except Exception as e:
            ctx.violation('write_PLY_from_points raised %r for a %d x %d grid' % (e, m, n), rec, {'fn': 'write_PLY_from_points', 'what': 'raises'})
            pos += 2
            continue
        if outs:
            compare('write_PLY_from_points', fn, pts, ints(outs[pos]), ints(outs[pos + 1]), {'m': m, 'n': n})
        pos += 2
        # conclusion of C19_gen_ply_points_roundtrip on the real pair of functions
        if min(m, n) >= 2:
            try:
                back = np.asarray(read_PLY(fn), dtype=np.float64)
                want = []
                for i in range(m - 1):
                    for j in range(n - 1):
                        want += [[pts[i + 1, j], pts[i, j], pts[i, j + 1]], [pts[i + 1, j], pts[i, j + 1], pts[i + 1, j + 1]]]
                want = np.array(want, dtype=np.float64)
                if back.shape != want.shape or not np.array_equal(back, want):
                    ctx.violation('read_PLY(write_PLY_from_points(points)) for a %d x %d grid is not the two corner triangles of every cell: got %s, '
                                  'expected %s' % (m, n, back.tolist()[:2], want.tolist()[:2]), rec,
                                  {'fn': 'write_PLY_from_points', 'what': 'faces', 'square': m == n})
            except Exception as e:
                ctx.violation('read_PLY(write_PLY_from_points(points)) raised %r for a %d x %d grid' % (e, m, n), rec,
                              {'fn': 'write_PLY_from_points', 'what': 'faces', 'square': m == n})
    for k in ks:
        tris = np.array([[[rng.uniform(-5, 5) for _ in range(3)] for _ in range(3)] for _ in range(k)], dtype=np.float32).astype(np.float64).reshape(k, 3, 3)
        ctx.case(('gen_ply_write', k, float(tris.sum())), k > 0)
        ctx.count('generated/write_PLY')
        try:
            write_PLY(tris.copy(), fn)
        except Exception as e:
            if k:
                ctx.violation('write_PLY raised %r for %d triangles' % (e, k), {'triangles': k}, {'fn': 'write_PLY', 'what': 'raises'})
            pos += 2
            continue
        if outs:
            compare('write_PLY', fn, tris, ints(outs[pos]), ints(outs[pos + 1]), {'k': k})
        pos += 2
        if k:
            back = np.asarray(read_PLY(fn), dtype=np.float64)
            if back.shape != tris.shape or not np.array_equal(back, tris):
                ctx.violation('read_PLY(write_PLY(triangles)) differs from the %d triangles written' % k, {'triangles': k}, {'fn': 'write_PLY', 'what': 'roundtrip'})


def check_reader(ctx, tmp):
    from plyfile import PlyData, PlyElement
    from odak.tools.asset import read_PLY
    rng = ctx.rng
    items = []
    fn = os.path.join(tmp, 'read.ply')
    for it in range(ctx.n(14, 100)):
        nv, nf = rng.randint(3, 9), rng.randint(1, 6)
        verts = np.array([[rng.uniform(-5, 5) for _ in range(3)] for _ in range(nv)], dtype=np.float32)
        faces = [[rng.randrange(nv) for _ in range(3)] for _ in range(nf)]               # shared vertices, any order
        offset = [0.0, 0.0, 0.0] if it % 3 == 0 else [rng.uniform(-3, 3), rng.uniform(4, 6), rng.uniform(-9, -7)]
        angles = [0.0, 0.0, 0.0] if it % 4 == 0 else [rng.uniform(-180, 180) for _ in range(3)]
        mode = ['XYZ', 'XYZ', 'ZYX', 'YXZ'][it % 4]
        el1 = PlyElement.describe(np.array([tuple(v) for v in verts], dtype=[('x', 'f4'), ('y', 'f4'), ('z', 'f4')]), 'vertex')
        el2 = PlyElement.describe(np.array([(f, 255, 255, 255) for f in faces],
                                           dtype=[('vertex_indices', 'i4', (3,)), ('red', 'u1'), ('green', 'u1'), ('blue', 'u1')]), 'face')
        PlyData([el1, el2], text=bool(it % 2)).write(fn)
        rec = {'vertices': verts.tolist(), 'faces': faces, 'offset': offset, 'angles': angles, 'mode': mode}
        ctx.case(('gen_ply_read', nv, nf, mode, tuple(offset)), True)
        ctx.count('generated/read_PLY mode=%s%s' % (mode, '' if any(angles) else ' zero angles'))
        try:
            got = np.asarray(read_PLY(fn, offset=list(offset), angles=list(angles), mode=mode), dtype=np.float64).reshape(-1)
        except Exception as e:
            ctx.alarm('correspondence', 'read_PLY raised %r for %s' % (e, rec))
            continue
        items.append(('gp_read %d %d %s %s %s %s' % (nv, nf, fl(offset), fl(angles), fl(verts), ' '.join(str(i) for f in faces for i in f)), got, rec))
    if ctx.drv_ok and items:
        bad = 0
        for (line, want, rec), out in zip(items, ctx.model.ask([i[0] for i in items])):
            got = np.array([b2f(t) for t in out.split()], dtype=np.float64)
            tol = 2e-6 * max(1.0, float(np.max(np.abs(want), initial=0.0)))            # the real reader returns float32
            if got.shape != want.shape or not np.all(np.abs(got - want) <= tol):
                bad += 1
                if bad <= 4:
                    ctx.alarm('correspondence', 'generated read_PLY: implementation %s vs regenerated reader %s (%s)'
                              % (np.round(want, 5).tolist()[:9], np.round(got, 5).tolist()[:9], rec))


def check_file_helpers(ctx, tmp):
    import odak.tools.file as F
    if not ctx.drv_ok:
        return
    raw = ctx.model.ask(['gp_wiring_file'])[0]
    tables = parse_tables(raw)
    if len(tables) != 6:
        ctx.alarm('correspondence', 'the driver returned %d wiring tables for the file helpers' % len(tables))
        return
    save_t, load_t, text_t, list_t, dir_t, exp_t = tables
    log = []

    class FakeFile:
        def __init__(self, args, kw):
            self.args, self.kw, self.written = args, kw, []

        def write(self, s):
            self.written.append(s)

        def __enter__(self):
            return self

        def __exit__(self, *a):
            return False

    def fake_open(*a, **k):
        f = FakeFile(a, k)
        log.append(('open', f))
        return f

    def fake_expand(x):
        log.append(('expanduser', x))
        return '<expanded:%s>' % x

    saved = {n: F.__dict__.get(n) for n in ('open', 'expanduser')}
    real_dump, real_load = F.json.dump, F.json.load
    problems = []
    try:
        F.open, F.expanduser = fake_open, fake_expand
        F.json.dump = lambda *a, **k: log.append(('dump', a, k))
        F.json.load = lambda *a, **k: (log.append(('load', a, k)), {'loaded': 1})[1]
        settings = {'a': 1, 'é': [1.5, None]}
        ret = F.save_dictionary(settings, 'name.json')
        opens = [x[1] for x in log if x[0] == 'open']
        dumps = [x for x in log if x[0] == 'dump']
        ctx.case(('gen_file', 'save_dictionary'), True)
        want_open = ['<expanded:name.json>' if save_t.get('open file') == 'expanduser(filename)' else 'name.json', eval(save_t.get('open mode', "''"))]
        if not (len(opens) == 1 and len(dumps) == 1 and list(opens[0].args) == want_open and
                {k: repr(v) for k, v in opens[0].kw.items()} == {k[5:]: v for k, v in save_t.items() if k.startswith('open ') and k not in ('open file', 'open mode')} and
                dumps[0][1][0] is settings and dumps[0][1][1] is opens[0] and
                {k: repr(v) for k, v in dumps[0][2].items()} == {k[5:]: v for k, v in save_t.items() if k.startswith('dump ') and k not in ('dump obj', 'dump fp')} and
                ret is settings):
            problems.append('save_dictionary: open%s %s, json.dump keywords %s; regenerated table %s' % (
                [list(o.args) for o in opens], [o.kw for o in opens], [d[2] for d in dumps], save_t))
        del log[:]
        ret = F.load_dictionary('name.json')
        opens = [x[1] for x in log if x[0] == 'open']
        loads = [x for x in log if x[0] == 'load']
        ctx.case(('gen_file', 'load_dictionary'), True)
        if not (len(opens) == 1 and len(loads) == 1 and list(opens[0].args) == ['<expanded:name.json>'] and not opens[0].kw and loads[0][1][0] is opens[0]
                and not loads[0][2] and ret == {'loaded': 1} and load_t.get('open file') == 'expanduser(filename)' and 'open mode' not in load_t
                and 'open encoding' not in load_t):
            problems.append('load_dictionary: open%s %s; regenerated table %s' % ([list(o.args) for o in opens], [o.kw for o in opens], load_t))
        for flag in (None, 'a'):
            del log[:]
            ret = F.write_to_text_file(['x', 'y z', ''], 'name.txt') if flag is None else F.write_to_text_file(['x', 'y z', ''], 'name.txt', flag)
            opens = [x[1] for x in log if x[0] == 'open']
            ctx.case(('gen_file', 'write_to_text_file', flag), True)
            want_flag = eval(text_t.get('default write_flag', "''")) if flag is None else flag
            if not (len(opens) == 1 and list(opens[0].args) == ['<expanded:name.txt>', want_flag] and not opens[0].kw and
                    opens[0].written == ['x\n', 'y z\n', '\n'] and ret is True and text_t.get('open mode') == 'write_flag'
                    and text_t.get('loop body') == "f.write('{}\\n'.format(line))"):
                problems.append('write_to_text_file: open%s wrote %s; regenerated table %s' % ([list(o.args) for o in opens], [o.written for o in opens], text_t))
        del log[:]
    finally:
        F.json.dump, F.json.load = real_dump, real_load
        for n, v in saved.items():
            if v is None:
                F.__dict__.pop(n, None)
            else:
                setattr(F, n, v)
    # expanduser, check_directory, list_files on a scratch tree
    ctx.case(('gen_file', 'expanduser'), True)
    if F.expanduser('~/x') != os.path.expanduser('~/x') or 'statement := new_filename = os.path.expanduser(filename) ;; statement := return new_filename' not in raw.split(' ## ')[5]:
        problems.append('expanduser is not os.path.expanduser; regenerated table %s' % exp_t)
    d = os.path.join(tmp, 'tree', 'deep')
    ctx.case(('gen_file', 'check_directory'), True)
    first, made, second = F.check_directory(d), os.path.isdir(d), F.check_directory(d)
    if not (first is False and made and second is True and dir_t.get('then') == 'os.makedirs(expanduser(directory)); return False'
            and dir_t.get('otherwise returns') == 'True'):
        problems.append('check_directory returned %r, created %r, then returned %r; regenerated table %s' % (first, made, second, dir_t))
    for rel in ('a.txt', 'b.dat', 'deep/c.txt', 'deep/noext'):
        with open(os.path.join(tmp, 'tree', rel), 'w') as f:
            f.write('x')
    import pathlib
    root = os.path.join(tmp, 'tree')
    for key, rec_ in (('*.*', True), ('*.txt', True), ('*.*', False), ('*', False), (None, None)):
        ctx.case(('gen_file', 'list_files', key, rec_), True)
        if key is None:
            got = F.list_files(root)
            k2, r2 = eval(list_t.get('default key', "''")), eval(list_t.get('default recursive', 'None'))
        else:
            got = F.list_files(root, key, rec_)
            k2, r2 = key, rec_
        want = sorted(str(p) for p in (pathlib.Path(root).rglob(k2) if r2 else pathlib.Path(root).glob(k2)))
        if got != want or 'rglob(key)' not in list_t.get('if recursive == True', '') or '.glob(key)' not in list_t.get('if recursive == False', ''):
            problems.append('list_files(%r, %r) = %s, expected %s; regenerated table %s' % (key, rec_, got, want, list_t))
    ctx.count('generated/file helpers', 9)
    for p in problems[:4]:
        ctx.alarm('correspondence', 'generated wiring of the file helpers: ' + p)


def check_generated_ply(ctx, tmp=None):
    own = tmp is None
    tmp = tmp or tempfile.mkdtemp(prefix='verif_genply_')
    try:
        check_writers(ctx, tmp)
        check_reader(ctx, tmp)
        check_file_helpers(ctx, tmp)
    finally:
        if own:
            import shutil
            shutil.rmtree(tmp, ignore_errors=True)
    ctx.extra.setdefault('generated_definitions_checked', [])
    ctx.extra['generated_definitions_checked'] = sorted(set(ctx.extra['generated_definitions_checked']) | {
        'write_PLY_from_points (vertex table, faces, colours, element order, format)', 'write_PLY (vertex table, faces)', 'read_PLY (faces -> triangles, rotate_point call)',
        'save_dictionary / load_dictionary / write_to_text_file (calls observed)', 'list_files / check_directory / expanduser (behaviour)'})
