"""C20 – library calls never modify the caller's arrays, lists or default arguments.
Static part: the effect IR of every function under odak/ is regenerated, its summaries are re-checked by Lean (post-fixpoint) and the
clean/allowed decision is a Lean `decide`.  Dynamic part (this file): every odak function and method is wrapped by a snapshot probe
while (a) the repository's own test scripts and (b) a registry of targeted calls run; an OBSERVED mutation of a caller's argument is a
concrete violation, and it must have been PREDICTED by the IR (otherwise the translator is unsound: broken correspondence)."""
import importlib.util
import logging
import os
import shutil
import signal
import sys
import tempfile
import warnings
import numpy as np
import torch

logging.disable(logging.WARNING)
warnings.filterwarnings('ignore')

TRUSTED = ['the effect translator (harness/translate/effects.py) and its aliasing rules for NumPy/torch calls',
           'callee encapsulation (a callee reaches caller objects only through its arguments); cross-call aliasing through object state, '
           'nested functions and calls through callables stored in attributes are not modelled',
           'the dynamic probe compares deep snapshots of arguments before/after (arrays up to 2M elements)']
ASSUMPTIONS = ['functions listed in Props/C20.lean `documentedInPlace` update their argument by design (setters / helpers that return their argument)']

# functions whose in-place update of an argument is their documented purpose (kept identical to OdakProofs/Props/C20.lean)
ALLOWED = {
    'odak.learn.perception.steerable_pyramid_filters:crop_steerable_pyramid_filters',
    'odak.learn.raytracing.mesh:planar_mesh.__init__', 'odak.learn.raytracing.mesh:planar_mesh.init_heights',
    'odak.raytracing.boundary:propagate_parametric_intersection_error',
    'odak.visualize.blender.libblend:set_rotation', 'odak.visualize.blender.libblend:set_location',
    'odak.visualize.blender.libblend:clear_material', 'odak.visualize.blender.libblend:assign_color',
    'odak.visualize.blender.libblend:assign_texture', 'odak.visualize.blender.libblend:create_plane',
    'odak.visualize.blender.libblend:cylinder_between',
}
SLOW_TESTS = {'test_learn_ray_mesh', 'test_wave_propagate_field', 'test_learn_models_multi_layer_perceptron', 'test_learn_ray_render',
              'test_learn_ray_intersect_w_a_sphere', 'test_learn_wave_stochastic_gradient_descent', 'test_learn_lensless_models_spec_track',
              'test_learn_wave_perceptual_multiplane_optimizer', 'test_tools_import_PLY', 'test_learn_wave_multiplane_optimizer',
              'test_learn_ray_detector'}
BROKEN_TESTS = {'test_learn_perception_metameric_loss_optimization', 'test_learn_perception_slice_rgbd_targets',
                'test_learn_wave_compare_beam_propagations', 'test_learn_wave_focal_surface_light_propagation',
                'test_learn_wave_incoherent_focal_stack_rgbd', 'test_learn_wave_propagator', 'test_ColorVideoVDP',
                'test_learn_perception_learned_perceptual_losses', 'test_diffraction_integral'}


class Timeout(Exception):
    pass


def _alarm(signum, frame):
    raise Timeout()


def run_repo_tests(ctx, quick):
    """execute the repository's test scripts in a scratch copy of test/ under the probe"""
    from ..lib.core import REPO
    tmp = tempfile.mkdtemp(prefix='odakverif_c20_')
    ran = 0
    try:
        shutil.copytree(os.path.join(REPO, 'test'), os.path.join(tmp, 'test'))
        old = os.getcwd()
        os.chdir(tmp)
        try:
            for fn in sorted(os.listdir(os.path.join(tmp, 'test'))):
                name = fn[:-3]
                if not (fn.startswith('test_') and fn.endswith('.py')) or name in BROKEN_TESTS or (quick and name in SLOW_TESTS):
                    continue
                spec = importlib.util.spec_from_file_location('odakverif_' + name, os.path.join(tmp, 'test', fn))
                mod = importlib.util.module_from_spec(spec)
                signal.signal(signal.SIGALRM, _alarm)
                signal.alarm(60)
                try:
                    spec.loader.exec_module(mod)
                    for attr in dir(mod):
                        if attr.startswith('test') and callable(getattr(mod, attr)):
                            getattr(mod, attr)()
                    ran += 1
                except (Exception, SystemExit, Timeout):
                    pass
                finally:
                    signal.alarm(0)
        finally:
            os.chdir(old)
    finally:
        shutil.rmtree(tmp, ignore_errors=True)
    return ran


def targeted_calls(ctx):
    """calls with the argument classes the property names: non-default origins, zero sigmas, list-typed parameters, repeated calls"""
    import odak
    import odak.tools as NT
    import odak.learn.tools as LT
    import odak.learn.wave as LW
    import odak.wave as NW
    import odak.raytracing as NR
    import odak.learn.raytracing as LR
    import odak.learn.perception as LP
    rng = ctx.rng
    calls = []
    import random as _random0
    torch.manual_seed(4321); np.random.seed(4321); _random0.seed(4321)      # arguments drawn while the registry is built are the same in every process

    def add(name, f):
        calls.append((name, f))
    pts = np.array([[1.0, 2.0, 3.0], [0.5, -1.0, 2.0]])
    add('rotate_point/origin', lambda: NT.rotate_point(np.array([1.0, 2.0, 3.0]), angles=[10, 20, 30], origin=[1.0, 0.5, 0.2], offset=[1, 1, 1]))
    add('rotate_points/origin', lambda: NT.rotate_points(pts.copy(), angles=[10, 20, 30], origin=[1.0, 0.5, 0.2]))
    add('rotate_points/list', lambda: NT.rotate_points([[1.0, 2.0, 3.0]], angles=[10, 0, 0], origin=[1.0, 0.5, 0.2]))
    add('torch.rotate_points', lambda: LT.rotate_points(torch.tensor(pts), angles=torch.tensor([[10., 20., 30.]]), origin=torch.tensor([[1., 0.5, 0.2]])))
    add('generate_2d_gaussian/zero', lambda: LT.generate_2d_gaussian([5, 5], [0, 0]))
    add('generate_2d_gaussian/zero-float', lambda: LT.generate_2d_gaussian(kernel_length=[7, 7], nsigma=[0.0, 2.0]))
    add('np.generate_2d_gaussian', lambda: NT.generate_2d_gaussian([5, 5], [2, 2]))
    add('blur_gaussian', lambda: LT.blur_gaussian(torch.rand(1, 1, 9, 9), kernel_length=[5, 5], nsigma=[0, 0]))
    ap = torch.rand(6, 3)
    add('point_wise_kernel/randomization', lambda: LW.get_point_wise_impulse_response_fresnel_kernel(
        ap, torch.ones(1, 6, dtype=torch.complex64), torch.rand(16, 3), resolution=[4, 4], distance=0.1, randomization=True))
    add('shell_command', lambda: NT.shell_command(['echo', '~/x'], check=True))
    fld = torch.rand(8, 8, dtype=torch.float64) + 0j
    zp, smp = [True, False, True], [2, 2, 2, 2]
    for ptype in ('Angular Spectrum', 'Bandlimited Angular Spectrum', 'Transfer Function Fresnel', 'Impulse Response Fresnel',
                  'Seperable Impulse Response Fresnel', 'Incoherent Angular Spectrum', 'Fraunhofer'):
        add('propagate_beam/' + ptype, lambda ptype=ptype: LW.propagate_beam(fld, 2 * np.pi / 0.5, 1.0, 1.0, 0.5, propagation_type=ptype,
                                                                              zero_padding=zp, samples=smp))
    for zpc in ([False, False, False], [True, False, False], [False, True, False], [True, True, True]):
        for ptype in ('Angular Spectrum', 'Transfer Function Fresnel'):
            add('propagate_beam/%s/padding %s' % (ptype, zpc), lambda ptype=ptype, zpc=zpc: LW.propagate_beam(fld, 2 * np.pi / 0.5, 1.0, 1.0, 0.5, propagation_type=ptype,
                                                                                                                 zero_padding=zpc))
    # scalar arguments handed over as tensors (a distance taken from a tensor of plane positions), incl. the boundary value 0
    for ptype in ('Angular Spectrum', 'Impulse Response Fresnel', 'Seperable Impulse Response Fresnel', 'Transfer Function Fresnel'):
        for zt in (0.0, 1.0):
            add('propagate_beam/%s/distance as a tensor %g' % (ptype, zt),
                lambda ptype=ptype, zt=zt: LW.propagate_beam(fld, 2 * np.pi / 0.5, torch.tensor(zt), 1.0, 0.5, propagation_type=ptype, zero_padding=[False, False, False], samples=[2, 2, 1, 1]))
    for ptype in ('Bandlimited Angular Spectrum', 'Impulse Response Fresnel'):
        add('get_light_kernels/%s/distances tensor with a 0' % ptype,
            lambda ptype=ptype: LW.get_light_kernels(wavelengths=[0.5], distances=torch.tensor([0.0, 1.0]), pixel_pitches=[1.0], resolution=[6, 6], samples=[2, 2, 1, 1],
                                                     propagation_type=ptype))
        dts, fld6 = torch.tensor([0.0, 1.5]), torch.rand(6, 6) + 0j
        add('propagator/%s/distances tensor with a 0' % ptype,
            lambda ptype=ptype, dts=dts, fld6=fld6: [LW.propagator(resolution=[6, 6], wavelengths=[0.5], pixel_pitch=1.0, number_of_frames=1, number_of_depth_layers=2,
                                                                  propagation_type=ptype, propagator_type='forward', distances=dts,
                                                                  aperture_samples=[2, 2, 1, 1])(fld6, channel_id=0, depth_id=d_).detach().clone() for d_ in (0, 1)])
    nf = np.random.rand(8, 8) + 0j
    for ptype in ('Angular Spectrum', 'Bandlimited Angular Spectrum', 'Transfer Function Fresnel', 'Impulse Response Fresnel', 'Fraunhofer'):
        add('np.propagate_beam/' + ptype, lambda ptype=ptype: NW.propagate_beam(nf, 2 * np.pi / 0.5, 1.0, 1.0, 0.5, ptype))
    add('zero_pad', lambda: LT.zero_pad(torch.rand(6, 6), size=[9, 9]))
    add('crop_center', lambda: LT.crop_center(torch.rand(10, 10), size=[5, 5]))
    add('np.zero_pad', lambda: NT.zero_pad(np.random.rand(5, 5), size=[8, 9]))
    add('np.crop_center', lambda: NT.crop_center(np.random.rand(10, 10), size=[4, 5]))
    zp_in = torch.rand(6, 6)
    add('zero_pad/center', lambda: LT.zero_pad(zp_in, size=[9, 9]))
    add('zero_pad/left', lambda: LT.zero_pad(zp_in, size=[9, 9], method='left'))
    add('zero_pad/default_doubling', lambda: LT.zero_pad(zp_in))
    add('crop_center/after_left', lambda: LT.crop_center(LT.zero_pad(zp_in), size=[6, 6]))
    ml_obj = LW.multiplane_loss(torch.rand(3, 12, 12), torch.rand(12, 12), number_of_planes=3, target_blur_size=5)
    add('multiplane_loss.get_targets', lambda: ml_obj.get_targets())
    add('quantize', lambda: LT.quantize(torch.rand(4, 4), bits=4, limits=[0., 1.]))
    tri = np.array([[0., 0, 1], [1, 0, 1], [0, 1, 1]])
    ray = np.array([[0.1, 0.1, 0.], [0, 0, 1.]])
    add('np.intersect_w_surface', lambda: NR.intersect_w_surface(ray, tri))
    add('np.intersect_w_triangle', lambda: NR.intersect_w_triangle(ray, tri))
    add('np.reflect', lambda: NR.reflect(ray, np.array([[0.1, 0.1, 1.], [0, 0, 1.]])))
    add('np.get_triangle_normal', lambda: NR.get_triangle_normal(tri))
    add('np.create_ray_from_two_points', lambda: NR.create_ray_from_two_points([0, 0, 0], [1, 1, 1]))
    tt, rt = torch.tensor(tri, dtype=torch.float32), torch.tensor(ray, dtype=torch.float32)
    add('intersect_w_triangle', lambda: LR.intersect_w_triangle(rt, tt))
    tt1 = tt.unsqueeze(0).clone()
    add('intersect_w_triangle/1x3x3', lambda: LR.intersect_w_triangle(rt, tt1))
    add('is_it_on_triangle/1x3x3', lambda: __import__('odak.learn.raytracing.primitives', fromlist=['x']).is_it_on_triangle(torch.tensor([[0.2, 0.2, 1.0]]), tt1))
    add('intersect_w_triangle_batch', lambda: LR.intersect_w_triangle_batch(rt.unsqueeze(0), tt.unsqueeze(0)))
    add('reflect', lambda: LR.reflect(rt, torch.tensor([[0.1, 0.1, 1.], [0, 0, 1.]])))
    add('refract', lambda: LR.refract(rt, torch.tensor([[0.1, 0.1, 1.], [0, 0, 1.]]), 1.0, 1.5))
    add('create_ray_from_all_pairs', lambda: LR.create_ray_from_all_pairs(torch.rand(2, 3), torch.rand(3, 3) + 2))
    # single-element batches: `expand` / `repeat` / `reshape` of a one-row tensor are no-ops that return the caller's storage, so an in-place
    # step that is harmless for m > 1 writes into the argument for m = 1 (and a start at the origin would hide a subtraction)
    one_start, ends = torch.tensor([[0.3, -0.2, 0.1]]), torch.rand(5, 3) + 2
    add('create_ray_from_all_pairs/one_start', lambda: LR.create_ray_from_all_pairs(one_start, ends))
    add('create_ray_from_all_pairs/1d', lambda: LR.create_ray_from_all_pairs(one_start[0], ends[0]))
    add('create_ray_from_all_pairs/one_end', lambda: LR.create_ray_from_all_pairs(ends, one_start))
    add('create_ray_from_two_points/one', lambda: LR.create_ray_from_two_points(one_start, ends[:1]))
    add('create_ray_from_two_points/1d', lambda: LR.create_ray_from_two_points(one_start[0], ends[0]))
    add('create_ray/one', lambda: LR.create_ray(one_start, torch.tensor([[30., 60., 90.]])))
    add('propagate_ray/one', lambda: LR.propagate_ray(rt, torch.tensor([2.0])))
    add('torch.rotate_points/one', lambda: LT.rotate_points(one_start, angles=torch.tensor([[10., 20., 30.]]), origin=torch.tensor([[1., 0.5, 0.2]]),
                                                            offset=ends[:1]))
    add('intersect_w_surface/one', lambda: LR.intersect_w_surface(rt.unsqueeze(0), tt))
    add('intersect_w_circle', lambda: LR.intersect_w_circle(rt, [tt, torch.tensor([[0.3, 0.3, 1.0]]), torch.tensor([5.0])]))
    add('luminous_point', lambda: LR.create_ray_from_point_w_luminous_angle(torch.tensor([0., 0, 0]), 5, torch.tensor([10., 0, 0]), 30.))
    add('luminous_grid', lambda: LR.create_ray_from_grid_w_luminous_angle(torch.tensor([0., 0, 0]), [1., 1.], [2, 2], torch.tensor([10., 0, 0]), 3, 30.))
    add('grid_sample', lambda: NT.grid_sample(no=[3, 3], size=[2., 2.], center=[1., 2., 3.], angles=[10., 0., 0.]))
    add('circular_sample', lambda: NT.circular_sample(no=[3, 3], radius=2., center=[1., 2., 3.], angles=[10., 0., 0.]))
    add('box_volume_sample', lambda: NT.box_volume_sample(no=[2, 2, 2], size=[1., 1., 1.], center=[1., 2., 3.], angles=[10., 0., 0.]))
    add('sphere_sample', lambda: NT.sphere_sample(no=[3, 3], radius=1., center=[1., 2., 3.], k=[1, 2]))
    add('learn.grid_sample', lambda: LT.grid_sample(no=[3, 3], size=[2., 2.], center=[1., 2., 3.], angles=[10., 0., 0.]))
    img = torch.rand(1, 3, 32, 32)
    import odak.learn.perception.color_conversion as CC
    for nm in ('rgb_2_ycrcb', 'ycrcb_2_rgb', 'rgb_to_linear_rgb', 'linear_rgb_to_rgb', 'linear_rgb_to_xyz', 'xyz_to_linear_rgb', 'rgb_to_hsv', 'hsv_to_rgb'):
        add('color/' + nm, lambda nm=nm: getattr(CC, nm)(img))
    add('color/srgb_to_lab', lambda: CC.srgb_to_lab(img[0]))
    add('color/lab_to_srgb', lambda: CC.lab_to_srgb(CC.srgb_to_lab(img[0])))
    add('color_map', lambda: CC.color_map(img[0], torch.rand(3, 32, 32)))
    gaze = [0.3, 0.6]
    ml = LP.MetamericLoss(n_pyramid_levels=2, n_orientations=2)
    add('MetamericLoss', lambda: ml(img, torch.rand(1, 3, 32, 32), gaze=gaze))
    mm = LP.MetamerMSELoss(n_pyramid_levels=2, n_orientations=2)
    add('MetamerMSELoss', lambda: mm(img, torch.rand(1, 3, 32, 32), gaze=gaze))
    bl = LP.BlurLoss()
    add('BlurLoss', lambda: bl(img, torch.rand(1, 3, 32, 32), gaze=gaze))
    mu = LP.MetamericLossUniform(n_pyramid_levels=2, n_orientations=2, pooling_size=8)
    add('MetamericLossUniform', lambda: mu(img, torch.rand(1, 3, 32, 32)))
    from odak.learn.perception.spatial_steerable_pyramid import pad_image_for_pyramid
    add('pad_image_for_pyramid', lambda: pad_image_for_pyramid(torch.rand(1, 3, 30, 20), 3))
    from odak.learn.perception.util import slice_rgbd_targets
    add('slice_rgbd_targets', lambda: slice_rgbd_targets(torch.rand(3, 8, 8), torch.rand(1, 8, 8), torch.tensor([0., 0.5, 1.0])))
    add('multiplane_loss', lambda: LW.multiplane_loss(torch.rand(3, 12, 12), torch.rand(12, 12), number_of_planes=3, target_blur_size=5))
    prop = LW.propagator(resolution=[6, 6], wavelengths=[0.5, 0.6], pixel_pitch=1.0, number_of_depth_layers=2, volume_depth=1.0,
                         image_location_offset=0.5, propagation_type='Bandlimited Angular Spectrum', back_and_forth_distance=1.0)
    add('propagator.__call__', lambda: prop(torch.rand(6, 6) + 0j, 0, 1))
    add('propagator.reconstruct', lambda: prop.reconstruct(torch.rand(1, 6, 6)))
    add('gerchberg_saxton', lambda: LW.gerchberg_saxton(torch.rand(8, 8) + 0j, 2, 1.0, 1.0, 0.5))
    add('np.gerchberg_saxton', lambda: NW.gerchberg_saxton(np.random.rand(8, 8) + 0j, 2, 1.0, 1.0, 0.5, np.pi * 2))
    add('stochastic_gradient_descent', lambda: LW.stochastic_gradient_descent(torch.rand(8, 8), 0.5, 1.0, 1.0, n_iteration=2))
    add('shift_w_double_phase', lambda: LW.shift_w_double_phase(torch.rand(8, 8) + 0j, 0.001, 1e-5, 5e-7, sigma=[0, 0]))
    add('set_amplitude', lambda: LW.set_amplitude(torch.rand(4, 4) + 0j, torch.rand(4, 4) + 0j))
    add('np.set_amplitude', lambda: NW.set_amplitude(np.random.rand(4, 4) + 0j, np.random.rand(4, 4) + 0j))
    add('np.add_phase', lambda: NW.add_phase(np.random.rand(4, 4) + 0j, np.random.rand(4, 4)))
    add('produce_phase_only_slm_pattern', lambda: NW.produce_phase_only_slm_pattern(np.random.rand(4, 4) + 0j, 2 * np.pi, bits=8))
    add('histogram_loss', lambda: LT.histogram_loss(torch.rand(1, 1, 8, 8), torch.rand(1, 1, 8, 8), bins=8, limits=[0., 1.]))
    add('total_variation_loss', lambda: LT.total_variation_loss(torch.rand(8, 8)))
    add('convert_bytes', lambda: NT.convert_bytes(123456))
    tmpd = tempfile.mkdtemp(prefix='odakverif_c20b_')
    add('save_image', lambda: NT.save_image(os.path.join(tmpd, 'a.png'), np.random.rand(8, 8, 3) * 255))
    add('learn.save_image', lambda: LT.save_image(os.path.join(tmpd, 'b.png'), torch.rand(3, 8, 8) * 255))
    add('save_dictionary', lambda: NT.save_dictionary({'a': [1, 2]}, os.path.join(tmpd, 'd.json')))
    add('write_to_text_file', lambda: NT.write_to_text_file(['a', 'b '], os.path.join(tmpd, 't.txt')))
    import odak.learn.perception.steerable_pyramid_filters as SPF
    from odak.learn.perception.spatial_steerable_pyramid import SpatialSteerablePyramid
    for ftype in ('full', 'cropped', 'trained'):
        add('get_steerable_pyramid_filters/' + ftype, lambda ftype=ftype: SPF.get_steerable_pyramid_filters(9, 2, ftype))
    add('crop_steerable_pyramid_filters(fresh table)', lambda: SPF.crop_steerable_pyramid_filters(SPF.get_steerable_pyramid_filters(9, 2, 'full'), 5))
    add('SpatialSteerablePyramid/full', lambda: SpatialSteerablePyramid(use_bilinear_downup=False, n_channels=1, filter_size=9, n_orientations=2, filter_type='full').construct_pyramid(
        torch.arange(32 * 32, dtype=torch.float32).reshape(1, 1, 32, 32) / 1024., 2))
    ok = 0
    probe_obj = getattr(ctx, '_probe', None)
    if probe_obj is not None:
        probe_obj.identity = True
    import random as _random
    from ..lib.mutation_probe import snap, same
    differing = []
    kept_results = []           # (name, result object of the first call, its snapshot): must still hold at the very end, after every other call
    reversed_run = bool(os.environ.get('C20_REVERSED_DUMP'))
    if reversed_run:
        calls = calls[::-1]     # the second process: the same registry, last call first
    if os.environ.get('C20_ISOLATED_DUMP'):
        # third process: every registered call ALONE, each in a forked copy of this freshly started process (nothing of the library has run in it): what a
        # call returns when no other library call preceded it.  Single-threaded, so that forking is safe.
        import time as _time
        iso, base = {}, os.environ['C20_ISOLATED_DUMP']
        for idx, (name, f) in enumerate(calls):
            part = '%s.%d' % (base, idx)
            pid_ = os.fork()
            if pid_ == 0:
                try:
                    torch.manual_seed(1234); np.random.seed(1234); _random.seed(1234)
                    torch.save(snap(f()), part)
                except BaseException:
                    pass
                os._exit(0)
            t0_ = _time.time()
            while True:
                done_, _st = os.waitpid(pid_, os.WNOHANG)
                if done_:
                    break
                if _time.time() - t0_ > 180:
                    try:
                        os.kill(pid_, signal.SIGKILL); os.waitpid(pid_, 0)
                    except Exception:
                        pass
                    break
                _time.sleep(0.01)
            if os.path.exists(part):
                try:
                    iso[name] = torch.load(part, weights_only=False)
                except Exception:
                    pass
                os.remove(part)
        torch.save(iso, base)
        shutil.rmtree(tmpd, ignore_errors=True)
        return len(calls), len(iso)
    for name, f in calls:
        first = None
        for rep in range(2):         # a second call with the same arguments must see the same arguments ...
            try:
                torch.manual_seed(1234); np.random.seed(1234); _random.seed(1234)     # ... and, with the same random state, return the same result
                robj = f()
                r = snap(robj)
                ok += 1
            except (Exception, SystemExit):
                break
            if rep == 0:
                first = r
                kept_results.append((name, robj, r, f))
            elif first is not None and not same(first, r):
                differing.append(name)
    if reversed_run:
        torch.save({name: r for name, _, r, _ in kept_results}, os.environ['C20_REVERSED_DUMP'])
        shutil.rmtree(tmpd, ignore_errors=True)
        return len(calls), ok
    ctx._first_results = {name: r for name, _, r, _ in kept_results}
    if probe_obj is not None:
        probe_obj.identity_calls.clear()        # the repeat below runs under the same probe (same re-seeding of random functions) as the first call
    # at the very end, after the calls of every OTHER function: (a) the objects returned by the first calls still hold what they held (a later call of another
    # function must not reach into a value handed out earlier), (b) the same call still returns the same result (no dependence on the calls in between)
    changed_later, order_dependent = [], []
    for name, robj, r0, f in kept_results:
        try:
            if not same(r0, snap(robj)):
                changed_later.append(name)
                continue
            torch.manual_seed(1234); np.random.seed(1234); _random.seed(1234)
            if not same(r0, snap(f())):
                order_dependent.append(name)
        except (Exception, SystemExit):
            pass
    if probe_obj is not None:
        probe_obj.identity = False
    ctx.extra['result_changed_by_later_calls'] = changed_later
    ctx.extra['result_depends_on_calls_in_between'] = order_dependent
    shutil.rmtree(tmpd, ignore_errors=True)
    ctx.extra['repeat_result_differs'] = differing
    return len(calls), ok


def run(ctx):
    from ..lib.mutation_probe import Probe
    from ..translate import effects
    ctx.rule = ('every odak function/method call made by the repository test scripts (quick: the fast ones) and by ~90 targeted calls with '
                'non-default origins, zero sigmas and list-typed parameters, each observed through deep argument snapshots; non-trivial = '
                'a callable that received at least one array/tensor/list argument; distinct by qualified name')
    fns, table, sigma, rho, errors = effects.build()
    predicted = {f.qual: [f.params[j] for j in sigma[i] if j < len(f.params)] for i, (f, k, rv, prog) in enumerate(table) if sigma[i]}
    ctx.extra['ir_functions'] = len(fns)
    ctx.extra['ir_instructions'] = sum(effects.size(p) for _, _, _, p in table)
    ctx.extra['ir_predicted_mutators'] = predicted
    for q in predicted:
        if q not in ALLOWED:
            ctx.alarm('proof', 'effect IR: %s may modify its argument(s) %s and is not a documented in-place function' % (q, predicted[q]))
    probe = Probe()
    ctx._probe = probe
    probe.install()
    import contextlib
    import io
    try:
        with contextlib.redirect_stdout(io.StringIO()), contextlib.redirect_stderr(io.StringIO()):
            n_calls, ok = targeted_calls(ctx)
            ran = run_repo_tests(ctx, ctx.quick)
    finally:
        probe.uninstall()
    ctx.extra['targeted_calls'] = {'registered': n_calls, 'executions_ok': ok}
    # the same registry in a second process, last call first: a registered call returns what it returned in this process, where other calls preceded
    # it (state that one function leaves behind for another one -- a shared cache keyed too coarsely, a mutated default -- shows up in one of the orders)
    import subprocess
    from ..lib.mutation_probe import close as _close
    dump = os.path.join(tempfile.mkdtemp(prefix='odakverif_c20r_'), 'reversed.pt')
    env = dict(os.environ, C20_REVERSED_DUMP=dump, VERIF_SEED=str(ctx.seed))
    env.pop('VERIF_COV_FILE', None)
    try:
        pr = subprocess.run([sys.executable, '-m', 'harness.props.C20'], cwd=os.path.dirname(os.path.dirname(os.path.dirname(os.path.abspath(__file__)))),
                            env=env, capture_output=True, text=True, timeout=1500)
        other = torch.load(dump, weights_only=False) if os.path.exists(dump) else None
    except Exception as e:
        pr, other = None, None
        ctx.note('reversed-order run did not finish: %r' % (e,))
    if other is None:
        ctx.note('reversed-order run produced no results%s' % ((': ' + pr.stderr[-300:]) if pr is not None else ''))
    else:
        mine = getattr(ctx, '_first_results', {})
        ctx.extra['registry_calls_compared_between_orders'] = len(set(mine) & set(other))
        for nm in sorted(set(mine) & set(other)):
            if nm in ORDER_EXEMPT:
                continue
            if not _close(mine[nm], other[nm], rtol=1e-4):
                ctx.violation('%s: the registered call returns another result in a process where the registry runs in reverse order (what the call returns '
                              'depends on which other library calls were made before it)' % nm,
                              {'call': nm, 'how': 'run ./check C20; the registry is executed in a second process last-call-first and the results are compared'},
                              {'fn': nm, 'what': 'order_of_calls_between_processes'})
    shutil.rmtree(os.path.dirname(dump), ignore_errors=True)
    # ... and in a third process every registered call ALONE (forked from a freshly started interpreter): the strongest form of "does not depend on what was
    # called before" that the registry can state - no choice of order can hide a dependence from it
    dump3 = os.path.join(tempfile.mkdtemp(prefix='odakverif_c20i_'), 'isolated.pt')
    env3 = dict(os.environ, C20_ISOLATED_DUMP=dump3, VERIF_SEED=str(ctx.seed), OMP_NUM_THREADS='1', MKL_NUM_THREADS='1')
    env3.pop('VERIF_COV_FILE', None)
    env3.pop('C20_REVERSED_DUMP', None)
    try:
        pr3 = subprocess.run([sys.executable, '-m', 'harness.props.C20'], cwd=os.path.dirname(os.path.dirname(os.path.dirname(os.path.abspath(__file__)))),
                             env=env3, capture_output=True, text=True, timeout=1800)
        alone = torch.load(dump3, weights_only=False) if os.path.exists(dump3) else None
    except Exception as e:
        pr3, alone = None, None
        ctx.note('isolated run did not finish: %r' % (e,))
    if alone is None:
        ctx.note('isolated run produced no results%s' % ((': ' + pr3.stderr[-300:]) if pr3 is not None else ''))
    else:
        mine = getattr(ctx, '_first_results', {})
        ctx.extra['registry_calls_compared_with_isolated_runs'] = len(set(mine) & set(alone))
        for nm in sorted(set(mine) & set(alone)):
            if nm in ORDER_EXEMPT:
                continue
            if not _close(mine[nm], alone[nm], rtol=1e-4):
                ctx.violation('%s: the registered call returns another result when it is the only library call of a process than after the other registered calls '
                              '(what it returns depends on which library calls were made before it)' % nm,
                              {'call': nm, 'how': 'run ./check C20; every registered call is also executed alone in a forked fresh process and the results are compared'},
                              {'fn': nm, 'what': 'order_of_calls_isolated'})
    shutil.rmtree(os.path.dirname(dump3), ignore_errors=True)
    ctx.extra['identity_probed_callables'] = len(probe.identity_calls)
    for q, what in sorted(probe.identity_dependent.items()):
        ctx.violation('%s: %s (hidden state keyed on the identity of an argument)' % (q, what),
                      {'callable': q, 'how': 'run ./check C20; the probe calls the function, multiplies every float argument in place by 1 + 2^-10 (tensors through '
                                             '.data), calls it again with the same objects and once with fresh copies'},
                      {'fn': q, 'what': 'identity_dependent'})
    for q, what in sorted(probe.layout_dependent.items()):
        ctx.violation('%s: %s' % (q, what), {'callable': q, 'how': 'run ./check C20; the probe repeats the call with copies of the arguments whose last two axes are exchanged in memory'},
                      {'fn': q, 'what': 'layout_dependent'})
    for q, what in sorted(probe.setting_dependent.items()):
        ctx.violation('%s: %s' % (q, what), {'callable': q, 'how': 'run ./check C20; the probe repeats the call under torch.set_grad_enabled(False)'}, {'fn': q, 'what': 'setting_dependent'})
    for q, what in sorted(probe.argument_type_dependent.items()):
        ctx.violation('%s: %s' % (q, what), {'callable': q, 'how': 'run ./check C20; the probe repeats the call with one argument handed over in another ordinary type'},
                      {'fn': q, 'what': 'argument_type_dependent'})
    for q, what in sorted(probe.result_owned_by_library.items()):
        if q in ALLOWED:
            continue
        ctx.violation('%s: %s' % (q, what), {'callable': q, 'how': 'run ./check C20; the probe scales the returned object in place and repeats the call'},
                      {'fn': q, 'what': 'result_owned_by_library'})
    for q, what in sorted(probe.result_changed_later.items()):
        if q in ALLOWED:
            continue
        ctx.violation('%s: %s (the result aliases internal state or an argument)' % (q, what),
                      {'callable': q, 'how': 'run ./check C20; the probe keeps the first result, calls again with updated arguments and compares the kept object with its snapshot'},
                      {'fn': q, 'what': 'result_changed_later'})
    for nm in ctx.extra.get('result_changed_by_later_calls', []):
        ctx.violation('%s: the value it returned was changed by later calls of other library functions (it shares storage with library state)' % nm,
                      {'call': nm, 'how': 'run ./check C20; the result object of the first registered call is compared with its snapshot after all other registered calls'},
                      {'fn': nm, 'what': 'result_changed_by_later_calls'})
    for nm in ctx.extra.get('result_depends_on_calls_in_between', []):
        ctx.violation('%s: the same call returns a different result after the other registered calls have run (dependence on the order of calls)' % nm,
                      {'call': nm, 'how': 'run ./check C20; registered call %r is repeated at the end of the registry with the same random state' % nm},
                      {'fn': nm, 'what': 'order_of_calls'})
    for nm in ctx.extra.get('repeat_result_differs', []):
        ctx.violation('%s: a second call with the same arguments (and the same random state) returns a different result' % nm,
                      {'call': nm, 'how': 'run ./check C20; registered call %r is executed twice with torch / numpy / random seeded identically' % nm},
                      {'fn': nm, 'what': 'repeat_result'})
    ctx.extra['repo_test_scripts_run'] = ran
    ctx.extra['callables_observed'] = len(probe.calls)
    names = {f.qual for f in fns}
    for q, cnt in sorted(probe.calls.items()):
        ctx.case(q, True, {'callable': q, 'calls': cnt} if len(ctx.samples) < 6 else None)
        ctx.evaluations += cnt - 1
    ctx.count('observed_callables', len(probe.calls))
    ctx.count('observed_calls', sum(probe.calls.values()))
    unknown = [q for q in probe.calls if q not in names]
    if unknown:
        ctx.note('%d observed callables are not in the IR table (e.g. %s)' % (len(unknown), unknown[:3]))
    for (q, param), what in sorted(probe.mutated.items()):
        rec = {'callable': q, 'parameter': param, 'how': 'run ./check C20; the probe observed the argument change during the registered calls'}
        pred = param in predicted.get(q, [])
        if q in ALLOWED:
            continue
        if not pred:
            ctx.alarm('correspondence', 'observed but not predicted: %s modified its argument %r (the effect translator is unsound here)' % (q, param))
        ctx.violation('%s modifies the caller\'s argument %r' % (q, param), rec, {'fn': q, 'param': param, 'what': 'argument_mutated'})
    for q, what in sorted(probe.default_mutated.items()):
        ctx.violation('%s modifies its own default arguments' % q, {'callable': q}, {'fn': q, 'what': 'default_mutated'})


def replay(ctx, rep):
    print('C20 replays are re-observations: run ./check C20 (the probe reports %s)' % rep.get('what'))
    return True


ORDER_EXEMPT = set()          # registered calls whose result legitimately depends on earlier calls (none)


if __name__ == '__main__' and (os.environ.get('C20_REVERSED_DUMP') or os.environ.get('C20_ISOLATED_DUMP')):
    if os.environ.get('C20_ISOLATED_DUMP'):
        torch.set_num_threads(1)
    # second process of the order-of-calls comparison: same probe, same registry, reversed order; writes the snapshots of the first results
    from ..lib import core as _core
    from ..lib.mutation_probe import Probe as _Probe
    _repo = os.environ.get('ODAK_REPO', '/repo')
    sys.path.insert(0, _repo)
    import contextlib as _cl
    import io as _io
    _ctx = _core.Ctx('C20', 'quick', int(os.environ.get('VERIF_SEED', '0') or 0))
    _p = _Probe()
    _ctx._probe = _p
    _p.install()
    try:
        with _cl.redirect_stdout(_io.StringIO()), _cl.redirect_stderr(_io.StringIO()):
            targeted_calls(_ctx)
    finally:
        _p.uninstall()
