"""Executable tie of lean/OdakModel/Generated/ImageCodec.lean (the output of harness/translate/imagecodec.py): the regenerated tensor
programs of `save_image` / `load_image` (NumPy and torch) are evaluated at Float by the driver (lean/OdakModel/Exec/OpsGenImageCodec.lean,
op `ic`) on whole images and compared with the real functions of /repo run through the real file system:

  savers   the array the real function hands to `cv2.imwrite` is CAPTURED (cv2.imwrite is wrapped for the duration of the call and still
           writes the file) and compared, dtype class / shape / every element, with the regenerated program; what `cv2.imread(…,
           IMREAD_UNCHANGED)` then returns is compared with `pngRoundTrip` of it (the one fact assumed about the codec)
  loaders  the file is read with `cv2.imread(…, IMREAD_UNCHANGED)` here, the regenerated program is run on that array and compared with what
           the real `load_image(fn, normalizeby, torch_style)` returns (shape and every element)

Images: 1 channel `[m x n]` and `[m x n x 1]`, 3 and 4 channels, torch `[c x m x n]`, `[1 x c x m x n]`, channels-last and rank-2 tensors
handed to the torch saver, the shape `[3 x n x 3]` the `argmin` test reads as channels-first; 8 and 16 bit, another depth (no cast), integer
levels and mid-level values (whose stored level does not depend on float32 rounding), values outside the clip range, cmin > 0.
A disagreement is a broken correspondence (translator or tensor semantics), reported as an alarm, never as a violation."""
import logging
import os
import shutil
import tempfile
import warnings
import numpy as np
import torch
from ..lib.core import f2b, b2f

logging.disable(logging.WARNING)
warnings.filterwarnings('ignore')


def line(fn, k, a, b, arr):
    x = np.asarray(arr, dtype=np.float64)
    toks = [str(fn), str(int(k)), str(f2b(float(a))), str(f2b(float(b))), str(x.ndim)] + [str(int(s)) for s in x.shape]
    toks += [str(f2b(float(v))) for v in x.reshape(-1)]
    return 'ic ' + ' '.join(toks)


def parse(out):
    toks = out.split()
    ok = toks[0] == '1'
    r = int(toks[1])
    shape = [int(t) for t in toks[2:2 + r]]
    data = np.array([b2f(t) for t in toks[2 + r:]], dtype=np.float64)
    if data.size != (int(np.prod(shape)) if shape else 1):
        raise ValueError('element count')
    return ok, data.reshape(shape)


def png_round_trip(a):
    return a[:, :, 0] if a.ndim == 3 and a.shape[2] == 1 else a


def make_image(rng, shape, depth, cmin, cmax, kind):
    """float32-representable values: integer levels, or mid-level values (k + 0.5 levels), with a few samples outside [cmin, cmax]"""
    n = int(np.prod(shape))
    top = 2 ** depth - 1
    ks = np.array([rng.randrange(0, top + 1) for _ in range(n)], dtype=np.float64)
    if kind == 'levels':
        v = ks / top * cmax
        if cmax != top:
            v = (np.minimum(ks, top - 1) + 0.5) / top * cmax
    else:
        v = (np.minimum(ks, top - 1) + 0.5) / top * cmax
    for _ in range(max(1, n // 6)):
        v[rng.randrange(n)] = rng.choice([cmax * 1.5, cmax + 1.0, -3.0 if cmin >= 0 else cmin - 1.0, cmin - 0.25 if cmin > 0 else -0.5])
    return v.astype(np.float32).astype(np.float64).reshape(shape)


def check_generated_imagecodec(ctx):
    import cv2
    import odak.tools as NT
    import odak.learn.tools as LT
    rng = ctx.rng
    tmp = tempfile.mkdtemp(prefix='odakverif_c19gen_')
    items = []        # (tag, driver line, kind, expected, record)
    try:
        captured = []
        real_imwrite = cv2.imwrite

        def spy(path, arr, *a, **k):
            captured.append(np.array(arr, copy=True))
            if np.asarray(arr).dtype.kind == 'f':        # an uncast float array: cv2 would warn and fall back to 8 bit; nothing is read back
                return True
            return real_imwrite(path, arr, *a, **k)

        def save_case(api, img, cmin, cmax, depth, layout, no):
            fn = os.path.join(tmp, 's%d.png' % no)
            rec = {'api': api, 'fn': 'save_image', 'layout': layout, 'shape': list(img.shape), 'cmin': cmin, 'cmax': cmax, 'depth': depth}
            del captured[:]
            cv2.imwrite = spy
            try:
                if api == 'numpy':
                    NT.save_image(fn, img.astype(np.float32), cmin=cmin, cmax=cmax, color_depth=depth)
                else:
                    LT.save_image(fn, torch.from_numpy(img.astype(np.float32)), cmin=cmin, cmax=cmax, color_depth=depth)
            except Exception as e:
                ctx.count('generated/%s save_image rejected by Python (%s)' % (api, layout))
                return None
            finally:
                cv2.imwrite = real_imwrite
            if len(captured) != 1:
                ctx.alarm('correspondence', 'save_image called cv2.imwrite %d times (%s)' % (len(captured), rec))
                return None
            back = cv2.imread(fn, cv2.IMREAD_UNCHANGED) if depth in (8, 16) else None
            items.append(('%s save_image %s' % (api, layout), line(0 if api == 'numpy' else 1, depth, cmin, cmax, img), 'save',
                          (captured[0], back, depth), rec))
            ctx.case(('gen-codec', api, 'save', layout, tuple(img.shape), cmin, cmax, depth), True)
            ctx.count('generated/%s save_image %s %d bit' % (api, layout, depth))
            return fn

        def load_case(api, fn, nb, ts, layout):
            stored = cv2.imread(fn, cv2.IMREAD_UNCHANGED)
            rec = {'api': api, 'fn': 'load_image', 'layout': layout, 'stored_shape': list(stored.shape), 'normalizeby': nb, 'torch_style': ts}
            got = NT.load_image(fn, normalizeby=nb, torch_style=ts) if api == 'numpy' else LT.load_image(fn, normalizeby=nb, torch_style=ts).numpy()
            items.append(('%s load_image %s' % (api, layout), line(2 if api == 'numpy' else 3, 1 if ts else 0, nb, 0.0, stored), 'load',
                          (np.asarray(got, dtype=np.float64), 1e-12 if api == 'numpy' else 1e-6), rec))
            ctx.case(('gen-codec', api, 'load', layout, tuple(stored.shape), nb, ts), True)
            ctx.count('generated/%s load_image %s' % (api, layout))

        no = 0
        reps = ctx.n(2, 8)
        for _ in range(reps):
            for depth in (8, 16):
                top = 2 ** depth - 1
                for (cmin, cmax, kind) in ((0, top, 'levels'), (0, 1.0, 'mid'), (round(0.1 * top) + 0.5, top, 'mid'), (0, top * 0.5, 'mid')):
                    h, w = rng.choice([(4, 5), (5, 4), (6, 7), (3, 8)])
                    np_lays = [('[m x n]', (h, w)), ('[m x n x 1]', (h, w, 1)), ('[m x n x 3]', (h, w, 3)), ('[m x n x 4]', (h, w, 4))]
                    t_lays = [('[m x n]', (h, w)), ('[1 x m x n]', (1, h, w)), ('[3 x m x n]', (3, h, w)), ('[4 x m x n]', (4, h + 1, w + 1)),
                              ('[1 x 3 x m x n]', (1, 3, h, w)), ('[m x n x 3] channels last', (h + 1, w, 3)),
                              ('[3 x n x 3] read as channels first', (3, w, 3))]
                    for lname, shape in np_lays:
                        no += 1
                        fn = save_case('numpy', make_image(rng, shape, depth, cmin, cmax, kind), cmin, cmax, depth, lname, no)
                        if fn is not None and cmin == 0:
                            for nb, ts in ((0., False), (0., True), (float(top), False), (3.0, True)):
                                load_case('numpy', fn, nb, ts, lname)
                                load_case('torch', fn, nb, ts, lname)
                    for lname, shape in t_lays:
                        no += 1
                        fn = save_case('torch', make_image(rng, shape, depth, cmin, cmax, kind), cmin, cmax, depth, lname, no)
                        if fn is not None and cmin == 0 and kind == 'levels':
                            load_case('torch', fn, 0., True, lname + ' saved by torch')
        # a bit depth that is neither 8 nor 16: the source does not cast (the array handed to the codec is float32)
        no += 1
        save_case('numpy', make_image(rng, (4, 5), 10, 0, 1023, 'mid'), 0, 1023, 10, '[m x n] depth 10 (no cast)', no)
        # a negative cmin: a negative value reaches the unsigned cast - the regenerated program flags it
        no += 1
        save_case('numpy', make_image(rng, (4, 5), 8, -10.0, 255, 'mid'), -10.0, 255, 8, '[m x n] negative cmin (cast flagged)', no)
        if not (ctx.drv_ok and items):
            return
        outs = ctx.model.ask([it[1] for it in items])
        bad = 0
        for (tag, _, kind, exp, rec), out in zip(items, outs):
            msg = None
            try:
                ok, got = parse(out)
                if kind == 'save':
                    cap, back, depth = exp
                    if not ok:
                        ctx.count('generated/cast of a value outside the unsigned range (flagged by the regenerated program, not compared)')
                        if cap.astype(np.float64).min() >= 0 and (np.asarray(rec['cmin']) >= 0):
                            msg = 'the regenerated program flags an out-of-range cast, the implementation has none'
                    elif list(got.shape) != list(cap.shape):
                        msg = 'shape handed to cv2.imwrite: implementation %s vs regenerated program %s' % (list(cap.shape), list(got.shape))
                    elif depth in (8, 16):
                        if cap.dtype != (np.uint8 if depth == 8 else np.uint16):
                            msg = 'dtype handed to cv2.imwrite is %s' % cap.dtype
                        elif not np.array_equal(got, cap.astype(np.float64)):
                            msg = 'levels differ at %d samples' % int((got != cap.astype(np.float64)).sum())
                        elif back is None or list(back.shape) != list(png_round_trip(got).shape) or \
                                not np.array_equal(back.astype(np.float64), png_round_trip(got)):
                            msg = 'cv2.imread does not return what pngRoundTrip says (shape %s)' % (None if back is None else list(back.shape))
                    else:
                        if cap.dtype.kind != 'f' or not np.allclose(got, cap.astype(np.float64), rtol=1e-5, atol=1e-3):
                            msg = 'uncast array differs (dtype %s)' % cap.dtype
                else:
                    want, tol = exp
                    if list(got.shape) != list(want.shape):
                        msg = 'shape: implementation %s vs regenerated program %s' % (list(want.shape), list(got.shape))
                    elif not np.allclose(got, want, rtol=tol, atol=0):
                        msg = 'values differ by %g' % float(np.max(np.abs(got - want)))
            except (ValueError, IndexError) as e:
                msg = 'driver answer unreadable (%s): %s' % (e, out[:80])
            if msg is not None:
                bad += 1
                if bad <= 5:
                    ctx.alarm('correspondence', 'regenerated tensor program %s: %s (%s)' % (tag, msg, rec))
        ctx.extra.setdefault('generated_definitions_checked', sorted(set(it[0] for it in items)))
    finally:
        shutil.rmtree(tmp, ignore_errors=True)
