"""Executable tie of lean/OdakModel/Generated/Samplers.lean (the output of harness/translate/samplers.py): every generated
definition is evaluated at Float by the driver (lean/OdakModel/Exec/OpsGenSamp.lean), ALL rows of the returned array, and compared
with the real function of /repo: non-square `no`, centres with three distinct coordinates, tilts (and the all-zero tilt that takes
the early return of NumPy rotate_points), start / end point lists of different lengths, luminous cones with the uniform variates
replayed through torch's seeded RNG.  A disagreement is a broken correspondence (translator or model), reported as an alarm."""
import logging
import warnings
import numpy as np
import torch
from ..lib.core import f2b, b2f

logging.disable(logging.WARNING)
warnings.filterwarnings('ignore')


def fl(xs):
    return ' '.join(str(f2b(float(x))) for x in np.asarray(xs, dtype=np.float64).reshape(-1))


def check_generated_samplers(ctx):
    import odak.tools as NT
    import odak.learn.tools as LT
    import odak.learn.raytracing as LR
    rng = ctx.rng
    items = []           # (tag, driver line, implementation rows [N x w], tolerance, record)

    def add(tag, line, want, tol, rec):
        items.append((tag, line, np.asarray(want, dtype=np.float64), tol, rec))
        ctx.case(('gen', tag, line[:80]), True)
        ctx.count('generated/' + tag)

    for it in range(ctx.n(10, 80)):
        center = [rng.uniform(-5, 5), rng.uniform(6, 9), rng.uniform(-20, -10)]          # three distinct coordinates
        angles = [rng.uniform(-180, 180) for _ in range(3)] if it % 4 else [0.0, 0.0, 0.0]
        if it % 4 == 1:
            angles[rng.randrange(3)] = 0.0
        zero = int(all(a == 0 for a in angles))
        no = [rng.randint(2, 5), rng.randint(2, 5)]
        if no[0] == no[1]:
            no[1] += 1                                                                  # non-square
        size = [rng.uniform(0.5, 20), rng.uniform(0.5, 20)]
        rec = {'no': no, 'size': size, 'center': center, 'angles': angles}
        add('grid_sample numpy', 'gs_grid 0 %d %d %s %s %s %d' % (no[0], no[1], fl(size), fl(center), fl(angles), zero),
            NT.grid_sample(no=no, size=size, center=center, angles=angles), 1e-9 * 30, rec)
        gt, *_ = LT.grid_sample(no=no, size=size, center=center, angles=angles)
        add('grid_sample torch', 'gs_grid 1 %d %d %s %s %s 0' % (no[0], no[1], fl(size), fl(center), fl(angles)),
            gt.numpy(), 2e-4, rec)
        no3 = [rng.randint(1, 3), rng.randint(2, 4), rng.randint(1, 3)]
        size3 = [rng.uniform(0.5, 10) for _ in range(3)]
        add('box_volume_sample', 'gs_box %d %d %d %s %s %s %d' % (no3[0], no3[1], no3[2], fl(size3), fl(center), fl(angles), zero),
            NT.box_volume_sample(no=no3, size=size3, center=center, angles=angles), 1e-9 * 30, dict(rec, no=no3, size=size3))
        noc = [rng.randint(1, 6), rng.randint(1, 6)]
        if noc[0] == noc[1]:
            noc[0] += 1
        radius = rng.uniform(0.5, 10)
        add('circular_sample', 'gs_circ %d %d %d %s %s %d' % (noc[0], noc[1], f2b(radius), fl(center), fl(angles), zero),
            NT.circular_sample(no=noc, radius=radius, center=center, angles=angles), 1e-9 * 30, dict(rec, no=noc, radius=radius))
        k = [rng.choice([1, 1.0, 0.5]), rng.choice([2, 2.0, 1.5])]
        add('sphere_sample', 'gs_sphere 0 %d %d %d %s %s' % (noc[0], noc[1], f2b(radius), fl(center), fl(k)),
            NT.sphere_sample(no=noc, radius=radius, center=center, k=k), 1e-9 * 30, dict(rec, no=noc, radius=radius, k=k))
        nu = rng.randint(1, 6)
        add('sphere_sample_uniform', 'gs_sphere 1 %d %d %d %s %s' % (nu, nu, f2b(radius), fl(center), fl(k)),
            NT.sphere_sample_uniform(no=[nu, nu], radius=radius, center=center, k=k), 1e-9 * 30, dict(rec, no=[nu, nu], radius=radius, k=k))
        # all pairs: different numbers of start and end points, one coincident pair now and then
        m, n = rng.randint(1, 4), rng.randint(1, 4)
        if m == n:
            n += 1
        a = np.array([[rng.uniform(-3, 3) for _ in range(3)] for _ in range(m)])
        b = np.array([[rng.uniform(-3, 3) for _ in range(3)] for _ in range(n)]) + 10.0
        if it % 5 == 0:
            b[n - 1] = a[0]
        rays = LR.create_ray_from_all_pairs(torch.tensor(a, dtype=torch.float64), torch.tensor(b, dtype=torch.float64))
        add('create_ray_from_all_pairs', 'gs_pairs %d %d %s %s' % (m, n, fl(a), fl(b)), rays.numpy().reshape(m * n, 6), 1e-5,
            {'m': m, 'n': n, 'starts': a.tolist(), 'ends': b.tolist()})
        # luminous cones: the two torch.rand calls are replayed under the same seed
        tilt = [rng.uniform(-180, 180) for _ in range(3)]
        limit = rng.choice([0.0, 5.0, 30.0, 90.0, 120.0, 179.0, rng.uniform(0, 180)])
        num = rng.choice([1, 3, 7])
        seed = rng.randrange(10 ** 6)
        origin = [rng.uniform(-3, 3) for _ in range(3)]
        torch.manual_seed(seed)
        rays = LR.create_ray_from_point_w_luminous_angle(torch.tensor(origin), num, torch.tensor(tilt), limit)
        torch.manual_seed(seed)
        U, V = torch.rand(num).numpy().astype(np.float64), torch.rand(num).numpy().astype(np.float64)
        rec = {'tilt': tilt, 'limit': limit, 'num': num, 'seed': seed, 'origin': origin}
        add('create_ray_from_point_w_luminous_angle', 'gs_lum_point %s %d %s %d %s %s' % (fl(origin), num, fl(tilt), f2b(limit), fl(U), fl(V)),
            rays.numpy().reshape(num, 6), 2e-3, rec)
        gno = [rng.randint(1, 3), rng.randint(2, 4)]
        if gno[0] == gno[1]:
            gno[1] += 1
        gsize = [rng.uniform(0.5, 4), rng.uniform(0.5, 4)]
        torch.manual_seed(seed)
        rays = LR.create_ray_from_grid_w_luminous_angle(torch.tensor(origin), gsize, gno, torch.tensor(tilt), num, limit)
        torch.manual_seed(seed)
        N = num * gno[0] * gno[1]
        U, V = torch.rand(N).numpy().astype(np.float64), torch.rand(N).numpy().astype(np.float64)
        add('create_ray_from_grid_w_luminous_angle',
            'gs_lum_grid %s %s %d %d %s %d %d %s %s' % (fl(origin), fl(gsize), gno[0], gno[1], fl(tilt), num, f2b(limit), fl(U), fl(V)),
            rays.numpy().reshape(N, 6), 2e-3, dict(rec, no=gno, size=gsize))
    if ctx.drv_ok and items:
        outs = ctx.model.ask([it[1] for it in items])
        bad = 0
        for (tag, line, want, tol, rec), out in zip(items, outs):
            try:
                got = np.array([b2f(t) for t in out.split()], dtype=np.float64)
            except ValueError:
                got = np.array([])
            ok = got.size == want.size          # the generated row count is the implementation's row count
            if ok:
                got = got.reshape(want.shape)
                fin = np.isfinite(want)
                ok = np.array_equal(np.isfinite(got), fin) and bool(np.all(np.abs(got[fin] - want[fin]) <= tol))
            if not ok:
                bad += 1
                if bad <= 5:
                    ctx.alarm('correspondence', 'generated %s: implementation %s vs regenerated definition %s (%s)'
                              % (tag, np.round(want, 6).tolist()[:4], np.round(got, 6).tolist()[:4] if got.size else out[:80], rec))
    ctx.extra.setdefault('generated_definitions_checked', [])
    ctx.extra['generated_definitions_checked'] = sorted(set(ctx.extra['generated_definitions_checked']) | set(it[0] for it in items))
