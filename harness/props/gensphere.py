"""Executable tie of lean/OdakModel/Generated/SphereSearch.lean + lean/OdakModel/SphereSearch.lean (the torch ray-sphere search
`odak.learn.raytracing.intersect_w_sphere`: regenerated residual / loss / flag / returned ray, hand-written loop, gradient and AdamW step)
with the real function:

  trajectory  the (distance, gradient) pair the optimiser sees at EVERY pass of the real loop - observed by substituting a recording
              subclass for `torch.optim.AdamW` while the real function runs, float64 (torch default dtype switched for the call) -
              against the driver op `gs_traj`; single rays and a batch (the rays of a batch do not interact)
  result      check / distance / propagated ray / normal of the real function against `gs_search` for several step counts and
              thresholds (both flag values), `number_of_steps = 0` (Python raises UnboundLocalError <-> model `unbound`), and the
              conclusion of theorem C12_sphere_search_flag on the implementation: `check` is the threshold test on the residual at the
              distance BEFORE the last update
  float32     the same through the watchdog worker (`sphere_torch`, float32 tensors as a caller would pass): flag and distance
  defaults    learning_rate / number_of_steps / error_threshold of the signature against `gs_defaults`
A disagreement is a broken correspondence (translator or model), reported as an alarm."""
import inspect
import logging
import warnings
import numpy as np
import torch
from ..lib.core import f2b, b2f

logging.disable(logging.WARNING)
warnings.filterwarnings('ignore')


def fl(xs):
    return ' '.join(str(f2b(float(x))) for x in xs)


def run_real(rays, sph, lr, steps, thr):
    """the real function in float64 with a recording optimiser; returns (trajectory [steps, m, 2], check, distance, hit rays, normals) or 'unbound'"""
    import odak.learn.raytracing as LR
    rec = []
    Orig = torch.optim.AdamW

    class Recording(Orig):
        def step(self, *a, **k):
            p = self.param_groups[0]['params'][0]
            rec.append(np.stack([p.detach().clone().numpy().astype(np.float64), p.grad.detach().clone().numpy().astype(np.float64)], axis=-1))
            return super().step(*a, **k)
    old = torch.get_default_dtype()
    torch.set_default_dtype(torch.float64)
    torch.optim.AdamW = Recording
    try:
        r, n, d, c = LR.intersect_w_sphere(torch.tensor(rays, dtype=torch.float64), torch.tensor(sph, dtype=torch.float64),
                                           learning_rate=lr, number_of_steps=steps, error_threshold=thr)
    except UnboundLocalError:
        return 'unbound'
    finally:
        torch.optim.AdamW = Orig
        torch.set_default_dtype(old)
    return (np.array(rec), c.detach().numpy().astype(bool).reshape(-1), d.detach().numpy().astype(np.float64).reshape(-1),
            r.detach().numpy().astype(np.float64).reshape(-1, 2, 3), n.detach().numpy().astype(np.float64).reshape(-1, 2, 3))


def check_generated_sphere(ctx, wd=None):
    import odak.learn.raytracing as LR
    rng = ctx.rng
    bad = [0]

    def alarm(msg):
        bad[0] += 1
        if bad[0] <= 6:
            ctx.alarm('correspondence', msg)
    if not ctx.drv_ok:
        return
    sph = [0.0, 0.0, 10.0, 3.0]
    cases = [('hit', [[0, 0, 0], [0, 0, 1.0]], sph), ('oblique_hit', [[0.5, -1.0, 0], [0.1, 0.2, 0.97]], sph),
             ('miss_symmetric', [[0, 0, 0], [1.0, 0, 0]], sph), ('miss_offset', [[10.0, 0, 0], [0, 0, 1.0]], sph),
             ('grazing', [[3.0, 0, 0], [0, 0, 1.0]], sph), ('inside', [[0, 0, 10.0], [0, 0, 1.0]], sph),
             ('pointing_away', [[0, 0, 0], [0, 0, -1.0]], sph), ('zero_direction', [[1.0, 2.0, 3.0], [0, 0, 0]], sph),
             ('not_unit_direction', [[0, 0, 0], [0, 0.3, 2.5]], sph), ('on_the_sphere', [[0, 0, 7.0], [0, 0, 1.0]], sph)]
    for _ in range(ctx.n(4, 30)):
        c = [rng.uniform(-1, 1), rng.uniform(-1, 1), rng.uniform(4, 9), rng.uniform(0.5, 3)]
        o = [rng.uniform(-2, 2) for _ in range(3)]
        d = np.array([rng.gauss(0, 0.4), rng.gauss(0, 0.4), 1.0])
        d = (d / np.linalg.norm(d)).tolist()
        cases.append(('random', [o, d], c))
    # ---------------------------------------------------------------- defaults
    sig = inspect.signature(LR.intersect_w_sphere).parameters
    want = (float(sig['learning_rate'].default), float(sig['error_threshold'].default), int(sig['number_of_steps'].default))
    tok = ctx.model.ask(['gs_defaults'])[0].split()
    if (b2f(tok[0]), b2f(tok[1]), int(tok[2])) != want:
        alarm('intersect_w_sphere defaults %s vs regenerated %s' % (want, (b2f(tok[0]), b2f(tok[1]), int(tok[2]))))
    # ---------------------------------------------------------------- trajectories and results, float64
    for name, ray, sp in cases:
        lr = rng.choice([0.2, 0.2, 0.05, 0.7])
        steps = rng.choice([40, 75]) if ctx.quick else rng.choice([40, 75, 300])
        thr = rng.choice([1e-2, 1.0, 30.0, 95.0])
        rec = {'kind': 'sphere_torch', 'name': name, 'rays': [ray], 'sphere': sp, 'steps': steps, 'lr': lr, 'threshold': thr}
        real = run_real([ray], sp, lr, steps, thr)
        ctx.case(('sphere_search_model', name, tuple(ray[1]), steps, lr), True, rec if name == 'hit' else None)
        ctx.count('sphere_search_model/' + name)
        if real != 'unbound':
            ctx.count('sphere_search_model/flag %s' % bool(real[1][0]))
        args = '%s %s %d' % (fl(ray[0] + ray[1]), fl(sp), f2b(lr))
        mt, ms = ctx.model.ask(['gs_traj %s %d' % (args, steps), 'gs_search %s %d %d' % (args, f2b(thr), steps)])
        if real == 'unbound':
            alarm('intersect_w_sphere raised UnboundLocalError for %s' % rec)
            continue
        traj, chk, dist, hit, nrm = real
        mo = np.array([b2f(t) for t in mt.split()]).reshape(-1, 2)
        py = traj[:, 0, :]
        if mo.shape != py.shape or not np.all(np.abs(mo - py) <= 1e-9 * np.maximum(1.0, np.abs(py))):
            k = int(np.argmax(np.abs(mo - py).sum(axis=1))) if mo.shape == py.shape else -1
            alarm('intersect_w_sphere: (distance, gradient) seen by the optimiser at pass %d is %s, model %s (%s)'
                  % (k, py[k].tolist() if k >= 0 else py.shape, mo[k].tolist() if k >= 0 else mo.shape, rec))
            continue
        tok = ms.split()
        if tok[0] != '0' or int(tok[2]) != steps or len(traj) != steps:
            alarm('intersect_w_sphere made %d optimiser steps, model %s (%s)' % (len(traj), tok[:3], rec))
            continue
        md = b2f(tok[3])
        mhit = np.array([b2f(t) for t in tok[4:10]]).reshape(2, 3)
        mnrm = np.array([b2f(t) for t in tok[10:16]]).reshape(2, 3)
        # the residual the flag was computed from: at the distance the optimiser saw in the LAST pass
        resid_before = b2f(ctx.model.ask(['gs_point %s %s %d' % (fl(ray[0] + ray[1]), fl(sp), f2b(py[-1, 0]))])[0].split()[0])
        near = abs(resid_before - thr) <= 1e-9 * max(1.0, thr)
        if not near and bool(chk[0]) != (resid_before < thr):
            ctx.violation('torch intersect_w_sphere: check = %s but the residual at the distance before the last update is %g, threshold %g'
                          % (bool(chk[0]), resid_before, thr), rec, {'fn': 'intersect_w_sphere', 'api': 'torch', 'what': 'flag_vs_residual', 'case': name})
        if not near and bool(chk[0]) != (tok[1] == '1'):
            alarm('intersect_w_sphere check %s vs model %s (%s)' % (bool(chk[0]), tok[1], rec))
        if abs(md - dist[0]) > 1e-9 * max(1.0, abs(md)):
            alarm('intersect_w_sphere distance %r vs model %r (%s)' % (float(dist[0]), md, rec))
        if chk[0]:
            ok = np.all(np.abs(hit[0] - mhit) <= 1e-9 * max(1.0, float(np.max(np.abs(mhit)))))
            fin = np.isfinite(mnrm) & np.isfinite(nrm[0])
            ok = ok and np.array_equal(np.isfinite(mnrm), np.isfinite(nrm[0])) and np.all(np.abs(nrm[0] - mnrm)[fin] <= 1e-9 * 10)
            if not ok:
                alarm('intersect_w_sphere returned ray %s normal %s vs model %s %s (%s)' % (hit[0].tolist(), nrm[0].tolist(), mhit.tolist(), mnrm.tolist(), rec))
    # a batch: every ray of the batch follows the trajectory it follows alone
    batch = [c for c in cases if c[2] == sph][:6]
    real = run_real([c[1] for c in batch], sph, 0.2, 30, 1e-2)
    ctx.case(('sphere_search_model', 'batch', len(batch)), True)
    ctx.count('sphere_search_model/batch of %d rays' % len(batch))
    if real == 'unbound':
        alarm('intersect_w_sphere raised UnboundLocalError for a batch')
    else:
        outs = ctx.model.ask(['gs_traj %s %s %d 30' % (fl(c[1][0] + c[1][1]), fl(sph), f2b(0.2)) for c in batch])
        for k, (c, o) in enumerate(zip(batch, outs)):
            mo = np.array([b2f(t) for t in o.split()]).reshape(-1, 2)
            py = real[0][:, k, :]
            if mo.shape != py.shape or not np.all(np.abs(mo - py) <= 1e-9 * np.maximum(1.0, np.abs(py))):
                alarm('intersect_w_sphere on a batch: ray %d (%s) does not follow its single-ray trajectory' % (k, c[0]))
    # number_of_steps = 0, 1
    r0 = run_real([cases[0][1]], sph, 0.2, 0, 1e-2)
    m0 = ctx.model.ask(['gs_search %s %s %d %d 0' % (fl(cases[0][1][0] + cases[0][1][1]), fl(sph), f2b(0.2), f2b(1e-2))])[0].split()
    ctx.case(('sphere_search_model', 'zero_steps'), True)
    ctx.count('sphere_search_model/number_of_steps = 0 (UnboundLocalError <-> unbound)')
    if (r0 == 'unbound') != (m0[0] == '1'):
        alarm('intersect_w_sphere with number_of_steps = 0: implementation %s, model %s' % ('raises UnboundLocalError' if r0 == 'unbound' else 'returns', m0))
    # ---------------------------------------------------------------- float32 through the watchdog worker
    if wd is not None:
        for name, ray, sp in cases[:2] + cases[3:4] + cases[7:8]:
            rec = {'kind': 'sphere_torch', 'name': name, 'rays': [ray], 'sphere': sp, 'steps': 250, 'lr': 0.2}
            st, res = wd.run(rec, limit=60)
            ctx.case(('sphere_search_model', 'float32', name), True)
            ctx.count('sphere_search_model/float32 worker')
            if st != 'ok' or 'exception' in (res or {}):
                continue                      # reported by the C12 monitors
            tok = ctx.model.ask(['gs_search %s %s %d %d 250' % (fl(ray[0] + ray[1]), fl(sp), f2b(0.2), f2b(1e-2))])[0].split()
            md, resid = b2f(tok[3]), b2f(tok[-1])
            if abs(md - res['distance'][0]) > 2e-3 * max(1.0, abs(md)):
                alarm('intersect_w_sphere (float32) distance %r vs model %r after 250 steps (%s)' % (res['distance'][0], md, name))
            if abs(resid - 1e-2) > 5e-3 and bool(res['check'][0]) != (tok[1] == '1'):
                alarm('intersect_w_sphere (float32) check %s vs model %s (%s)' % (res['check'][0], tok[1], name))
    done = set(ctx.extra.get('generated_definitions_checked', []))
    ctx.extra['generated_definitions_checked'] = sorted(done | {'torch intersect_w_sphere (residual, loss gradient, AdamW trajectory, flag, returned ray)'})
