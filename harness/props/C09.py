"""C09 – amplitude/phase <-> complex.  Correspondence of calculate_amplitude / calculate_phase / generate_complex_field /
set_amplitude / add_phase / produce_phase_only_slm_pattern / quantize (NumPy and torch against the SAME model functions);
monitors: round trip, ranges, unit amplitude and level range incl. the float boundary class."""
import logging
import math
import warnings
import numpy as np
import torch
from ..lib.core import f2b, b2f

logging.disable(logging.WARNING)
warnings.filterwarnings('ignore')

TRUSTED = ['np.abs/np.angle/torch.abs/atan2/cos/sin are the real functions up to rounding',
           'the field utilities of both APIs are regenerated from the source (Generated/WaveKernels.lean) and equal the model definitions by rfl (GenPolar.lean)',
           'Python float % for a positive modulus is x - r*floor(x/r) up to rounding (the float departure x % r == r is searched by the boundary class)']
ASSUMPTIONS = ['round trip compared with relative tolerance 1e-12 (float64) / 1e-5 (float32)']


def boundary_values():
    vals = [0j, complex(0.0, -0.0), complex(-0.0, 0.0), -1 + 0j, complex(-1, 1e-20), complex(-1, -1e-20), complex(1, -1e-20),
            complex(1, 1e-300), complex(1e300, 1e300), complex(1e-300, -1e-300), complex(-2.5, 0.0), 1j, -1j,
            complex(1e30, -1e30), complex(1e-30, 1e-30), complex(3, 4), complex(-1e-310, 1e-310)]
    return vals


def run(ctx):
    import odak.wave as NW
    import odak.learn.wave as LW
    import odak.learn.tools as LT
    rng = ctx.rng
    ctx.rule = ('random complex samples over 12 decades of magnitude plus a boundary class (zeros, signed zeros, negative real axis '
                '+- tiny imaginary, 1e+-300, 1e+-30); non-trivial = non-zero sample; distinct by value')
    vals = boundary_values()
    for _ in range(ctx.n(300, 5000)):
        mag = 10 ** rng.uniform(-6, 6)
        th = rng.uniform(-math.pi, math.pi)
        vals.append(complex(mag * math.cos(th), mag * math.sin(th)))
    lines = []
    extra = []
    for v in vals:
        lines.append('amp_phase %d %d' % (f2b(v.real), f2b(v.imag)))
        a2 = complex(rng.gauss(0, 2), rng.gauss(0, 2))
        ph = rng.uniform(-10, 10)
        bits = rng.choice([1, 2, 4, 8, 10])
        rngs = rng.choice([2 * math.pi, math.pi, 3.0, 2 * math.pi * 1.3])
        extra.append((a2, ph, bits, rngs))
        lines.append('set_amp %d %d %d %d' % (f2b(v.real), f2b(v.imag), f2b(a2.real), f2b(a2.imag)))
        lines.append('add_phase %d %d %d' % (f2b(v.real), f2b(v.imag), f2b(ph)))
        lines.append('slm %d %d %d %d' % (f2b(v.real), f2b(v.imag), f2b(rngs), bits))
    outs = ctx.model.ask(lines) if ctx.drv_ok else None

    def relclose(a, b, tol, scale):
        a, b = complex(a), complex(b)
        if not (np.isfinite(a.real) and np.isfinite(a.imag)) or not (np.isfinite(b.real) and np.isfinite(b.imag)):
            return (np.isnan(a.real) == np.isnan(b.real)) and (np.isnan(a.imag) == np.isnan(b.imag))
        return abs(a - b) <= tol * max(scale, 1e-300)

    for i, v in enumerate(vals):
        a2, ph, bits, rngs = extra[i]
        rec = {'re': v.real, 'im': v.imag, 'hex': [float(v.real).hex(), float(v.imag).hex()], 'bits': bits, 'range': rngs}
        ctx.case(('v', v.real, v.imag), v != 0, rec if i < 40 else None)
        big = abs(v) > 1e150 or (0 < abs(v) < 1e-150)
        ctx.count('magnitude/' + ('zero' if v == 0 else 'extreme' if big else 'ordinary'))
        arr = np.array([v], dtype=np.complex128)
        amp_n, ph_n = NW.calculate_amplitude(arr)[0], NW.calculate_phase(arr)[0]
        t = torch.from_numpy(arr)
        amp_t, ph_t = float(LW.calculate_amplitude(t)[0]), float(LW.calculate_phase(t)[0])
        # NumPy and torch agree
        if not (relclose(amp_n, amp_t, 1e-12, abs(v)) and abs(ph_n - ph_t) <= 1e-12):
            ctx.violation('NumPy and torch amplitude/phase differ for %r: (%r,%r) vs (%r,%r)' % (v, amp_n, ph_n, amp_t, ph_t), rec,
                          {'what': 'np_vs_torch', 'fn': 'amp_phase'})
        # ranges
        if not (amp_n >= 0 and -math.pi <= ph_n <= math.pi):
            ctx.violation('amplitude/phase out of range for %r: %r %r' % (v, amp_n, ph_n), rec, {'what': 'range'})
        # round trip (skip overflow of |v| itself: 1e300+1e300j has |v| = 1.4e300, still finite)
        for api, f in (('numpy', lambda: NW.generate_complex_field(np.array([amp_n]), np.array([ph_n]))[0]),
                       ('torch', lambda: complex(LW.generate_complex_field(torch.tensor([amp_t], dtype=torch.float64),
                                                                           torch.tensor([ph_t], dtype=torch.float64))[0]))):
            back = f()
            if not relclose(back, v, 1e-12, abs(v)):
                ctx.violation('%s: generate_complex_field(|u|, arg u) = %r != u = %r' % (api, back, v), rec,
                              {'what': 'roundtrip', 'api': api, 'extreme': big})
        if outs is not None and not big:   # the model's |u| = sqrt(re^2+im^2) over/underflows where np.abs uses hypot
            m = [b2f(x) for x in outs[4 * i].split()]
            if not (relclose(m[0], amp_n, 1e-12, abs(v)) and abs(m[1] - ph_n) <= 1e-12):
                ctx.alarm('correspondence', 'amplitude/phase of %r: model %r vs implementation %r' % (v, m, (amp_n, ph_n)))
        if big:
            continue
        # set_amplitude / add_phase
        sa_n = NW.set_amplitude(arr, np.array([a2]))[0]
        sa_t = complex(LW.set_amplitude(t, torch.tensor([a2], dtype=torch.complex128))[0])
        ap_n = NW.add_phase(arr, np.array([ph]))[0]
        if not relclose(sa_n, sa_t, 1e-10, abs(a2)):
            ctx.violation('NumPy and torch set_amplitude differ', rec, {'what': 'np_vs_torch', 'fn': 'set_amplitude'})
        if abs(abs(sa_n) - abs(a2)) > 1e-10 * abs(a2) or (v != 0 and abs(a2) > 0 and
                                                          abs(np.angle(sa_n * np.conj(v))) > 1e-9):
            ctx.violation('set_amplitude does not keep the phase / set the amplitude: %r -> %r (a=%r)' % (v, sa_n, a2), rec,
                          {'what': 'set_amplitude'})
        if abs(abs(ap_n) - abs(v)) > 1e-10 * max(abs(v), 1e-300):
            ctx.violation('add_phase changes the amplitude: %r -> %r' % (v, ap_n), rec, {'what': 'add_phase'})
        if outs is not None:
            m = [b2f(x) for x in outs[4 * i + 1].split()]
            if not relclose(complex(m[0], m[1]), sa_n, 1e-10, abs(a2)):
                ctx.alarm('correspondence', 'set_amplitude(%r, %r): model %r vs implementation %r' % (v, a2, m, sa_n))
            m = [b2f(x) for x in outs[4 * i + 2].split()]
            if not relclose(complex(m[0], m[1]), ap_n, 1e-9, abs(v)):
                ctx.alarm('correspondence', 'add_phase(%r, %r): model %r vs implementation %r' % (v, ph, m, ap_n))
        # SLM pattern
        pat, dig = NW.produce_phase_only_slm_pattern(np.array([[v]], dtype=np.complex128), rngs, bits=bits)
        lvl = int(dig[0, 0])
        tiny_neg = (ph_n < 0 and abs(ph_n) < 1e-12)
        if not (0 <= lvl < 2 ** bits):
            ctx.violation('SLM level %d outside [0, 2^%d) for field %r (phase %r, range %r)' % (lvl, bits, v, ph_n, rngs), rec,
                          {'what': 'slm_level_range', 'fn': 'produce_phase_only_slm_pattern', 'tiny_negative_phase': tiny_neg})
        if abs(abs(pat[0, 0]) - 1) > 1e-12:
            ctx.violation('SLM pattern is not unit amplitude for %r' % (v,), rec, {'what': 'slm_unit'})
        if outs is not None:
            m = [b2f(x) for x in outs[4 * i + 3].split()]
            if int(m[0]) != lvl and not tiny_neg and abs((ph_n % rngs) / rngs * 2 ** bits - round((ph_n % rngs) / rngs * 2 ** bits)) > 1e-6:
                ctx.alarm('correspondence', 'SLM level of %r: model %r vs implementation %r' % (v, m[0], lvl))

    # ---- torch quantize on wrapped phases (as the multi-colour optimiser uses it), incl. the float boundary
    qs = [0.0, 1e-12, math.pi, 2 * math.pi - 1e-9, -1e-10, -1e-20, -1e-7, 5.0, -3.0, 100.0]
    qs += [rng.uniform(-20, 20) for _ in range(ctx.n(100, 2000))]
    for q in qs:
        for dt in (torch.float32, torch.float64):
            for bits in (2, 8):
                ph = torch.tensor([q], dtype=dt)
                wrapped = ph % (2 * np.pi)
                lvl = int(LT.quantize(wrapped, bits=bits, limits=[0., 2 * np.pi])[0])
                ctx.case(('q', q, str(dt), bits), True)
                tiny_neg = (q < 0 and abs(q) < 1e-6)
                if not (0 <= lvl < 2 ** bits):
                    ctx.violation('quantize(phase %% 2pi) gives level %d outside [0, 2^%d) for phase %r (%s)' % (lvl, bits, q, dt),
                                  {'phase': q, 'dtype': str(dt), 'bits': bits},
                                  {'what': 'quantize_level_range', 'fn': 'quantize', 'tiny_negative_phase': tiny_neg})
    # ---- option combinations of the SLM pattern: what is RETURNED (pattern, levels) does not depend on whether the pattern is also written to a file,
    # for every bit depth (SLMs with 1 .. 16 bits), with and without an illumination profile
    import tempfile, shutil, os
    tmpd = tempfile.mkdtemp(prefix='odakverif_c09_')
    try:
        g = np.random.RandomState(ctx.seed + 9)
        holo = g.rand(6, 7) * np.exp(1j * (g.rand(6, 7) * 40 - 20))
        illum = 0.5 + g.rand(6, 7)
        for bits_ in (1, 2, 4, 6, 8, 10, 12, 16):
            for rng_ in (2 * math.pi, 3.0 * math.pi, 4.1):
                for ill in (None, illum):
                    ctx.case(('slm_options', bits_, round(rng_, 3), ill is not None), True)
                    ctx.count('slm_pattern/with and without filename/bits=%d' % bits_)
                    keep = holo.copy()
                    p0, d0 = NW.produce_phase_only_slm_pattern(holo, rng_, bits=bits_, illumination=ill)
                    try:
                        p1, d1 = NW.produce_phase_only_slm_pattern(holo, rng_, filename=os.path.join(tmpd, 'slm_%d.png' % bits_), bits=bits_, illumination=ill)
                    except (Exception, SystemExit) as e:
                        ctx.count('slm_pattern/filename rejected: %s' % type(e).__name__)
                        continue
                    rec = {'fn': 'produce_phase_only_slm_pattern', 'bits': bits_, 'slm_range': rng_, 'illumination': ill is not None, 'filename': True}
                    if not np.array_equal(holo, keep):
                        ctx.violation('produce_phase_only_slm_pattern changed the hologram it was given (bits=%d, with a filename)' % bits_, rec,
                                      {'what': 'slm_options', 'fn': 'produce_phase_only_slm_pattern'})
                    if not np.array_equal(d0, d1) or not np.allclose(p0, p1, atol=1e-12):
                        ctx.violation('produce_phase_only_slm_pattern(bits=%d, slm_range=%.4g): with a filename the returned levels span [%d, %d] and the pattern differs by %.3g '
                                      'from the call without a filename (levels [%d, %d])' % (bits_, rng_, int(np.min(d1)), int(np.max(d1)), float(np.max(np.abs(p0 - p1))),
                                                                                             int(np.min(d0)), int(np.max(d0))), rec,
                                      {'what': 'slm_options', 'fn': 'produce_phase_only_slm_pattern', 'bits': bits_})
                    if not (np.min(d1) >= 0 and np.max(d1) < 2 ** bits_):
                        ctx.violation('produce_phase_only_slm_pattern(bits=%d) with a filename returns levels outside [0, 2^bits)' % bits_, rec,
                                      {'what': 'slm_level_range', 'fn': 'produce_phase_only_slm_pattern'})
    finally:
        shutil.rmtree(tmpd, ignore_errors=True)
    from .genquantisers import check_generated_quantisers
    dtype_combinations(ctx)
    check_generated_quantisers(ctx)        # the definitions regenerated from the source (Generated/Quantisers.lean) vs the real code


def dtype_combinations(ctx):
    """generate_complex_field(a, p) = a exp(i p) whatever dtypes carry a and p (whole-number phases or quantised levels stored as integers, a Python float
    or a float array as amplitude): both APIs, compared with the value computed in float64.  Rejected combinations are not judged."""
    import odak.wave as NW
    import odak.learn.wave as LW
    rng = ctx.rng
    amp_vals = np.array([0.5, 1.7, 0.25, 2.0])
    ph_vals = np.array([0, 1, -2, 3])
    want = amp_vals * np.exp(1j * ph_vals.astype(np.float64))
    for adt in ('float64', 'float32', 'pyfloat', 'int'):
        for pdt in ('float64', 'float32', 'int64', 'int32'):
            ctx.case(('dtype_combo', adt, pdt), True)
            ctx.count('generate_complex_field/amplitude_%s/phase_%s' % (adt, pdt))
            a_np = 0.5 if adt == 'pyfloat' else (np.array([1, 2, 1, 3]) if adt == 'int' else amp_vals.astype(adt))
            w_ = (0.5 * np.exp(1j * ph_vals.astype(np.float64))) if adt == 'pyfloat' else (np.array([1, 2, 1, 3]) * np.exp(1j * ph_vals.astype(np.float64)) if adt == 'int' else want)
            p_np = ph_vals.astype(pdt)
            for api in ('numpy', 'torch'):
                try:
                    if api == 'numpy':
                        got = np.asarray(NW.generate_complex_field(a_np, p_np)).astype(np.complex128)
                    else:
                        a_t = a_np if adt == 'pyfloat' else torch.from_numpy(np.asarray(a_np))
                        got = LW.generate_complex_field(a_t, torch.from_numpy(p_np)).numpy().astype(np.complex128)
                except Exception:
                    ctx.count('generate_complex_field/rejected/%s/%s/%s' % (api, adt, pdt))
                    continue
                if got.shape != w_.shape or not np.allclose(got, w_, atol=1e-5):
                    ctx.violation('%s generate_complex_field(amplitude %s, phase %s): got %s, a exp(i p) = %s' % (api, adt, pdt, np.round(got, 5).tolist(), np.round(w_, 5).tolist()),
                                  {'api': api, 'amplitude_dtype': adt, 'phase_dtype': pdt}, {'api': api, 'fn': 'generate_complex_field', 'what': 'dtype_combination'})


def replay(ctx, rep):
    import odak.wave as NW
    r = rep['replay']
    if 'phase' in r:
        import odak.learn.tools as LT
        dt = torch.float32 if 'float32' in r['dtype'] else torch.float64
        lvl = int(LT.quantize(torch.tensor([r['phase']], dtype=dt) % (2 * np.pi), bits=r['bits'], limits=[0., 2 * np.pi])[0])
        print('level', lvl)
        return 0 <= lvl < 2 ** r['bits']
    v = complex(float.fromhex(r['hex'][0]), float.fromhex(r['hex'][1]))
    pat, dig = NW.produce_phase_only_slm_pattern(np.array([[v]], dtype=np.complex128), r['range'], bits=r['bits'])
    print('level', int(dig[0, 0]))
    return 0 <= int(dig[0, 0]) < 2 ** r['bits']
