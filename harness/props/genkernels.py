"""Executable tie of the REGENERATED kernels and field utilities (OdakModel/Generated/WaveKernels.lean, written by
harness/translate/wavekernels.py from the current source) to the implementation: the generated definitions are evaluated at Float by
the model driver (ops g_* of OdakModel/Exec/OpsGen.lean) and compared with

* torch: `odak.learn.wave.get_angular_spectrum_kernel`, `get_transfer_function_fresnel_kernel`,
  `get_band_limited_angular_spectrum_kernel` called directly (float32: tolerance wavelib.TOL_T); the spatial part `h` of
  `get_impulse_response_fresnel_kernel` is recovered from its return value `H` by undoing the FFT and the constant;
* NumPy: the kernels are local variables of `angular_spectrum` / `band_limited_angular_spectrum` / `transfer_function_fresnel` /
  `impulse_response_fresnel`; they are recovered exactly (up to FFT rounding, float64) by propagating the delta field whose spectrum
  is 1 everywhere: for the `fftshift(fft2(u))` pipelines `u = delta[0, 0]` gives `H = fftshift(fft2(result))`; for the shift-first
  pipelines `u = ifftshift(delta[0, 0])` gives `H = ifftshift(fft2(fftshift(result)))` (Fresnel TF) and `h = result` (Fresnel IR);
* `wavenumber`, `calculate_amplitude`, `calculate_phase`, `generate_complex_field`, `set_amplitude`, `add_phase` of both APIs on
  random and boundary complex numbers.

A disagreement means the translator mis-read the source (or the source does something the model's primitives do not):
`ctx.alarm('correspondence', …)`."""
import math
import numpy as np
import torch
from . import wavelib as W

NP_TOL = 1e-9


def _delta0(n, m):
    u = np.zeros((n, m), dtype=np.complex128)
    u[0, 0] = 1.0
    return u


def np_kernel(meth, n, m, dx, lam, k, z):
    """the kernel the NumPy implementation builds internally, recovered through a delta propagation"""
    import odak.wave as OW
    if meth in ('as', 'bl'):
        r = np.asarray(OW.propagate_beam(_delta0(n, m), k, z, dx, lam, W.N_METHODS[meth]), dtype=np.complex128)
        return np.fft.fftshift(np.fft.fft2(r))
    u = np.fft.ifftshift(_delta0(n, m))
    r = np.asarray(OW.propagate_beam(u, k, z, dx, lam, W.N_METHODS[meth]), dtype=np.complex128)
    if meth == 'tf':
        return np.fft.ifftshift(np.fft.fft2(np.fft.fftshift(r)))
    return r                                                         # 'ir': result = ifftshift(ifft2(fft2(fftshift h) dx^2)) / dx^2 = h


def torch_kernel(meth, n, m, dx, lam, z, samples=None):
    import odak.learn.wave as LW
    if meth == 'as':
        H = LW.get_angular_spectrum_kernel(n, m, dx=dx, wavelength=lam, distance=z)
    elif meth == 'tf':
        H = LW.get_transfer_function_fresnel_kernel(n, m, dx=dx, wavelength=lam, distance=z)
    elif meth == 'bl':
        H = LW.get_band_limited_angular_spectrum_kernel(n, m, dx=dx, wavelength=lam, distance=z)
    else:
        H = LW.get_impulse_response_fresnel_kernel(n, m, dx=dx, wavelength=lam, distance=z, scale=1, aperture_samples=list(samples))
        H = H.detach().numpy().astype(np.complex128).reshape(n, m)
        c = dx ** 2 / samples[0] / samples[1] / samples[2] / samples[3]
        # H = fftshift(fft2(fftshift h)) c   ->   h = ifftshift(ifft2(ifftshift(H / c)))
        return np.fft.ifftshift(np.fft.ifft2(np.fft.ifftshift(H / c)))
    return H.detach().numpy().astype(np.complex128).reshape(n, m)


def check_generated_kernels(ctx):
    rng = ctx.rng
    if not ctx.drv_ok:
        return
    lines, cases = [], []
    shapes = W.shapes(ctx)
    for (n, m) in shapes:
        for api, meths in (('torch', ('as', 'tf', 'bl', 'ir')), ('numpy', ('as', 'tf', 'bl', 'ir'))):
            for meth in meths:
                if meth == 'ir' and api == 'torch' and n * m > (36 if ctx.quick else 81):
                    continue
                for _try in range(20):
                    dx, lam, z, zc = W.rand_optics(rng)
                    if meth == 'ir' and (zc == 'zero' or (api == 'torch' and abs(z) < 0.3)):     # float32 chirp phase k r^2 / 2z
                        continue
                    if meth == 'bl' and not W.bl_margin_ok(n, m, dx, lam, z, api):
                        continue
                    break
                else:
                    continue
                k = 2 * math.pi / lam
                if api == 'torch':
                    samples = (2, 3, 2, 1) if meth == 'ir' else None
                    ps = [dx, lam, z] + ([float(s) for s in samples] if samples else [])
                    op = {'as': 'g_as', 'tf': 'g_tf', 'bl': 'g_bl', 'ir': 'g_ir'}[meth]
                else:
                    samples = None
                    ps = [dx, lam, k, z]
                    op = 'g_np_' + meth
                lines.append('%s %d %d %s' % (op, n, m, ' '.join(str(W.f2b(p)) for p in ps)))
                cases.append((api, meth, n, m, dx, lam, k, z, zc, samples))
    outs = ctx.model.ask(lines)
    worst = {}
    for (api, meth, n, m, dx, lam, k, z, zc, samples), o in zip(cases, outs):
        try:
            H = torch_kernel(meth, n, m, dx, lam, z, samples) if api == 'torch' else np_kernel(meth, n, m, dx, lam, k, z)
        except Exception as e:
            ctx.alarm('correspondence', 'generated-kernel check: implementation raised %r for %s %s %dx%d' % (e, api, meth, n, m))
            continue
        ctx.case(('generated-kernel', api, meth, n, m, zc), zc != 'zero')
        ctx.count('generated-kernel/%s/%s/%s' % (api, meth, 'square' if n == m else 'non-square'))
        if o in ('bad-op', 'bad-args'):
            ctx.alarm('correspondence', 'model driver does not know the generated-kernel op for %s %s (%s)' % (api, meth, o))
            continue
        G = W.dec_field(o, n, m)
        if H.shape != G.shape:
            ctx.alarm('correspondence', 'generated kernel %s %s has shape %s, the implementation returns %s' % (api, meth, G.shape, H.shape))
            continue
        scale = max(1.0, float(np.max(np.abs(np.nan_to_num(H)))) if H.size else 1.0)
        d = W.maxdiff(H, G)
        tol = W.TOL_T * (10 if meth == 'ir' else 1) if api == 'torch' else NP_TOL * max(1, n * m)
        worst[(api, meth)] = max(worst.get((api, meth), 0.0), d / scale)
        if not d <= tol * scale:
            ctx.alarm('correspondence', 'the generated kernel model (Generated/WaveKernels.lean, %s %s) differs from the implementation\'s '
                      'kernel by %.3g (%dx%d z=%g dx=%g lam=%g)' % (api, meth, d, n, m, z, dx, lam))
    ctx.extra['max_generated_kernel_impl_difference'] = {'%s/%s' % k: v for k, v in worst.items()}
    check_generated_field_utils(ctx)


def check_generated_field_utils(ctx):
    import odak.learn.wave as LW
    import odak.wave as OW
    rng = ctx.rng
    pts = [complex(rng.gauss(0, 1), rng.gauss(0, 1)) for _ in range(12)] + [1 + 0j, -1 + 0j, 1j, -1j, 0j, -2.5 + 0j, 3 - 4j]
    lines, cases = [], []
    for u in pts:
        a = complex(rng.gauss(0, 1), rng.gauss(0, 1)) if rng.random() < 0.7 else complex(rng.uniform(0, 2), 0.0)
        amp, ph = rng.uniform(0, 3), rng.uniform(-7, 7)
        lam = rng.uniform(0.2, 2.0)
        B = W.f2b
        lines += ['g_amp_phase %d %d' % (B(u.real), B(u.imag)), 'g_gen_field %d %d' % (B(amp), B(ph)),
                  'g_set_amp %d %d %d %d' % (B(u.real), B(u.imag), B(a.real), B(a.imag)),
                  'g_add_phase %d %d %d' % (B(u.real), B(u.imag), B(ph)), 'g_wavenumber %d' % B(lam)]
        cases.append((u, a, amp, ph, lam))
    outs = ctx.model.ask(lines)

    def t(x, dtype=torch.complex128):
        return torch.tensor([x], dtype=dtype)

    def cplx(v):
        return complex(np.asarray(v).reshape(-1)[0])

    for idx, (u, a, amp, ph, lam) in enumerate(cases):
        o = [ctx.model.floats(x) if x not in ('bad-op', 'bad-args') else None for x in outs[5 * idx: 5 * idx + 5]]
        if any(x is None for x in o):
            ctx.alarm('correspondence', 'model driver does not know the generated field-utility ops')
            return
        un = np.array([u])
        impl = {
            'amp_phase': [float(LW.calculate_amplitude(t(u))[0]), float(LW.calculate_phase(t(u))[0]),
                          float(OW.calculate_amplitude(un)[0]), float(OW.calculate_phase(un)[0])],
            'gen_field': [cplx(LW.generate_complex_field(t(amp, torch.float64), t(ph, torch.float64))),
                          cplx(OW.generate_complex_field(np.array([amp]), np.array([ph])))],
            'set_amp': [cplx(LW.set_amplitude(t(u), t(a))), cplx(OW.set_amplitude(un, np.array([a])))],
            'add_phase': [cplx(OW.add_phase(un, np.array([ph])))],
            'wavenumber': [float(LW.wavenumber(lam)), float(OW.wavenumber(lam))],
        }
        model = {'amp_phase': o[0], 'gen_field': [complex(o[1][0], o[1][1]), complex(o[1][2], o[1][3])],
                 'set_amp': [complex(o[2][0], o[2][1]), complex(o[2][2], o[2][3])], 'add_phase': [complex(o[3][0], o[3][1])],
                 'wavenumber': o[4]}
        on_cut = u.imag == 0 and u.real < 0            # phase of a negative real: +pi or -pi depending on the sign of the zero
        for key in impl:
            ctx.case(('generated-util', key, idx), True)
            ctx.count('generated-util/' + key)
            for x, y in zip(impl[key], model[key]):
                d = abs(x - y)
                if key == 'amp_phase' and on_cut:
                    d = min(d, abs(abs(x - y) - 2 * math.pi))
                if not d <= 1e-9 * max(1.0, abs(x)):
                    ctx.alarm('correspondence', 'the generated model of %s (Generated/WaveKernels.lean) differs from the implementation: %r vs %r '
                              '(u=%r a=%r amp=%g phase=%g lam=%g)' % (key, y, x, u, a, amp, ph, lam))
