"""Executable tie of lean/OdakModel/Generated/PadCrop.lean (the output of harness/translate/padcrop.py): the regenerated tensor
programs of `zero_pad` / `crop_center` (torch and NumPy) are evaluated at Float by the driver (lean/OdakModel/Exec/OpsGenPadCrop.lean,
op `pc`) on WHOLE index-tagged arrays - rank 2, rank 3 channels first (one to four channels) and channels last, rank 4 channels first
and last, odd and even sides, default and explicit sizes, both placement methods, real and complex values - and compared with the real
functions of /repo: does Python accept the call, the output shape (rank and layout included) and every element, exactly.
This validates at the same time the hand-written tensor semantics of lean/OdakModel/TensorPadPrelude.lean (Python slices with integer
bounds, slice store with broadcasting, `np.pad`, `squeeze`) against torch / NumPy.
A disagreement is a broken correspondence (translator or tensor semantics), reported as an alarm, never as a violation."""
import logging
import warnings
import numpy as np
import torch
from ..lib.core import f2b, b2f

logging.disable(logging.WARNING)
warnings.filterwarnings('ignore')

FN = {('torch', 'zero_pad', 'center'): 0, ('torch', 'zero_pad', 'left'): 2, ('torch', 'crop_center', None): 4,
      ('numpy', 'zero_pad', 'center'): 6, ('numpy', 'zero_pad', 'left aligned'): 8, ('numpy', 'crop_center', None): 10}


def line(fn, size, arr):
    a = np.asarray(arr, dtype=np.float64)
    size = list(size) if size is not None else []
    toks = [str(fn), str(len(size))] + [str(int(s)) for s in size] + [str(a.ndim)] + [str(int(s)) for s in a.shape]
    toks += [str(f2b(float(x))) for x in a.reshape(-1)]
    return 'pc ' + ' '.join(toks)


def parse(out):
    toks = out.split()
    if toks[0] == '0':
        return False, None
    r = int(toks[1])
    shape = [int(t) for t in toks[2:2 + r]]
    data = np.array([b2f(t) for t in toks[2 + r:]], dtype=np.float64)
    if data.size != (int(np.prod(shape)) if shape else 1):
        raise ValueError('element count')
    return True, data.reshape(shape)


def tagged(shape):
    n = int(np.prod(shape))
    return np.arange(1, n + 1, dtype=np.float64).reshape(shape)


def call_impl(api, fn, x, size, method):
    import odak.learn.tools
    import odak.tools
    kw = {}
    if size is not None:
        kw['size'] = list(size)
    if method is not None:
        kw['method'] = method
    if api == 'torch':
        r = getattr(odak.learn.tools, fn)(torch.from_numpy(x.copy()), **kw)
        return r.numpy()
    return np.asarray(getattr(odak.tools, fn)(x.copy(), **kw))


def check_generated_padcrop(ctx):
    rng = ctx.rng
    items = []          # (tag, line(s), implementation result or None when it raised, record)

    def add(api, fn, method, x, size, layout):
        rec = {'api': api, 'fn': fn, 'method': method, 'layout': layout, 'shape': list(x.shape), 'size': list(size) if size else None}
        parts = [x.real, x.imag] if np.iscomplexobj(x) else [x]
        try:
            want = call_impl(api, fn, x, size, method)
        except Exception:
            want = None
            ctx.count('generated/%s %s rejected by Python' % (api, fn))
        code = FN[(api, fn, method if fn == 'zero_pad' else None)] + (1 if size is not None else 0)
        items.append(('%s %s %s' % (api, fn, layout), [line(code, size, p) for p in parts], want, rec))
        ctx.case(('gen-padcrop', api, fn, method, layout, tuple(x.shape), tuple(size) if size else None), True)
        ctx.count('generated/%s %s %s%s' % (api, fn, layout, ' explicit' if size is not None else ''))

    sides_t = [5, 6, 7, 8, 9, 12, 13]
    sides_n = [1, 2, 3, 4, 5, 6, 7, 8, 11]
    reps = ctx.n(8, 40)
    for _ in range(reps):
        h, w = rng.choice(sides_t), rng.choice(sides_t)
        c, k = rng.choice([1, 2, 3, 4]), rng.choice([1, 2, 3])
        lays = [('rank 2', (h, w), (0, 1)), ('rank 3 channels first', (c, h, w), (1, 2)), ('rank 4 channels first', (k, c, h, w), (2, 3)),
                ('rank 4 channels last', (k, h, w, c), (1, 2)), ('rank 3 channels last (undocumented)', (h, w, c), (0, 1)),
                ('single channel [1 x m x n]', (1, h, w), (1, 2))]
        for lname, shape, axes in lays:
            x = tagged(shape)
            if rng.random() < 0.25:
                x = x + 1j * (x + 0.5)
            e0, e1 = rng.choice([0, 1, 2, 3, 5]), rng.choice([0, 1, 2, 3, 5])
            for size in (None, (h + e0, w + e1)):
                add('torch', 'zero_pad', 'center', x, size, lname)
                if rng.random() < 0.3:
                    add('torch', 'zero_pad', 'left', x, size, lname)
            # crop_center on the padded array (so that the round trip is what is compared) and on an array of its own
            try:
                p = call_impl('torch', 'zero_pad', x, (h + e0, w + e1), 'center')
                add('torch', 'crop_center', None, p, (h, w), lname)
                p = call_impl('torch', 'zero_pad', x, None, 'center')
                add('torch', 'crop_center', None, p, None, lname)
            except Exception:
                pass
            add('torch', 'crop_center', None, x, None, lname)
            add('torch', 'crop_center', None, x, (max(1, h - e0), max(1, w - e1)), lname)
        # NumPy: rank 2 (all sides), height x width x channels for the crop, rank 3 for the pad (rejected)
        h, w = rng.choice(sides_n), rng.choice(sides_n)
        x = tagged((h, w))
        if rng.random() < 0.25:
            x = x + 1j * (x + 0.5)
        e0, e1 = rng.choice([0, 1, 2, 3, 5]), rng.choice([0, 1, 2, 3, 5])
        for size in (None, (h + e0, w + e1)):
            add('numpy', 'zero_pad', 'center', x, size, 'rank 2')
            add('numpy', 'zero_pad', 'left aligned', x, size, 'rank 2')
        add('numpy', 'crop_center', None, call_impl('numpy', 'zero_pad', x, None, 'center'), None, 'rank 2')
        add('numpy', 'crop_center', None, call_impl('numpy', 'zero_pad', x, (h + e0, w + e1), 'center'), (h, w), 'rank 2')
        add('numpy', 'crop_center', None, tagged((h + 3, w + 2, 3)), None, 'height x width x channels')
        add('numpy', 'crop_center', None, tagged((h + 3, w + 2, 3)), (h, w), 'height x width x channels')
        add('numpy', 'zero_pad', 'center', tagged((2, h, w)), None, 'rank 3')
    # calls Python rejects (a requested size smaller than the field) or answers with a clamped window (a crop larger than the field)
    for (h, w, S0, S1) in [(6, 7, 4, 9), (6, 7, 5, 7), (8, 8, 8, 5), (5, 6, 3, 3)]:
        add('torch', 'zero_pad', 'center', tagged((h, w)), (S0, S1), 'rank 2, size < field')
        add('numpy', 'zero_pad', 'center', tagged((h, w)), (S0, S1), 'rank 2, size < field')
    for (h, w, S0, S1) in [(6, 7, 8, 7), (6, 7, 6, 11), (5, 8, 9, 12)]:
        add('torch', 'crop_center', None, tagged((h, w)), (S0, S1), 'rank 2, size > field')
        add('numpy', 'crop_center', None, tagged((h, w)), (S0, S1), 'rank 2, size > field')
    if not (ctx.drv_ok and items):
        return
    flat = [l for it in items for l in it[1]]
    outs = iter(ctx.model.ask(flat))
    bad = 0
    for tag, lines, want, rec in items:
        msg = None
        try:
            got = [parse(next(outs)) for _ in lines]
            ok = all(g[0] for g in got)
            if want is None:
                if ok:
                    msg = 'Python rejects the call, the regenerated program accepts it'
            elif not ok:
                msg = 'Python accepts the call, the regenerated program flags it as rejected'
            else:
                g = got[0][1] if len(got) == 1 else got[0][1] + 1j * got[1][1]
                if list(g.shape) != list(want.shape):
                    msg = 'shape: implementation %s vs regenerated program %s' % (list(want.shape), list(g.shape))
                elif not np.array_equal(g, np.asarray(want)):
                    msg = 'elements differ'
        except (ValueError, IndexError) as e:
            msg = 'driver answer unreadable (%s)' % e
        if msg is not None:
            bad += 1
            if bad <= 5:
                ctx.alarm('correspondence', 'regenerated tensor program %s: %s (%s)' % (tag, msg, rec))
    ctx.extra.setdefault('generated_definitions_checked', sorted(set(it[0] for it in items)))
