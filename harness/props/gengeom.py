"""Executable tie of lean/OdakModel/Generated/GeometryGen.lean (the output of harness/translate/geometry.py): every generated
definition is evaluated at Float by the driver (lean/OdakModel/Exec/OpsGenGeom.lean) and compared with the real function of
/repo on random rays / triangles / normals drawn from the generators of C10.py and C11.py.
A disagreement is a broken correspondence (translator or model), reported as an alarm, never as a violation."""
import logging
import warnings
import numpy as np
import torch
from ..lib.core import f2b, b2f
from ..lib.watchdog import time_limit, CallTimeout

logging.disable(logging.WARNING)
warnings.filterwarnings('ignore')


def fl(xs):
    return ' '.join(str(f2b(float(x))) for x in np.asarray(xs, dtype=np.float64).reshape(-1))


def t32(x):
    return torch.tensor(np.asarray(x), dtype=torch.float32)


def t64(x):
    return torch.tensor(np.asarray(x), dtype=torch.float64)


class Batch:
    """collects driver lines with the implementation's answer; compared after one driver call at the end"""

    def __init__(self, ctx):
        self.ctx, self.items = ctx, []

    def add(self, tag, line, want, tol, rec, nontrivial=True, flags=()):
        """want: flat list of floats (implementation); flags: indices compared exactly (booleans)"""
        self.items.append((tag, line, np.asarray(want, dtype=np.float64).reshape(-1), tol, rec, flags))
        self.ctx.case(('gen', tag, line[:60]), nontrivial)
        self.ctx.count('generated/' + tag)


def check_generated_geometry(ctx, which='all'):
    """which = 'C10' (triangles, intersections, rays), 'C11' (reflect, refract) or 'all'"""
    import odak.learn.raytracing as LR
    import odak.raytracing as NR
    from odak.tools.vector import same_side
    from odak.learn.tools.vector import distance_between_two_points as dist_t
    from . import C10, C11
    rng = ctx.rng
    B = Batch(ctx)
    if which in ('C10', 'all'):
        for _ in range(ctx.n(40, 300)):
            cls, tri = C10.triangles(rng)
            scale = max(1e-3, float(np.max(np.abs(tri))))
            rec0 = {'class': cls, 'triangle': tri.tolist()}
            # get_triangle_normal
            nn = np.asarray(NR.get_triangle_normal(tri.copy()), dtype=np.float64)
            nt = LR.get_triangle_normal(t32(tri)).numpy().astype(np.float64)
            B.add('get_triangle_normal numpy', 'gg_trinormal 0 ' + fl(tri), nn, 1e-9 * max(1, scale), rec0)
            B.add('get_triangle_normal torch', 'gg_trinormal 1 ' + fl(tri), nt, 5e-4 * max(1, scale), rec0)
            for (kind, o, d, s, t) in C10.rays_for(rng, tri, 2):
                if kind == 'parallel':
                    continue
                rec = dict(rec0, ray=[o.tolist(), d.tolist()], kind=kind)
                ray = np.array([o, d])
                graz = 1e3 if kind == 'grazing' else 1
                # intersect_w_surface
                n1, d1 = NR.intersect_w_surface(ray.copy(), tri.copy())
                nd = float(np.asarray(d1).reshape(-1)[0])
                tol = 1e-8 * max(1, scale, abs(nd) if np.isfinite(nd) else 1) * graz
                B.add('intersect_w_surface numpy', 'gg_surface 0 %s %s' % (fl(ray), fl(tri)),
                      np.concatenate([np.asarray(n1, dtype=np.float64).reshape(-1), [nd]]), tol, rec)
                n2, d2 = LR.intersect_w_surface(t32(ray), t32(tri))
                td = float(d2.reshape(-1)[0])
                ttol = 5e-4 * max(1, scale, abs(td) if np.isfinite(td) else 1) * (100 if kind == 'grazing' else 1)
                B.add('intersect_w_surface torch', 'gg_surface 1 %s %s' % (fl(ray), fl(tri)),
                      np.concatenate([n2.numpy().astype(np.float64).reshape(-1), [td]]), ttol, rec)
                # is_it_on_triangle: points of the plane, away from the edges
                margin = min(s, t, 1 - s - t)
                pt = tri[0] + s * (tri[2] - tri[0]) + t * (tri[1] - tri[0])
                if abs(margin) > 2e-3 and cls != 'small':
                    ft = bool(LR.is_it_on_triangle(t32(pt), t32(tri)).reshape(-1)[0])
                    line = 'gg_ontri 1 %s %s' % (fl(pt), fl(tri))
                    B.add('is_it_on_triangle torch', line, [1.0 if ft else 0.0, s, t], 2e-2 * max(1.0, abs(s), abs(t)), rec, flags=(0,))
                    fn = bool(NR.is_it_on_triangle(pt.copy(), tri[0].copy(), tri[1].copy(), tri[2].copy()))
                    # the NumPy test works with cross products of a point that is in the plane only up to rounding:
                    # compare for points lifted off the edges only (margin above)
                    B.add('is_it_on_triangle numpy', 'gg_ontri 0 %s %s' % (fl(pt), fl(tri)), [1.0 if fn else 0.0], 0, rec, flags=(0,))
                    q = tri[0] + rng.uniform(-1, 2) * (tri[2] - tri[0]) + rng.uniform(-1, 2) * (tri[1] - tri[0])
                    test = float(np.dot(np.cross(tri[2] - tri[1], pt - tri[1]), np.cross(tri[2] - tri[1], q - tri[1])))
                    if abs(test) > 1e-9 * scale ** 4:
                        B.add('same_side numpy', 'gg_sameside %s %s %s %s' % (fl(pt), fl(q), fl(tri[1]), fl(tri[2])),
                              [1.0 if bool(same_side(pt, q, tri[1], tri[2])) else 0.0], 0, rec, flags=(0,))
                # create_ray_from_two_points, propagate
                p0, p1 = o, o + rng.uniform(0.1, 5) * scale * d
                B.add('create_ray_from_two_points numpy', 'gg_twopoints 0 %s %s' % (fl(p0), fl(p1)),
                      np.asarray(NR.create_ray_from_two_points(p0.copy(), p1.copy()), dtype=np.float64), 1e-9 * max(1, scale), rec)
                B.add('create_ray_from_two_points torch', 'gg_twopoints 1 %s %s' % (fl(p0), fl(p1)),
                      LR.create_ray_from_two_points(t64(p0), t64(p1)).numpy().astype(np.float64), 1e-6 * max(1, scale), rec)
                dist = rng.uniform(-3, 10) * scale
                B.add('propagate_a_ray numpy', 'gg_propagate 0 %s %d' % (fl(ray), f2b(dist)),
                      np.asarray(NR.propagate_a_ray(ray.copy(), dist), dtype=np.float64), 1e-9 * max(1, scale, abs(dist)), rec)
                B.add('propagate_ray torch', 'gg_propagate 1 %s %d' % (fl(ray), f2b(dist)),
                      LR.propagate_ray(t64(ray), t64([dist])).numpy().astype(np.float64), 1e-9 * max(1, scale, abs(dist)), rec)
                # intersect_w_circle (torch): centre = centroid, radius below / above the distance of the hit point to it
                centre = tri.mean(0)
                radius = rng.choice([0.3, 3.0, 30.0]) * scale
                hit32 = n2.numpy().astype(np.float64).reshape(2, 3)[0]
                if np.all(np.isfinite(hit32)) and abs(np.linalg.norm(hit32 - centre) - radius) > 1e-2 * max(scale, radius):
                    cn, cd = LR.intersect_w_circle(t32(ray), [t32(tri), t32(centre), t32([radius])])
                    B.add('intersect_w_circle torch', 'gg_circle %s %s %s %d' % (fl(ray), fl(tri), fl(centre), f2b(radius)),
                          np.concatenate([cn.numpy().astype(np.float64).reshape(-1), [float(cd.reshape(-1)[0])]]), ttol, rec)
                B.add('distance_between_two_points torch', 'gg_dist2 %s %s' % (fl(p0), fl(p1)), [float(dist_t(t64(p0), t64(p1)))],
                      1e-9 * max(1, scale), rec)
        # coincident points are flagged (NaN direction) by both, as by the generated definition
        p = np.array([0.5, -1.0, 2.0])
        B.add('create_ray_from_two_points numpy', 'gg_twopoints 0 %s %s' % (fl(p), fl(p)),
              np.asarray(NR.create_ray_from_two_points(p.copy(), p.copy()), dtype=np.float64), 1e-9, {'coincident': True})
        B.add('create_ray_from_two_points torch', 'gg_twopoints 1 %s %s' % (fl(p), fl(p)),
              LR.create_ray_from_two_points(t64(p), t64(p)).numpy().astype(np.float64), 1e-9, {'coincident': True})
    if which in ('C11', 'all'):
        for _ in range(ctx.n(120, 1500)):
            d = C11.unit(rng)
            nlen = 10 ** rng.uniform(-3, 3) if rng.random() < 0.6 else 1.0
            n = C11.unit(rng) * nlen
            o = np.array([rng.uniform(-2, 2) for _ in range(3)])
            hit = np.array([rng.uniform(-2, 2) for _ in range(3)])
            ray, nrm = np.array([o, d]), np.array([hit, n])
            rec = {'d': d.tolist(), 'n': n.tolist(), 'normal_length': nlen}
            B.add('reflect numpy', 'gg_reflect 0 %s %s' % (fl(ray), fl(nrm)),
                  np.asarray(NR.reflect(ray.copy(), nrm.copy()), dtype=np.float64), 1e-9, rec)
            B.add('reflect torch', 'gg_reflect 1 %s %s' % (fl(ray), fl(nrm)),
                  LR.reflect(t64(ray), t64(nrm)).numpy().astype(np.float64), 5e-4, rec)
            n1, n2 = rng.choice([(1.0, 1.5), (1.5, 1.0), (1.0, 1.0), (1.33, 1.5), (1.7, 1.2), (1.0, 2.4)])
            mu = n1 / n2
            cosi = abs(np.dot(d, n)) / nlen
            sin2t = mu * mu * (1 - cosi * cosi)
            err = rng.choice([0.01, 1e-3, 1e-5])
            if cosi < 1e-3 or abs(sin2t - 1) < 1e-3:
                continue          # grazing / critical angle: ill-conditioned, covered by C12's boundary classes
            try:
                with time_limit(20.0):          # termination is C12's subject: a call that does not return is not judged here and must not hang this check
                    out = LR.refract(t64(ray), t64(nrm), n1, n2, error=err).numpy().astype(np.float64).reshape(-1)
            except CallTimeout:
                ctx.count('generated/refract did not return within 20 s (termination is decided by C12)')
                continue
            line = 'gg_refract_run %d %d %s %s %d' % (f2b(n1), f2b(n2), fl(ray), fl(nrm), f2b(err))
            rec = dict(rec, n1=n1, n2=n2, error=err)
            if sin2t > 1:       # total internal reflection: flagged with NaN by the code, status 1 by the generated pieces
                ctx.case(('gen', 'refract tir', line[:60]), True)
                ctx.count('generated/refract flagged')
                if ctx.drv_ok:
                    st = ctx.model.ask([line])[0].split()[0]
                    if not (st == '1' and not np.all(np.isfinite(out[3:]))):
                        ctx.alarm('correspondence', 'generated refract flag: implementation %s, generated status %s (%s)' % (out.tolist(), st, rec))
                continue
            B.items.append(('refract torch', line, np.concatenate([[0.0], [np.nan], out]), 1e-9 * max(1.0, 1 / nlen), rec, (0,)))
            ctx.case(('gen', 'refract', line[:60]), True)
            ctx.count('generated/refract torch')
    # the iteration count (second number) of gg_refract_run is not observable from outside: blank it before comparing
    if ctx.drv_ok and B.items:
        outs = ctx.model.ask([it[1] for it in B.items])
        bad = 0
        for (tag, line, want, tol, rec, flags), out in zip(B.items, outs):
            toks = out.split()
            try:
                if tag == 'refract torch':
                    got = np.array([float(toks[0]), np.nan] + [b2f(t) for t in toks[2:]], dtype=np.float64)
                else:
                    got = np.array([b2f(t) for t in toks], dtype=np.float64)
            except (ValueError, IndexError):
                got = np.array([])
            ok = got.shape == want.shape
            if ok:
                fin = np.isfinite(want)
                ok = np.array_equal(np.isfinite(got), fin) and bool(np.all(np.abs(got[fin] - want[fin]) <= tol))
                for i in flags:
                    ok = ok and got[i] == want[i]
            if not ok:
                bad += 1
                if bad <= 5:
                    ctx.alarm('correspondence', 'generated %s: implementation %s vs regenerated definition %s (%s)'
                              % (tag, want.tolist(), got.tolist(), rec))
    ctx.extra.setdefault('generated_definitions_checked', sorted(set(it[0] for it in B.items)))
