"""C08 – zero-pad / centre-crop: correspondence of the axis-map model with the implementation on
index-tagged arrays, and conclusion monitors (round trip, doubling, zero frame, FFT centre, NumPy = torch)."""
import itertools
import logging
import numpy as np
logging.disable(logging.WARNING)
import torch

TRUSTED = ['np.pad / torch slicing store and load behave as the axis maps of OdakModel/Index.lean say '
           '(validated here on every generated shape)',
           'rank/layout handling of the torch functions is modelled by hand (torchSpatialAxes) and validated by correspondence']
ASSUMPTIONS = ['sides >= 5 for the torch API (smaller last axes are read as channels by design), explicit sizes >= shape']


def tagged(shape, dtype):
    n = int(np.prod(shape))
    x = np.arange(1, n + 1, dtype=np.float64).reshape(shape)
    if dtype == 'complex':
        x = x + 1j * (x + 0.5)
    return x


def axis_lines(api, fn, explicit, H, W, S0, S1):
    op = '%s_%s' % ('torch' if api == 'torch' else 'np', fn)
    return ['%s %d %d %d %d %d %d' % (op, 1 if explicit else 0, ax, H, W, S0, S1) for ax in (0, 1)]


def apply_maps(x2d, m0, m1):
    """expected output of a 2-D index map given per-axis source lists (-1 = zero)"""
    s0, s1 = np.array(m0[2:], dtype=int), np.array(m1[2:], dtype=int)
    out = np.zeros((len(s0), len(s1)), dtype=x2d.dtype)
    if len(s0) and len(s1):
        ok = (s0[:, None] >= 0) & (s1[None, :] >= 0)
        vals = x2d[np.clip(s0, 0, x2d.shape[0] - 1)[:, None], np.clip(s1, 0, x2d.shape[1] - 1)[None, :]]
        out[ok] = vals[ok]
    return out


def layouts(h, w, rng):
    """documented torch layouts for spatial size h x w"""
    c = rng.choice([1, 2, 3, 4])
    b = rng.choice([1, 2])
    return [('2d', (h, w), (0, 1)), ('3d_cf', (c, h, w), (1, 2)), ('4d_cf', (b, c, h, w), (2, 3)),
            ('4d_cl', (b, h, w, c), (1, 2))]


SIZE_TYPES = {'list': list, 'tuple': tuple, 'torch.Size': lambda s: torch.Size([int(e) for e in s]), 'NumPy integer array': lambda s: np.array(s, dtype=np.int64),
              'list of NumPy integers': lambda s: [np.int64(e) for e in s], 'shape of a tensor': lambda s: torch.zeros([int(e) for e in s]).shape,
              'shape of an array': lambda s: np.zeros([int(e) for e in s]).shape}


def call_impl(api, fn, x, size, size_as='list'):
    import odak
    import odak.learn.tools
    import odak.tools
    if api == 'torch':
        f = getattr(odak.learn.tools, fn)
        t = torch.from_numpy(x.copy())
        r = f(t) if size is None else f(t, size=SIZE_TYPES[size_as](size))
        return r.numpy()
    f = getattr(odak.tools, fn)
    return f(x.copy()) if size is None else f(x.copy(), size=SIZE_TYPES[size_as](size))


def per_plane(arr, axes):
    """iterate 2-D spatial planes of arr (spatial axes `axes`)"""
    other = [i for i in range(arr.ndim) if i not in axes]
    moved = np.moveaxis(arr, list(axes), [arr.ndim - 2, arr.ndim - 1])
    for idx in itertools.product(*[range(arr.shape[i]) for i in other]):
        yield idx, moved[idx]


def run(ctx):
    rng = ctx.rng
    ctx.rule = ('index-tagged arrays (value = 1 + flat index) through zero_pad / crop_center / pad-then-crop; a case is '
                '(api, function, layout, h, w, explicit size, dtype); non-trivial = output has at least one zero and one '
                'content sample or is a crop; distinct by that tuple')
    if ctx.quick:
        sides_t = sorted(set([5, 6, 7, 8, 9, 12, 13] + [rng.randint(5, 24) for _ in range(3)]))
        sides_n = sorted(set([1, 2, 3, 4, 5, 6, 7, 8, 11, 12] + [rng.randint(1, 24) for _ in range(2)]))
        extra = [0, 1, 2, 3]
    else:
        sides_t = list(range(5, 25))
        sides_n = list(range(1, 25))
        extra = [0, 1, 2, 3, 4, 5]
        ctx.exhaustive = True
    cases = []
    for api, sides in (('torch', sides_t), ('numpy', sides_n)):
        for h in sides:
            for w in sides:
                if ctx.quick and (h * 7 + w * 3 + ctx.seed) % 3 != 0 and h != w:
                    continue
                sizes = [None] + [(h + e0, w + e1) for e0 in extra for e1 in extra
                                  if (not ctx.quick or (e0 + e1 + h) % 3 == 0)]
                for size in sizes:
                    cases.append((api, h, w, size))
    # model queries
    lines, keys = [], []
    for api, h, w, size in cases:
        ex = size is not None
        S0, S1 = size if ex else (0, 0)
        P0, P1 = (S0, S1) if ex else (2 * h, 2 * w)
        lines += axis_lines(api, 'pad', ex, h, w, S0, S1)
        keys.append(('pad', api, h, w, size))
    padmaps = {}
    if ctx.drv_ok:
        out = ctx.model.ask(lines)
        for i, k in enumerate(keys):
            padmaps[k] = (ctx.model.ints(out[2 * i]), ctx.model.ints(out[2 * i + 1]))
    # crop queries need the *implementation's* padded shape; ask lazily in a second batch
    crop_req = []
    results = []
    for api, h, w, size in cases:
        ex = size is not None
        for dtype in (['real', 'complex'] if (h + w) % 2 == 0 or not ctx.quick else ['real']):
            lays = layouts(h, w, rng) if api == 'torch' else [('2d', (h, w), (0, 1))]
            if ctx.quick and api == 'torch':
                lays = [lays[0], lays[1 + (h + w) % 3]]
            for lname, shape, axes in lays:
                x = tagged(shape, dtype)
                cls = {'api': api, 'fn': 'zero_pad', 'parity_h': h % 2, 'parity_w': w % 2, 'explicit': ex, 'layout': lname}
                rec = {'api': api, 'h': h, 'w': w, 'size': size, 'layout': lname, 'dtype': dtype}
                try:
                    p = call_impl(api, 'zero_pad', x, size)
                except Exception as e:
                    ctx.violation('zero_pad raised %r' % e, rec, dict(cls, what='raises'))
                    continue
                results.append((api, h, w, size, dtype, lname, shape, axes, x, p))
                crop_req.append((api, p.shape[axes[0]], p.shape[axes[1]], (h, w) if ex else None))
    clines = []
    ckeys = sorted(set(crop_req), key=repr)
    for api, P0, P1, size in ckeys:
        S0, S1 = size if size else (0, 0)
        clines += axis_lines(api, 'crop', size is not None, P0, P1, S0, S1)
    cropmaps = {}
    if ctx.drv_ok and clines:
        out = ctx.model.ask(clines)
        for i, k in enumerate(ckeys):
            cropmaps[k] = (ctx.model.ints(out[2 * i]), ctx.model.ints(out[2 * i + 1]))

    for (api, h, w, size, dtype, lname, shape, axes, x, p) in results:
        ex = size is not None
        rec = {'api': api, 'h': h, 'w': w, 'size': size, 'layout': lname, 'dtype': dtype}
        base = {'api': api, 'parity_h': h % 2, 'parity_w': w % 2, 'explicit': ex, 'layout': lname}
        odd = (h % 2 == 1 or w % 2 == 1)
        ctx.count('%s/%s/%s/%s' % (api, lname, 'explicit' if ex else 'default', 'odd' if odd else 'even'))
        ctx.case((api, h, w, size, dtype, lname), True, rec)
        want = (size if ex else (2 * h, 2 * w))
        # ---- monitors on zero_pad
        got_shape = (p.shape[axes[0]], p.shape[axes[1]])
        other_ok = all(p.shape[i] == shape[i] for i in range(len(shape)) if i not in axes) and p.ndim == len(shape)
        if got_shape != tuple(want) or not other_ok:
            ctx.violation('zero_pad output shape %s, expected spatial %s for input %s' % (p.shape, want, shape), rec,
                          dict(base, fn='zero_pad', what='shape', sizeodd=(want[0] - h) % 2 or (want[1] - w) % 2))
        else:
            st = (want[0] // 2 - h // 2, want[1] // 2 - w // 2)
            for (idx, plane), (_, xin) in zip(per_plane(p, axes), per_plane(x, axes)):
                nz = np.argwhere(plane != 0)
                win = plane[st[0]:st[0] + h, st[1]:st[1] + w]
                frame = plane.copy()
                frame[st[0]:st[0] + h, st[1]:st[1] + w] = 0
                if not (np.array_equal(win, xin) and not frame.any()):
                    # content somewhere else?  (still a pad, but not where the optical axis requires)
                    ctx.violation('zero_pad does not place the unchanged content at start (size//2 - side//2) = %s '
                                  '(FFT-centre sample moves)' % (st,), rec,
                                  dict(base, fn='zero_pad', what='placement',
                                       sizeodd=(want[0] - h) % 2 or (want[1] - w) % 2))
                    break
        # ---- correspondence of zero_pad with the model
        k = ('pad', api, h, w, size)
        if k in padmaps:
            m0, m1 = padmaps[k]
            if m0[0] != 1 or m1[0] != 1:
                ctx.alarm('correspondence', 'model flags zero_pad%s as an error but the implementation returned' % (rec,))
            else:
                for (idx, plane), (_, xin) in zip(per_plane(p, axes), per_plane(x, axes)):
                    exp = apply_maps(xin, m0, m1)
                    if exp.shape != plane.shape or not np.array_equal(exp, plane):
                        ctx.alarm('correspondence', 'zero_pad model/implementation differ on %s' % (rec,))
                        break
        # ---- crop back
        csize = (h, w) if ex else None
        try:
            c = call_impl(api, 'crop_center', p, csize)
        except Exception as e:
            ctx.violation('crop_center raised %r' % e, rec, dict(base, fn='crop_center', what='raises'))
            continue
        if c.shape != x.shape or not np.array_equal(c, x):
            ctx.violation('crop_center(zero_pad(x)) != x (shape %s -> %s -> %s)' % (x.shape, p.shape, c.shape), rec,
                          dict(base, fn='crop_center', what='roundtrip'))
        # ---- the explicit size handed over in the other ordinary types (a tuple, the .shape of a tensor or array, NumPy integers): same result
        if ex:
            for size_as in SIZE_TYPES:
                if size_as == 'list':
                    continue
                ctx.count('size_given_as/' + size_as)
                for fn_, arg_, sz_, want_ in (('zero_pad', x, size, p), ('crop_center', p, csize, c)):
                    try:
                        got_ = call_impl(api, fn_, arg_, sz_, size_as)
                    except Exception:
                        ctx.count('size_given_as/rejected: %s' % size_as)
                        continue
                    if got_.shape != want_.shape or not np.array_equal(got_, want_):
                        ctx.violation('%s %s with size = %s given as %s returns shape %s, with the same size given as a list shape %s (contents %s)'
                                      % (api, fn_, list(sz_), size_as, got_.shape, want_.shape, 'equal' if got_.shape == want_.shape and np.array_equal(got_, want_) else 'differ'),
                                      dict(rec, size_as=size_as, fn=fn_), dict(base, fn=fn_, what='size_type', size_as=size_as))
        ck = (api, p.shape[axes[0]], p.shape[axes[1]], csize)
        if ck in cropmaps:
            m0, m1 = cropmaps[ck]
            for (idx, plane), (_, pin) in zip(per_plane(c, axes if c.ndim == p.ndim else (c.ndim - 2, c.ndim - 1)),
                                              per_plane(p, axes)):
                exp = apply_maps(pin, m0, m1)
                if exp.shape != plane.shape or not np.array_equal(exp, plane):
                    ctx.alarm('correspondence', 'crop_center model/implementation differ on %s' % (rec,))
                    break

    # ---- NumPy and torch place content identically (2-D, same arguments)
    for api, h, w, size in cases:
        if api != 'numpy' or h < 5 or w < 5:
            continue
        x = tagged((h, w), 'real')
        try:
            a = call_impl('numpy', 'zero_pad', x, size)
            b = call_impl('torch', 'zero_pad', x, size)
        except Exception:
            continue
        ctx.case(('npvstorch', h, w, size), True)
        if a.shape != b.shape or not np.array_equal(a, b):
            ctx.violation('NumPy and torch zero_pad differ for shape %s size %s' % ((h, w), size),
                          {'h': h, 'w': w, 'size': size},
                          {'api': 'both', 'fn': 'zero_pad', 'what': 'np_vs_torch', 'parity_h': h % 2, 'parity_w': w % 2,
                           'explicit': size is not None})

    # ---- propagate_beam(distance = 0, pad-then-crop) returns the field (observation point named by the property)
    import odak.learn.wave
    for (h, w) in ([(5, 7), (6, 6), (9, 5), (8, 11)] if ctx.quick else [(a, b) for a in range(5, 12) for b in range(5, 12)]):
        g = torch.Generator().manual_seed(ctx.seed * 1000 + h * 31 + w)
        u = torch.complex(torch.randn(h, w, generator=g, dtype=torch.float64), torch.randn(h, w, generator=g, dtype=torch.float64))
        k = 2 * np.pi / 0.5
        try:
            r = odak.learn.wave.propagate_beam(u, k, 0., 1., 0.5, propagation_type='Angular Spectrum',
                                               zero_padding=[True, False, True])
        except Exception as e:
            ctx.violation('propagate_beam(z=0, pad-then-crop) raised %r' % e, {'h': h, 'w': w},
                          {'api': 'torch', 'fn': 'propagate_beam', 'what': 'raises', 'parity_h': h % 2, 'parity_w': w % 2})
            continue
        ctx.case(('pb0', h, w), True)
        if tuple(r.shape[-2:]) != (h, w) or not torch.allclose(r.reshape(h, w).to(u.dtype), u, atol=1e-4):
            ctx.violation('propagate_beam(z=0, zero_padding=[True,False,True]) != input for %dx%d' % (h, w), {'h': h, 'w': w},
                          {'api': 'torch', 'fn': 'propagate_beam', 'what': 'z0_padcrop', 'parity_h': h % 2, 'parity_w': w % 2})
    # ---- executable tie of the regenerated TENSOR PROGRAMS (rank / layout handling, allocation, slice store, np.pad, squeezes)
    from .genpadcrop import check_generated_padcrop
    check_generated_padcrop(ctx)


def replay(ctx, rep):
    r = rep['replay']
    if 'layout' not in r:
        return True
    h, w, size = r['h'], r['w'], r['size']
    lay = dict((l[0], l) for l in layouts(h, w, ctx.rng))[r['layout']] if r['api'] == 'torch' else ('2d', (h, w), (0, 1))
    shape = lay[1]
    x = tagged(shape, r['dtype'])
    p = call_impl(r['api'], 'zero_pad', x, tuple(size) if size else None)
    c = call_impl(r['api'], 'crop_center', p, (h, w) if size else None)
    print('input shape', x.shape, 'padded', p.shape, 'cropped', c.shape)
    return c.shape == x.shape and np.array_equal(c, x)
