"""Executable tie of lean/OdakModel/Generated/Slicers.lean (the output of harness/translate/slicers.py): the generated per-pixel
definitions are evaluated at Float by the driver (lean/OdakModel/Exec/OpsGenSlice.lean) and compared, pixel by pixel, with the
masks / targets / all-in-focus target of the real `multiplane_loss`, `perceptual_multiplane_loss` and `slice_rgbd_targets`:
depth values exactly on the plane positions, exactly half way between two planes (dyadic values, so that float32 and float64 see
the same tie), 0, 1 and random values.  A disagreement is a broken correspondence (translator or model), reported as an alarm."""
import logging
import warnings
import numpy as np
import torch
from ..lib.core import f2b, b2f

logging.disable(logging.WARNING)
warnings.filterwarnings('ignore')


def depth_values(rng, n, count):
    vals = [0.0, 1.0, 0.25, 0.5, 0.75, 0.125, 0.375, 0.625, 0.875]            # dyadic: exact ties for n - 1 = 2, 4
    if n > 1:
        vals += [k / (n - 1) for k in range(n)]                              # exactly on the plane positions
    vals += [rng.randrange(0, 65) / 64.0 for _ in range(6)]
    while len(vals) < count:
        vals.append(rng.random())
    return np.float32(np.array(vals[:count]))


def check_generated_slicers(ctx):
    import odak.learn.wave as LW
    from odak.learn.perception.util import slice_rgbd_targets
    rng = ctx.rng
    lines, wants, recs = [], [], []
    for cls_id, cls_name, h, w, ch, planes in ((0, 'multiplane_loss', 5, 6, 1, (1, 2, 3, 4, 6)), (0, 'multiplane_loss', 5, 6, 3, (3, 5)),
                                               (1, 'perceptual_multiplane_loss', 16, 16, 3, (2, 3) if ctx.quick else (1, 2, 3, 5))):
        for n in planes:
            depth = depth_values(rng, n, h * w).reshape(h, w)
            image = np.float32(np.array([[[rng.uniform(0.05, 1) for _ in range(w)] for _ in range(h)] for _ in range(ch)]))
            kw = dict(number_of_planes=n, target_blur_size=5, scheme='none')
            if cls_id == 1:
                kw['base_loss_weights'] = {'base_l2_loss': 1.}
            obj = getattr(LW, cls_name)(torch.from_numpy(image.copy()), torch.from_numpy(depth.copy()), **kw)
            masks = obj.masks.numpy().astype(np.float64)                       # [n, ch, h, w]
            targets, focus, _ = obj.get_targets()
            targets, focus = targets.numpy().astype(np.float64) / float(obj.multiplier), focus.numpy().astype(np.float64)
            ctx.case(('gen', cls_name, n, ch), True)
            ctx.count('generated/%s' % cls_name)
            c = rng.randrange(ch)
            for y in range(h):
                for x in range(w):
                    d = float(depth[y, x])
                    prod = d * (n - 1)
                    dyadic = (d * 64) == int(d * 64)
                    if abs(abs(prod - np.floor(prod)) - 0.5) < 1e-5 and not dyadic:
                        continue          # a float32 rounding tie that float64 does not see (or the reverse)
                    lines.append('gl_plane %d %d %d %d' % (cls_id, n, f2b(d), f2b(float(image[c, y, x]))))
                    wants.append(np.concatenate([[np.nan], masks[:, c, y, x], targets[:, c, y, x], [focus[c, y, x]]]))
                    recs.append({'class': cls_name, 'planes': n, 'depth': d, 'channel': c})
    # slice_rgbd_targets: comparisons only, float32 values are exact in float64
    for n in (1, 2, 3, 5):
        for variant in ('linspace', 'random', 'duplicates'):
            if variant == 'linspace':
                ps = np.linspace(0, 1, n + 1)
            elif variant == 'random':
                ps = np.sort(np.array([0.0, 1.0] + [rng.random() for _ in range(n - 1)]))
            else:
                ps = np.sort(np.array([0.0, 1.0] + [rng.choice([0.25, 0.5, 0.5]) for _ in range(n - 1)]))
            ps32 = [float(np.float32(p)) for p in ps]
            h, w = 4, 5
            depth = np.float32(np.array([rng.random() for _ in range(h * w)]))
            depth[:len(ps32)] = ps32                                              # exactly on every plane position
            depth = depth.reshape(h, w)
            image = np.float32(np.array([[[rng.uniform(0.05, 1) for _ in range(w)] for _ in range(h)] for _ in range(3)]))
            tg, mk = slice_rgbd_targets(torch.from_numpy(image.copy()), torch.from_numpy(depth.copy()).unsqueeze(0),
                                        torch.tensor(ps32, dtype=torch.float32))
            tg, mk = tg.numpy().astype(np.float64), mk.numpy().astype(np.float64)
            ctx.case(('gen', 'slice_rgbd_targets', n, variant), True)
            ctx.count('generated/slice_rgbd_targets')
            c = rng.randrange(3)
            for y in range(h):
                for x in range(w):
                    lines.append('gl_slice %d %d %s' % (f2b(float(depth[y, x])), f2b(float(image[c, y, x])), ' '.join(str(f2b(p)) for p in ps32)))
                    wants.append(np.concatenate([mk[:, c, y, x], tg[:, c, y, x]]))
                    recs.append({'fn': 'slice_rgbd_targets', 'positions': ps32, 'depth': float(depth[y, x])})
    if ctx.drv_ok and lines:
        outs = ctx.model.ask(lines)
        bad = 0
        for line, want, rec, out in zip(lines, wants, recs, outs):
            try:
                got = np.array([b2f(t) for t in out.split()], dtype=np.float64)
            except ValueError:
                got = np.array([])
            ok = got.shape == want.shape
            if ok:
                cmp = ~np.isnan(want)
                ok = bool(np.all(np.abs(got[cmp] - want[cmp]) <= 1e-6))
            if not ok:
                bad += 1
                if bad <= 5:
                    ctx.alarm('correspondence', 'generated slicer: implementation %s vs regenerated definition %s (%s)'
                              % (np.round(want, 6).tolist(), np.round(got, 6).tolist() if got.size else out[:80], rec))
    done = set(ctx.extra.get('generated_definitions_checked', []))
    ctx.extra['generated_definitions_checked'] = sorted(done | {'multiplane_loss.set_targets', 'perceptual_multiplane_loss.set_targets',
                                                                'slice_rgbd_targets'})
