"""C17 – losses vanish at identity, are non-negative and do not depend on call history.
Op-sequence differential testing of the gaze-contingent loss objects: for random sequences of (image, target, gaze, size) calls the
cache decisions (was the cached target quantity replaced?) are compared with the Lean keyed-cache model, and every value with a
fresh object.  Monitors: sign / zero / periodicity / monotonicity of every shipped loss."""
import logging
import math
import warnings
import numpy as np
import torch
from ..lib.core import f2b, b2f

logging.disable(logging.WARNING)
warnings.filterwarnings('ignore')

TRUSTED = ['steerable pyramid, pooling and metamer synthesis are uninterpreted functions of (target, gaze) in the model',
           'cache decisions are observed through attribute identity of target_stats / target_metamer / lod_map (no hooks)']
ASSUMPTIONS = ['images in [0, 1], 32x32 and 48x32, 2 pyramid levels (kept small so sequences of 6-8 calls run in seconds)']


def imgs(seed, shape):
    g = torch.Generator().manual_seed(seed)
    return torch.rand(shape, generator=g)


def run(ctx):
    import odak.learn.perception as P
    import odak.learn.tools as LT
    import odak.learn.wave as LW
    from odak.learn.perception.image_quality_losses import PSNR
    rng = ctx.rng
    ctx.rule = ('random call sequences (length 3-8) over 2-3 targets, 3 gaze points and 2 image sizes on one loss object per class '
                '(MetamericLoss, MetamerMSELoss, BlurLoss, MetamericLossUniform, RadiallyVaryingBlur); non-trivial = the sequence '
                'changes gaze or size while keeping the target; distinct by (class, key sequence)')
    gazes = [[0.5, 0.5], [0.2, 0.7], [0.9, 0.1]]
    shapes = [(1, 3, 32, 32), (1, 3, 48, 32)]
    targets = {(s, k): imgs(100 + 10 * si + k, s) for si, s in enumerate(shapes) for k in range(3)}

    def make(cls):
        if cls == 'MetamericLoss':
            return P.MetamericLoss(n_pyramid_levels=2, n_orientations=2)
        if cls == 'MetamericLoss/radial_weight':
            return P.MetamericLoss(n_pyramid_levels=2, n_orientations=2, use_radial_weight=True)
        if cls == 'MetamericLoss/fullres_l0':
            return P.MetamericLoss(n_pyramid_levels=2, n_orientations=2, use_fullres_l0=True, use_l2_foveal_loss=False)
        if cls == 'MetamericLoss/no_foveal_l2':
            return P.MetamericLoss(n_pyramid_levels=2, n_orientations=2, use_l2_foveal_loss=False, mode='linear')
        if cls == 'BlurLoss/no_source_blur':
            return P.BlurLoss(blur_source=False, mode='linear')
        if cls == 'MetamerMSELoss':
            return P.MetamerMSELoss(n_pyramid_levels=2, n_orientations=2)
        if cls == 'BlurLoss':
            return P.BlurLoss(blur_source=True)
        return P.MetamericLossUniform(n_pyramid_levels=2, n_orientations=2, pooling_size=8)

    def call(obj, cls, image, target, gaze):
        if cls == 'MetamericLossUniform':
            return float(obj(image, target))
        return float(obj(image, target, gaze=gaze))

    def cached(obj, cls):
        if cls.startswith('MetamericLoss'):
            return getattr(obj, 'target_stats', None)
        if cls == 'MetamerMSELoss':
            return getattr(obj, 'target_metamer', None)
        return None

    # ---- a preallocated target buffer refilled IN PLACE between calls (target.copy_(next_frame)): same object, new contents.  Unpadded sizes and inputs
    # that need no colour conversion (single channel / YCrCb) reach the loss object as the caller's own tensor.
    for cls_b, ctor, chans, kw_b in (('MetamericLoss/grey_buffer', lambda: P.MetamericLoss(n_pyramid_levels=2, n_orientations=2), 1, {}),
                                     ('MetamericLoss/ycrcb_buffer', lambda: P.MetamericLoss(n_pyramid_levels=2, n_orientations=2), 3, {'image_colorspace': 'YCrCb'}),
                                     ('MetamericLoss/rgb_buffer', lambda: P.MetamericLoss(n_pyramid_levels=2, n_orientations=2), 3, {}),
                                     ('MetamerMSELoss/rgb_buffer', lambda: P.MetamerMSELoss(n_pyramid_levels=2, n_orientations=2), 3, {}),
                                     ('BlurLoss/grey_buffer', lambda: P.BlurLoss(blur_source=True), 1, {}),
                                     ('BlurLoss/rgb_buffer', lambda: P.BlurLoss(blur_source=True), 3, {})):
        for size_b in ((32, 32), (32, 48)):
            gb = torch.Generator().manual_seed(ctx.seed * 7 + size_b[1] + chans)
            frames = [torch.rand(1, chans, *size_b, generator=gb) for _ in range(3)]
            image_b = torch.rand(1, chans, *size_b, generator=gb)
            gaze_b = [0.4, 0.6]
            ctx.case((cls_b, size_b), True)
            ctx.count('target_buffer_refilled_in_place/' + cls_b)
            ctx.traces += 1
            try:
                obj = ctor()
                buf = frames[0].clone()
                got = []
                for fr in frames:
                    buf.copy_(fr)
                    got.append(float(obj(image_b, buf, gaze=gaze_b, **kw_b)))
                buf.copy_(image_b)
                at_identity = float(obj(image_b, buf, gaze=gaze_b, **kw_b))
                want = [float(ctor()(image_b, fr.clone(), gaze=gaze_b, **kw_b)) for fr in frames]
                want_identity = float(ctor()(image_b, image_b.clone(), gaze=gaze_b, **kw_b))
            except Exception as e:
                ctx.note('%s with a target buffer raised %r' % (cls_b, e))
                continue
            for i, (a, b) in enumerate(zip(got + [at_identity], want + [want_identity])):
                if not (abs(a - b) <= 1e-5 * max(1.0, abs(b))):
                    ctx.violation('%s: with ONE target tensor refilled in place between calls, call %d returns %.8g, a fresh object returns %.8g for the same '
                                  'image, target contents and gaze (size %s)' % (cls_b, i, a, b, list(size_b)),
                                  {'class': cls_b, 'size': list(size_b), 'call': i}, {'class': cls_b.split('/')[0], 'what': 'history', 'target_buffer': True})
                    break

    nseq = ctx.n(3, 20)
    for cls in ('MetamericLoss', 'MetamericLoss/radial_weight', 'MetamericLoss/fullres_l0', 'MetamericLoss/no_foveal_l2', 'MetamerMSELoss',
                'BlurLoss', 'BlurLoss/no_source_blur', 'MetamericLossUniform'):
        for it in range(nseq if '/' not in cls else max(2, nseq // 2)):
            L = rng.randint(3, ctx.n(6, 8))
            seq = []
            for _ in range(L):
                if seq and rng.random() < 0.55:
                    s, k, g = seq[-1]
                    c = rng.random()
                    if c < 0.45:
                        g = rng.randrange(3)
                    elif c < 0.6:
                        s = 1 - s
                    # else: identical repeat
                    seq.append((s, k, g))
                else:
                    seq.append((rng.randrange(2), rng.randrange(3), rng.randrange(3)))
            obj = make(cls)
            rec = {'class': cls, 'sequence': seq, 'seed': ctx.seed}
            gaze_or_size_change = any(a[1] == b[1] and (a[0] != b[0] or a[2] != b[2]) for a, b in zip(seq, seq[1:]))
            ctx.case((cls, tuple(seq)), gaze_or_size_change, rec if it == 0 else None)
            ctx.count('%s/%s' % (cls, 'gaze_or_size_change' if gaze_or_size_change else 'other'))
            ctx.traces += 1
            decisions, vals, failed = [], [], False
            prev_cache = None
            for (s, k, g) in seq:
                shape = shapes[s]
                tgt = targets[(shape, k)].clone()
                image = imgs(7 + k, shape)
                try:
                    v = call(obj, cls, image, tgt, gazes[g])
                except Exception as e:
                    ctx.violation('%s raised %r on call %d of sequence %s (size, target, gaze indices)' % (cls, e, len(vals), seq), rec,
                                  {'class': cls, 'what': 'raises_in_sequence'})
                    failed = True
                    break
                cur = cached(obj, cls)
                decisions.append(0 if (cur is prev_cache) else 1)
                prev_cache = cur
                vals.append(v)
                fresh = call(make(cls), cls, image, tgt, gazes[g])
                if not (math.isfinite(v) and abs(v - fresh) <= 1e-5 * max(1.0, abs(fresh))):
                    ctx.violation('%s: call %d of sequence %s returns %.8g, a fresh object returns %.8g' % (cls, len(vals) - 1, seq, v, fresh),
                                  dict(rec, call=len(vals) - 1), {'class': cls, 'what': 'history'})
                    failed = True
                    break
                if v < -1e-9:
                    ctx.violation('%s returned a negative value %g' % (cls, v), rec, {'class': cls, 'what': 'negative'})
            if failed or cls.startswith('BlurLoss'):
                continue
            # decision sequence vs the keyed-cache model (key = (size, target, gaze); uniform loss has no gaze)
            if ctx.drv_ok:
                keys = [(s * 100 + k * 10 + (g if cls != 'MetamericLossUniform' else 0)) for (s, k, g) in seq]
                mo = [int(t) for t in ctx.model.ask(['cache_seq ' + ' '.join(str(x) for x in keys)])[0].split()]
                if mo != decisions:
                    ctx.alarm('correspondence', '%s: cache refresh decisions %s differ from the keyed-cache model %s for sequence %s'
                              % (cls, decisions, mo, seq))
                __import__('harness.props.genstatemachines', fromlist=['x']).compare_decisions(ctx, cls, seq, decisions)   # … and from the REGENERATED step functions
    # ---- RadiallyVaryingBlur: lod-map cache keyed on everything it depends on
    from odak.learn.perception.radially_varying_blur import RadiallyVaryingBlur
    for it in range(ctx.n(3, 15)):
        b = RadiallyVaryingBlur()
        seq = []
        for _ in range(rng.randint(3, 7)):
            seq.append((rng.randrange(2), rng.choice([0.1, 0.3]), rng.randrange(3), rng.choice(['quadratic', 'linear'])))
        ctx.case(('RadiallyVaryingBlur', tuple(seq)), True)
        ctx.traces += 1
        for (s, alpha, g, mode) in seq:
            x = imgs(5, shapes[s])
            out = b.blur(x, alpha, 0.2, 0.7, gazes[g], mode)
            fresh = RadiallyVaryingBlur().blur(x, alpha, 0.2, 0.7, gazes[g], mode)
            if not torch.allclose(out, fresh, atol=1e-6):
                ctx.violation('RadiallyVaryingBlur.blur depends on the call history for sequence %s' % (seq,), {'sequence': seq},
                              {'class': 'RadiallyVaryingBlur', 'what': 'history'})
                break
    # ---- zero at identity / non-negativity / finiteness
    for cls in ('MetamericLoss', 'MetamericLoss/radial_weight', 'MetamericLoss/fullres_l0', 'MetamerMSELoss', 'BlurLoss', 'MetamericLossUniform'):
        t = targets[(shapes[0], 0)]
        v = call(make(cls), cls, t.clone(), t.clone(), gazes[1])
        ctx.case(('identity', cls), True)
        if not (math.isfinite(v) and abs(v) <= 1e-7):
            ctx.violation('%s(image = target) = %.6g, not zero' % (cls, v), {'class': cls}, {'class': cls, 'what': 'zero_at_identity'})
    N = ctx.n(30, 300)
    psnr = PSNR()
    for _ in range(N):
        h, w = rng.choice([(8, 8), (5, 7), (16, 12)])
        a = torch.rand(1, 1, h, w, generator=torch.Generator().manual_seed(rng.randrange(10 ** 6)))
        b = torch.rand(1, 1, h, w, generator=torch.Generator().manual_seed(rng.randrange(10 ** 6)))
        ctx.case(('simple', h, w, float(a[0, 0, 0, 0])), True)
        checks = {
            'histogram_loss': (float(LT.histogram_loss(a, b, bins=8)), float(LT.histogram_loss(a, a, bins=8))),
            'wrapped_mean_squared_error': (float(LT.wrapped_mean_squared_error(a * 6, b * 6)), float(LT.wrapped_mean_squared_error(a * 6, a * 6))),
            'total_variation_loss': (float(LT.total_variation_loss(a)), float(LT.total_variation_loss(torch.full_like(a, 0.3)))),
            'multi_scale_total_variation_loss': (float(LT.multi_scale_total_variation_loss(a, levels=2)),
                                                 float(LT.multi_scale_total_variation_loss(torch.full_like(a, 0.3), levels=2))),
        }
        for name, (val, zero) in checks.items():
            if not (math.isfinite(val) and val >= 0):
                ctx.violation('%s is negative or not finite: %g' % (name, val), {'loss': name}, {'class': name, 'what': 'negative'})
            if abs(zero) > 1e-9:
                ctx.violation('%s is not zero at identity / on a uniform image: %g' % (name, zero), {'loss': name},
                              {'class': name, 'what': 'zero_at_identity'})
        k = rng.randint(-3, 3)
        w1 = float(LT.wrapped_mean_squared_error(a.double() * 6 + 2 * math.pi * k, b.double() * 6))
        w0 = float(LT.wrapped_mean_squared_error(a.double() * 6, b.double() * 6))
        if abs(w1 - w0) > 1e-9:
            ctx.violation('wrapped phase error is not 2pi-periodic: %g vs %g' % (w0, w1), {'k': k}, {'class': 'wrapped_mean_squared_error', 'what': 'periodic'})
        e1, e2 = rng.uniform(0.01, 0.1), rng.uniform(0.2, 0.5)
        p1, p2 = float(psnr(a + e1, a)), float(psnr(a + e2, a))
        if not p1 > p2:
            ctx.violation('PSNR does not grow as the error shrinks: %g (error %g) vs %g (error %g)' % (p1, e1, p2, e2), {}, {'class': 'PSNR', 'what': 'monotone'})
        # model correspondence for the simple formulas
        if ctx.drv_ok:
            fa, fb = a.double().reshape(-1).tolist(), b.double().reshape(-1).tolist()
            mo = ctx.model.ask(['wrapped_mse ' + ' '.join(str(f2b(x * 6)) for x in fa + fb),
                                'tv %d %d %s' % (h, w, ' '.join(str(f2b(x)) for x in fa)),
                                'mse ' + ' '.join(str(f2b(x)) for x in fa + fb)])
            got = [float(LT.wrapped_mean_squared_error(a.double() * 6, b.double() * 6)), float(LT.total_variation_loss(a.double())),
                   float(torch.nn.MSELoss()(a.double(), b.double()))]
            for nm, g_, m_ in zip(('wrapped_mean_squared_error', 'total_variation_loss', 'mse'), got, mo):
                if abs(g_ - b2f(m_)) > 1e-9 * max(1.0, abs(g_)):
                    ctx.alarm('correspondence', '%s: implementation %r vs model %r' % (nm, g_, b2f(m_)))
    # multiplane loss, phase gradient, speckle contrast
    for ch in (1, 3):
        img = torch.rand(ch, 12, 10, generator=torch.Generator().manual_seed(3))
        dep = torch.rand(12, 10, generator=torch.Generator().manual_seed(4))
        ml = LW.multiplane_loss(img, dep, number_of_planes=3, target_blur_size=5, scheme='defocus')
        tg = ml.get_targets()[0]
        ctx.case(('multiplane', ch), True)
        for pid in range(3):
            z = float(ml(tg[pid], tg[pid], plane_id=pid))
            nz = float(ml(torch.rand_like(tg[pid]), tg[pid], plane_id=pid))
            if abs(z) > 1e-9 or not (nz >= 0 and math.isfinite(nz)):
                ctx.violation('multiplane_loss: value at identity %g, random %g' % (z, nz), {'channels': ch, 'plane': pid},
                              {'class': 'multiplane_loss', 'what': 'zero_at_identity'})
    multiplane_family(ctx)
    simple_losses_more(ctx)
    pg = LW.phase_gradient()
    sc = LW.speckle_contrast(kernel_size=3)
    for _ in range(ctx.n(5, 40)):
        ph = torch.rand(9, 9, generator=torch.Generator().manual_seed(rng.randrange(10 ** 6))) * 6.28
        inten = torch.rand(9, 9, generator=torch.Generator().manual_seed(rng.randrange(10 ** 6))) + 0.1
        ctx.case(('regularisers', float(ph[0, 0])), True)
        v1, v2 = float(pg(ph)), float(sc(inten))
        if not (math.isfinite(v1) and v1 >= 0):
            ctx.violation('phase_gradient is negative or not finite: %g' % v1, {}, {'class': 'phase_gradient', 'what': 'negative'})
        if not (math.isfinite(v2) and v2 >= 0):
            ctx.violation('speckle_contrast is negative or not finite: %g' % v2, {}, {'class': 'speckle_contrast', 'what': 'negative'})
    for val in (0.25, 0.5, 1.0, 3.0):
        u = float(sc(torch.full((9, 9), val)))
        ctx.case(('speckle_uniform', val), True)
        if not (math.isfinite(u) and abs(u) <= 1e-5):
            ctx.violation('speckle_contrast of a uniform image of value %g is %r (expected 0)' % (val, u), {'value': val},
                          {'class': 'speckle_contrast', 'what': 'uniform_zero', 'nan': bool(math.isnan(u))})

    # ---- ONE gaze list object updated in place by the caller between calls: every gaze-contingent loss returns what a new object returns for the current gaze
    import odak.learn.perception as LPg
    gg_ = torch.Generator().manual_seed(ctx.seed + 172)
    img_g, tgt_g = torch.rand(1, 3, 64, 64, generator=gg_), torch.rand(1, 3, 64, 64, generator=gg_)
    for nm_, mk_ in (('BlurLoss', lambda: LPg.BlurLoss()), ('MetamericLoss', lambda: LPg.MetamericLoss()), ('MetamerMSELoss', lambda: LPg.MetamerMSELoss())):
        ob_, gl = mk_(), [0.7, 0.6]
        for step_, (g0, g1) in enumerate(((0.7, 0.6), (0.1, 0.6), (0.1, 0.2), (0.1, 0.2), (0.9, 0.5))):
            gl[0], gl[1] = g0, g1
            ctx.case(('gaze_list_in_place', nm_, step_), True)
            ctx.count('gaze list updated in place/' + nm_)
            got_ = float(ob_(img_g, tgt_g, gaze=gl))
            want_ = float(mk_()(img_g, tgt_g, gaze=[g0, g1]))
            if abs(got_ - want_) > 1e-5 * max(1.0, abs(want_)):
                ctx.violation('%s: after the caller updated its gaze list in place to %s the loss is %.8g, a new object returns %.8g for that gaze' % (nm_, [g0, g1], got_, want_),
                              {'loss': nm_, 'gaze': [g0, g1], 'step': step_, 'gaze_list_in_place': True}, {'loss': nm_, 'what': 'gaze_list_in_place'})
                break
    # ---- the value of a loss for float32 images (what load_image returns) does not depend on global settings of torch: default dtype float64 (a double
    # precision pipeline elsewhere in the program), grad mode switched off; each entry returns under these settings on the unchanged tree
    from ..lib import settings as ST
    import odak.learn.perception as LPs
    import odak.learn.tools as LTs
    g_ = torch.Generator().manual_seed(ctx.seed + 171)
    for ch_ in (3, 1):
        im_, tg_ = torch.rand(1, ch_, 64, 64, generator=g_, dtype=torch.float32), torch.rand(1, ch_, 64, 64, generator=g_, dtype=torch.float32)
        entries = [('BlurLoss', lambda: LPs.BlurLoss()(im_, tg_, gaze=[0.4, 0.6])),
                   ('BlurLoss(blur_source) at identity', lambda: LPs.BlurLoss(blur_source=True)(im_, im_.clone(), gaze=[0.4, 0.6])),
                   ('BlurLoss(equi)', lambda: LPs.BlurLoss(equi=True)(im_, tg_, gaze=[0.4, 0.2])),
                   ('MetamericLoss', lambda: LPs.MetamericLoss()(im_, tg_, gaze=[0.4, 0.6])),
                   ('MetamericLossUniform', lambda: LPs.MetamericLossUniform()(im_, tg_)),
                   ('total_variation_loss', lambda: LTs.total_variation_loss(im_[0, 0])),
                   ('histogram_loss', lambda: LTs.histogram_loss(im_, tg_, bins=8, limits=[0., 1.])),
                   ('wrapped_mean_squared_error', lambda: LTs.wrapped_mean_squared_error(im_ * 6.28, tg_ * 6.28))]
        for nm_, f_ in entries:
            # single-channel float32 images are rejected by the metameric losses when the default dtype is float64 (their pyramid filters are built in the
            # default dtype and convolved with the image as it is; RGB images pass through rgb_2_ycrcb first): a rejected configuration, not judged
            ST.differential(ctx, 'C17 %s, %d channel float32 images' % (nm_, ch_), f_, rtol=1e-3, atol=1e-6, cls={'loss': nm_},
                            must_return=not (ch_ == 1 and nm_.startswith('Metameric')))
    __import__('harness.props.genlosses', fromlist=['x']).check_generated_losses(ctx)   # regenerated loss formulas vs /repo
    __import__('harness.props.genstatemachines', fromlist=['x']).check_generated_state_machines(ctx)   # regenerated state machines vs /repo
    __import__('harness.props.genstatsmaps', fromlist=['x']).check_generated_statsmaps(ctx)   # regenerated calc_statsmaps (sub-objects) vs /repo

def multiplane_eval(rec):
    """multiplane_loss / perceptual_multiplane_loss from a record: returns list of (what, text)"""
    import odak.learn.wave as LW
    ch, h, w, planes = rec['channels'], rec['h'], rec['w'], rec['planes']
    g = torch.Generator().manual_seed(rec['torch_seed'])
    img = torch.rand(ch, h, w, generator=g)
    dep = torch.rand(h, w, generator=g)
    if rec['depth'] == 'constant':
        dep = torch.full((h, w), 0.4)
    elif rec['depth'] == 'levels':
        dep = torch.randint(0, planes, (h, w), generator=g).float() / max(1, planes - 1)
    kw = dict(number_of_planes=planes, target_blur_size=rec['blur_size'], scheme=rec['scheme'], reduction=rec['reduction'], multiplier=rec['multiplier'],
              blur_ratio=rec['blur_ratio'])
    if rec['class'] == 'perceptual_multiplane_loss':
        kw['additional_loss_weights'] = dict(rec['additional'])
        kw['return_components'] = rec['return_components']
        if rec['base_weights'] is not None:
            kw['base_loss_weights'] = dict(rec['base_weights'])
        loss = LW.perceptual_multiplane_loss(img, dep, **kw)
    else:
        if rec['base_weights'] is not None:
            kw['weights'] = list(rec['base_weights'])
        loss = LW.multiplane_loss(img, dep, **kw)
    targets = loss.get_targets()[0]
    fails = []
    if tuple(targets.shape) != (planes, ch, h, w) or not torch.isfinite(targets).all():
        return [('targets', 'get_targets() returns shape %s / non-finite values for %d planes of a %dx%dx%d image' % (tuple(targets.shape), planes, ch, h, w))]
    base_only = rec['class'] == 'multiplane_loss' or not rec['additional']

    def val(image, target, pid):
        out = loss(image, target, plane_id=pid)
        comps = None
        if isinstance(out, tuple):
            out, comps = out
        return out, comps
    other = torch.rand(ch, h, w, generator=g)
    for pid in [None] + list(range(planes)):
        tg = targets[pid] if pid is not None else targets[rec['torch_seed'] % planes]
        z, zc = val(tg.clone(), tg.clone(), pid)
        nz, nc = val(other, tg.clone(), pid)
        again, _ = val(other, tg.clone(), pid)                    # same arguments after other calls on the object: same value
        if not (torch.isfinite(nz).all() and torch.isfinite(z).all()):
            if base_only or not torch.isfinite(nz).all():
                fails.append(('finite', 'plane_id=%s: value %s at identity, %s for a random image' % (pid, z.reshape(-1)[:3].tolist(), nz.reshape(-1)[:3].tolist())))
            continue
        if base_only and float(z.abs().max()) > 1e-9:
            fails.append(('zero_at_identity', 'plane_id=%s: value %g for image = target' % (pid, float(z.abs().max()))))
        if base_only and float(nz.min()) < 0:
            fails.append(('negative', 'plane_id=%s: value %g for a random image' % (pid, float(nz.min()))))
        if base_only and rec['multiplier'] != 0 and not float(nz.sum()) > 0:
            fails.append(('positive', 'plane_id=%s: value %g for an image that differs from the target' % (pid, float(nz.sum()))))
        if not torch.equal(nz, again):
            fails.append(('history', 'plane_id=%s: the same call gives %g and then %g' % (pid, float(nz.sum()), float(again.sum()))))
        if rec['reduction'] != 'none' and nz.numel() != 1:
            fails.append(('scalar', 'plane_id=%s: reduction %r returns %s' % (pid, rec['reduction'], tuple(nz.shape))))
        if nc is not None:
            tot = sum(v for v in nc.values())
            if not torch.allclose(tot, nz, rtol=1e-5, atol=1e-7) or any(float(torch.as_tensor(v).min()) < 0 for k_, v in nc.items() if k_.startswith('l')):
                fails.append(('components', 'plane_id=%s: the returned components %s do not add up to the loss %g / a base component is negative'
                              % (pid, {k_: float(torch.as_tensor(v).sum()) for k_, v in nc.items()}, float(nz.sum()))))
    return fails


def multiplane_family(ctx):
    rng = ctx.rng
    ADD = [{}, {}, {}, {'ssim': 1.}, {'msssim': 0.5}, {'cvvdp': 1.}, {'lpips': 1.}, {'fvvdp': 1.}]
    k = 0
    for cls in ('multiplane_loss', 'perceptual_multiplane_loss'):
        for planes in (1, 2, 3, 4):
            for scheme in ('defocus', 'naive'):
                for rep_ in range(ctx.n(1, 4)):
                    k += 1
                    ch = 3 if k % 3 else 1
                    h, w = [(12, 10), (9, 16), (8, 8), (7, 5)][k % 4]
                    rec = {'class': cls, 'channels': ch, 'h': h, 'w': w, 'planes': planes, 'scheme': scheme,
                           'reduction': ['mean', 'sum', 'mean', 'none'][k % 4] if cls == 'multiplane_loss' or k % 4 != 3 else 'mean',
                           'multiplier': [1.0, 1.0, 0.5, 2.0][(k // 2) % 4], 'blur_size': [3, 4, 5][k % 3], 'blur_ratio': [0.25, 1.0, 0.5][(k // 3) % 3],
                           'depth': ['random', 'levels', 'random', 'constant'][(k // 2) % 4], 'torch_seed': rng.randrange(10 ** 6),
                           'additional': ADD[k % len(ADD)] if cls == 'perceptual_multiplane_loss' else {}, 'return_components': bool(k % 2),
                           'base_weights': None}
                    if k % 5 == 0:
                        rec['base_weights'] = [rng.uniform(0.1, 3) for _ in range(3)] if cls == 'multiplane_loss' else \
                            {n_: rng.uniform(0.1, 3) for n_ in ('base_l2_loss', 'loss_l2_mask', 'loss_l2_cor', 'base_l1_loss', 'loss_l1_mask', 'loss_l1_cor')}
                    ctx.case((cls, planes, scheme, ch, h, w, rec['reduction'], rec['torch_seed']), True, rec if len(ctx.samples) < 6 else None)
                    ctx.count('%s/%d planes/%s/%s' % (cls, planes, scheme, rec['reduction']))
                    if rec['additional']:
                        ctx.count('perceptual_multiplane_loss/additional=%s' % sorted(rec['additional'])[0])
                    try:
                        fails = multiplane_eval(rec)
                    except Exception as e:
                        ctx.violation('%s raised %r' % (cls, e), rec, {'class': cls, 'what': 'raises', 'additional': sorted(rec['additional'])[0] if rec['additional'] else None})
                        continue
                    for what, text in fails:
                        ctx.violation('%s (%d planes, %s, %s): %s' % (cls, planes, scheme, rec['reduction'], text), rec, {'class': cls, 'what': what, 'planes': planes})


def simple_losses_more(ctx):
    """multi_scale_total_variation_loss (every level count the frame size allows, every documented frame shape) and histogram_loss (bin counts, limits,
    every documented frame shape): finite, non-negative, zero on a uniform frame / at identity"""
    import odak.learn.tools as LT
    rng = ctx.rng
    SH = [(1, 3, 8, 12), (3, 8, 8), (12, 8), (5, 7), (1, 3, 9, 6), (16, 16), (1, 1, 4, 4), (2, 2)]
    for k in range(ctx.n(24, 200)):
        shape = SH[k % len(SH)]
        a = torch.rand(*shape, generator=torch.Generator().manual_seed(rng.randrange(10 ** 6))) * rng.choice([1.0, 1.0, 5.0])
        if k % 6 == 0:
            a = a.double()
        maxlev = 1
        side = min(shape[-2:])
        while side // 2 >= 1:
            maxlev, side = maxlev + 1, side // 2
        prev = None
        for levels in range(1, min(maxlev, 5) + 1):
            rec = {'loss': 'multi_scale_total_variation_loss', 'shape': list(shape), 'levels': levels}
            ctx.case(('mstv', shape, levels, float(a.reshape(-1)[0])), True)
            ctx.count('multi_scale_total_variation_loss/levels=%d' % levels)
            try:
                v = float(LT.multi_scale_total_variation_loss(a, levels=levels))
                u = float(LT.multi_scale_total_variation_loss(torch.full_like(a, 0.3), levels=levels))
            except Exception as e:
                ctx.violation('multi_scale_total_variation_loss(levels=%d) raised %r for a frame of shape %s' % (levels, e, shape), rec,
                              {'class': 'multi_scale_total_variation_loss', 'what': 'raises'})
                break
            if not (math.isfinite(v) and v >= 0):
                ctx.violation('multi_scale_total_variation_loss is negative or not finite: %g' % v, rec, {'class': 'multi_scale_total_variation_loss', 'what': 'negative'})
            if abs(u) > 1e-9:
                ctx.violation('multi_scale_total_variation_loss of a uniform frame is %g' % u, rec, {'class': 'multi_scale_total_variation_loss', 'what': 'zero_at_identity'})
            if levels == 1 and abs(v - float(LT.total_variation_loss(a))) > 1e-6 * max(1.0, v):
                ctx.violation('multi_scale_total_variation_loss with one level (%g) is not the total variation loss (%g)' % (v, float(LT.total_variation_loss(a))), rec,
                              {'class': 'multi_scale_total_variation_loss', 'what': 'one_level'})
            if prev is not None and v < prev - 1e-6 * max(1.0, prev):
                ctx.violation('multi_scale_total_variation_loss decreases when a level is added: %g -> %g' % (prev, v), rec,
                              {'class': 'multi_scale_total_variation_loss', 'what': 'sum_of_levels'})
            prev = v
    HS = [(1, 3, 6, 5), (3, 6, 5), (1, 7, 4), (9, 8), (1, 1, 5, 5), (1, 3, 16, 16)]
    for k in range(ctx.n(30, 240)):
        shape = HS[k % len(HS)]
        bins = [1, 2, 3, 8, 32, 64, 256][k % 7]
        limits = [[0., 1.], [0., 1.], [0., 2.], [-1., 1.], [0.25, 0.75]][(k // 7) % 5]
        g = torch.Generator().manual_seed(rng.randrange(10 ** 6))
        a, b = torch.rand(*shape, generator=g), torch.rand(*shape, generator=g)
        if k % 4 == 0:
            b = torch.full(shape, 0.5)
        rec = {'loss': 'histogram_loss', 'shape': list(shape), 'bins': bins, 'limits': limits}
        ctx.case(('hist', shape, bins, tuple(limits), float(a.reshape(-1)[0])), True)
        ctx.count('histogram_loss/bins=%d' % bins)
        try:
            v, z, sym = float(LT.histogram_loss(a, b, bins=bins, limits=limits)), float(LT.histogram_loss(a, a.clone(), bins=bins, limits=limits)), \
                float(LT.histogram_loss(b, a, bins=bins, limits=limits))
            same_shape_other_layout = float(LT.histogram_loss(a.reshape(shape[-3:] if len(shape) == 4 else shape), a, bins=bins, limits=limits))
        except Exception as e:
            ctx.violation('histogram_loss(bins=%d, limits=%s) raised %r for frames of shape %s' % (bins, limits, e, shape), rec, {'class': 'histogram_loss', 'what': 'raises'})
            continue
        if not (math.isfinite(v) and v >= 0):
            ctx.violation('histogram_loss(bins=%d) is negative or not finite: %g' % (bins, v), rec, {'class': 'histogram_loss', 'what': 'negative'})
        if abs(z) > 1e-9 or abs(same_shape_other_layout) > 1e-9:
            ctx.violation('histogram_loss(bins=%d) of a frame with itself is %g (%g when one copy has no batch dimension)' % (bins, z, same_shape_other_layout), rec,
                          {'class': 'histogram_loss', 'what': 'zero_at_identity'})
        if abs(v - sym) > 1e-6 * max(1.0, v):
            ctx.violation('histogram_loss(a, b) = %g but histogram_loss(b, a) = %g' % (v, sym), rec, {'class': 'histogram_loss', 'what': 'symmetric'})


def replay(ctx, rep):
    import odak.learn.perception as P
    r = rep['replay']
    if r.get('class') in ('multiplane_loss', 'perceptual_multiplane_loss') and 'torch_seed' in r:
        fails = multiplane_eval(r)
        for f in fails:
            print('fails:', f[1])
        return not fails
    if 'sequence' not in r or 'class' not in r:
        return True
    print('replay of', r['class'], r['sequence'], '- run ./check C17 for the full comparison')
    return True
